(* C14 - TIME / PlayFrom arguments (exec_get_time), the TimeSignature arm, and the time-translation law of the
   interpreter: a program without absolute-time commands started L ticks later does the same, L ticks later.
   Self-contained on purpose (the few list / track bookkeeping facts are restated locally, prefix t_). *)
From Sakura.Model Require Import Base Cursor Length Event Song Token LoopMachine LexCore RunCore Tie.
From Sakura.Proofs Require Import ExtP IdleP.
From Coq Require Import Lia.
Open Scope Z_scope.

(* ------------------------------------------------------------------------------------------------ *)
(* 0. vocabulary                                                                                      *)

(* the current track exists (invariant of the interpreter: change_cur_track creates what is missing) *)
Definition cur_valid (s : song) : Prop := (s_cur s < length (s_tracks s))%nat.

(* the documented value of TIME(m:b:t) *)
Definition beat_of (tb den : Z) : Z := Z.quot (tb * 4) den.
Definition time_of (shift num beat m b t : Z) : Z := ((m - 1 + shift) * num + (b - 1)) * beat + t.

(* a token list executed left to right by the arms of exec(), no loop bracket interpreted *)
Definition run_toks (ec : list tok -> res song -> res song) (toks : list tok) (r : res song) : res song :=
  fold_left (fun acc t => step_tok ec t acc) toks r.

Lemma t_upd_nth_length {A} (f : A -> A) l : forall n, length (upd_nth n f l) = length l.
Proof. induction l as [|x r IH]; intros [|n]; cbn [upd_nth length]; try reflexivity. rewrite IH. reflexivity. Qed.

Lemma t_nth_upd_nth_eq {A} (f : A -> A) (d : A) l : forall n, (n < length l)%nat -> nth n (upd_nth n f l) d = f (nth n l d).
Proof.
  induction l as [|x r IH]; intros [|n] H; cbn [length] in H; try lia; cbn [upd_nth nth]; [reflexivity|].
  apply IH. lia.
Qed.

Lemma t_nth_upd_nth_neq {A} (f : A -> A) (d : A) l : forall n i, i <> n -> nth i (upd_nth n f l) d = nth i l d.
Proof.
  induction l as [|x r IH]; intros [|n] [|i] H; cbn [upd_nth nth]; try reflexivity; try congruence.
  apply IH. congruence.
Qed.

Lemma t_upd_nth_upd_nth {A} (f g : A -> A) l : forall n, upd_nth n g (upd_nth n f l) = upd_nth n (fun x => g (f x)) l.
Proof. induction l as [|x r IH]; intros [|n]; cbn [upd_nth]; try reflexivity. rewrite IH. reflexivity. Qed.

Lemma t_upd_nth_at {A} (f g : A -> A) (d : A) l : forall n, f (nth n l d) = g (nth n l d) -> upd_nth n f l = upd_nth n g l.
Proof.
  induction l as [|x r IH]; intros [|n] H; cbn [upd_nth nth] in *; try reflexivity; [rewrite H|rewrite (IH n H)]; reflexivity.
Qed.

Lemma t_cur_track_upd_cur s f : cur_valid s -> cur_track (upd_cur s f) = f (cur_track s).
Proof. intros H. unfold cur_track, upd_cur. cbn [s_tracks s_cur s_set_tracks]. apply t_nth_upd_nth_eq. exact H. Qed.

Lemma t_cur_valid_upd_cur s f : cur_valid s -> cur_valid (upd_cur s f).
Proof. unfold cur_valid, upd_cur. cbn [s_tracks s_cur s_set_tracks]. rewrite t_upd_nth_length. exact (fun H => H). Qed.

Lemma t_upd_cur_other s f i : i <> s_cur s -> nth i (s_tracks (upd_cur s f)) (track_new 0 0) = nth i (s_tracks s) (track_new 0 0).
Proof. intros H. unfold upd_cur. cbn [s_tracks s_set_tracks]. apply t_nth_upd_nth_neq. exact H. Qed.

Lemma t_upd_cur_upd_cur s f g : upd_cur (upd_cur s f) g = upd_cur s (fun t => g (f t)).
Proof. unfold upd_cur. cbn [s_tracks s_cur s_set_tracks]. rewrite t_upd_nth_upd_nth. reflexivity. Qed.

Lemma run_toks_cons ec t r s : run_toks ec (t :: r) (Ok s) = run_toks ec r (step_song ec t s).
Proof. reflexivity. Qed.

Lemma run_toks_app ec a b r : run_toks ec (a ++ b) r = run_toks ec b (run_toks ec a r).
Proof. unfold run_toks. apply fold_left_app. Qed.

(* ------------------------------------------------------------------------------------------------ *)
(* 1. exec_get_time: TIME(m:b:t), TIME(n)                                                             *)

Theorem get_time_three s m b t rest cmd :
  exec_get_time s (m :: b :: t :: rest) cmd
  = (time_of (s_measure_shift s) (s_timesig_frac s) (beat_of (s_timebase s) (s_timesig_deno s)) m b t, s).
Proof. cbn [exec_get_time]. f_equal. unfold time_of, beat_of. ring. Qed.

Theorem get_time_one s n cmd : exec_get_time s [n] cmd = (n, s).
Proof. reflexivity. Qed.

(* the beat is 4*timebase/denominator exactly when the denominator divides 4*timebase (the code truncates) *)
Theorem beat_exact tb den : den <> 0 -> (beat_of tb den * den = 4 * tb <-> (den | 4 * tb)).
Proof.
  intros Hd. unfold beat_of. split.
  - intros H. exists (Z.quot (tb * 4) den). lia.
  - intros [k Hk]. replace (tb * 4) with (k * den) by lia. rewrite Z.quot_mul by exact Hd. lia.
Qed.

Theorem beat_nonneg_div tb den : 0 <= tb -> 0 < den -> beat_of tb den = (4 * tb) / den.
Proof. intros H1 H2. unfold beat_of. rewrite Z.quot_div_nonneg by lia. f_equal. lia. Qed.

Theorem beat_den_2 tb : beat_of tb 2 = 2 * tb.
Proof. unfold beat_of. replace (tb * 4) with ((2 * tb) * 2) by lia. apply Z.quot_mul. lia. Qed.
Theorem beat_den_4 tb : beat_of tb 4 = tb.
Proof. unfold beat_of. apply Z.quot_mul. lia. Qed.
Theorem beat_den_8 tb : (2 | tb) -> 2 * beat_of tb 8 = tb.
Proof. intros [k ->]. unfold beat_of. replace (k * 2 * 4) with (k * 8) by lia. rewrite Z.quot_mul by lia. lia. Qed.
Theorem beat_den_16 tb : (4 | tb) -> 4 * beat_of tb 16 = tb.
Proof. intros [k ->]. unfold beat_of. replace (k * 4 * 4) with (k * 16) by lia. rewrite Z.quot_mul by lia. lia. Qed.

(* the TIME arm: the current track's pointer becomes that value; nothing else changes *)
Theorem time_arm_three ec s m b t rest :
  step_song ec (TTime (m :: b :: t :: rest)) s
  = Ok (upd_cur s (fun trk => tr_set_timepos trk
         (time_of (s_measure_shift s) (s_timesig_frac s) (beat_of (s_timebase s) (s_timesig_deno s)) m b t))).
Proof. cbn [step_song]. rewrite get_time_three. reflexivity. Qed.

Theorem time_arm_one ec s n : step_song ec (TTime [n]) s = Ok (upd_cur s (fun trk => tr_set_timepos trk n)).
Proof. reflexivity. Qed.

(* what `upd_cur s (set pointer to v)` is: that one field of that one track *)
Theorem set_pointer_frame s v : cur_valid s ->
  let s' := upd_cur s (fun trk => tr_set_timepos trk v) in
  tr_timepos (cur_track s') = v /\
  cur_track s' = tr_set_timepos (cur_track s) v /\
  s_set_tracks s' [] = s_set_tracks s [] /\
  length (s_tracks s') = length (s_tracks s) /\
  (forall i, i <> s_cur s -> nth i (s_tracks s') (track_new 0 0) = nth i (s_tracks s) (track_new 0 0)).
Proof.
  intros Hc s'. unfold s'. rewrite t_cur_track_upd_cur by exact Hc. repeat split.
  - unfold upd_cur. cbn [s_tracks s_set_tracks]. apply t_upd_nth_length.
  - intros i Hi. apply t_upd_cur_other. exact Hi.
Qed.

(* PlayFrom(m:b:t) / PlayFrom(n) / `?` only record the point *)
Theorem playfrom_arm_three ec s m b t rest :
  step_song ec (TPlayFrom (m :: b :: t :: rest)) s
  = Ok (s_set_play_from s (time_of (s_measure_shift s) (s_timesig_frac s) (beat_of (s_timebase s) (s_timesig_deno s)) m b t)).
Proof. cbn [step_song]. rewrite get_time_three. reflexivity. Qed.

Theorem playfrom_arm_one ec s n : step_song ec (TPlayFrom [n]) s = Ok (s_set_play_from s n).
Proof. reflexivity. Qed.

Theorem playfrom_here_arm ec s : step_song ec TPlayFromHere s = Ok (s_set_play_from s (tr_timepos (cur_track s))).
Proof. reflexivity. Qed.

Theorem measure_shift_arm ec s k :
  step_song ec (TMeasureShift k) s = Ok (s_set_measure_shift s k).
Proof. cbn [step_song]. unfold s_set_time. destruct s; reflexivity. Qed.

(* ------------------------------------------------------------------------------------------------ *)
(* 2. TimeSignature(n, d)                                                                             *)

Definition good_deno (d : Z) : Prop := d = 2 \/ d = 4 \/ d = 8 \/ d = 16.

Lemma value_range_bounds lo v hi : lo <= hi -> lo <= value_range lo v hi <= hi.
Proof. intros H. unfold value_range. destruct (Z.ltb_spec v lo); [lia|]. destruct (Z.gtb_spec v hi); lia. Qed.

Lemma value_range_id lo v hi : lo <= v <= hi -> value_range lo v hi = v.
Proof. intros H. unfold value_range. destruct (Z.ltb_spec v lo); [lia|]. destruct (Z.gtb_spec v hi); lia. Qed.

(* the state after TimeSignature(n, d), d one of 2, 4, 8, 16: numerator clamped to 2..64, denominator d, and the
   meta event FF 58 04 [numerator, log2 d, 24, 8] pushed at the current position; nothing is logged *)
Theorem timesig_state s n d rest : good_deno d ->
  exec_time_signature s (n :: d :: rest)
  = upd_cur (s_set_timesig_deno (s_set_timesig_frac s (value_range 2 n 64)) d)
            (fun trk => tr_push_event trk (ev_meta (tr_timepos (cur_track s)) 255 88 4 [value_range 2 n 64; Z.log2 d; 24; 8])).
Proof.
  intros Hd. cbn [exec_time_signature].
  assert (Hn : as_u8 (value_range 2 n 64) = value_range 2 n 64).
  { pose proof (value_range_bounds 2 n 64 ltac:(lia)). unfold as_u8. apply Z.mod_small. lia. }
  rewrite Hn.
  destruct Hd as [-> | [-> | [-> | ->]]]; cbn [value_range Z.ltb Z.gtb Z.compare Z.eqb orb Pos.eqb Pos.compare Pos.compare_cont];
    unfold s_set_time; destruct s; reflexivity.
Qed.

Theorem timesig_arm ec s n d rest : good_deno d -> cur_valid s ->
  exists s', step_song ec (TTimeSignature (n :: d :: rest)) s = Ok s' /\
    s_timesig_frac s' = value_range 2 n 64 /\ 2 <= s_timesig_frac s' <= 64 /\
    s_timesig_deno s' = d /\
    tr_events (cur_track s') = tr_events (cur_track s)
        ++ [ev_meta (tr_timepos (cur_track s)) 255 88 4 [value_range 2 n 64; Z.log2 d; 24; 8]] /\
    tr_timepos (cur_track s') = tr_timepos (cur_track s) /\
    s_measure_shift s' = s_measure_shift s /\ s_timebase s' = s_timebase s /\ s_tempo s' = s_tempo s /\
    s_logs s' = s_logs s /\ s_cur s' = s_cur s /\ cur_valid s' /\
    (forall i, i <> s_cur s -> nth i (s_tracks s') (track_new 0 0) = nth i (s_tracks s) (track_new 0 0)).
Proof.
  intros Hd Hc. eexists. split; [cbn [step_song]; rewrite (timesig_state s n d rest Hd); reflexivity|].
  set (s0 := s_set_timesig_deno (s_set_timesig_frac s (value_range 2 n 64)) d).
  assert (Hc0 : cur_valid s0) by exact Hc.
  rewrite t_cur_track_upd_cur by exact Hc0.
  change (cur_track s0) with (cur_track s).
  repeat split; try reflexivity.
  - apply value_range_bounds. lia.
  - apply value_range_bounds. lia.
  - apply t_cur_valid_upd_cur. exact Hc0.
  - intros i Hi. apply (t_upd_cur_other s0). exact Hi.
Qed.

(* a denominator outside 2, 4, 8, 16 is replaced by 4 and an error is logged *)
Theorem timesig_bad_deno s n d rest : ~ good_deno (value_range 2 d 64) ->
  s_timesig_deno (exec_time_signature s (n :: d :: rest)) = 4 /\
  s_timesig_frac (exec_time_signature s (n :: d :: rest)) = value_range 2 n 64.
Proof.
  intros Hd. cbn [exec_time_signature].
  destruct ((value_range 2 d 64 =? 2) || (value_range 2 d 64 =? 4) || (value_range 2 d 64 =? 8) || (value_range 2 d 64 =? 16)) eqn:E.
  - exfalso. apply Hd. unfold good_deno.
    apply orb_prop in E. destruct E as [E|E]; [|lia]. apply orb_prop in E. destruct E as [E|E]; [|lia].
    apply orb_prop in E. destruct E as [E|E]; lia.
  - split; reflexivity.
Qed.

(* the three commands in a row: the position the next note starts at *)
Theorem time_after_signature ec s n d k m b t : good_deno d -> cur_valid s ->
  exists s', run_toks ec [TTimeSignature [n; d]; TMeasureShift k; TTime [m; b; t]] (Ok s) = Ok s' /\
    tr_timepos (cur_track s') = time_of k (value_range 2 n 64) (beat_of (s_timebase s) d) m b t /\
    s_timesig_frac s' = value_range 2 n 64 /\ s_timesig_deno s' = d /\ s_measure_shift s' = k /\ s_cur s' = s_cur s.
Proof.
  intros Hd Hc.
  destruct (timesig_arm ec s n d [] Hd Hc) as [s1 [E1 [F1 [_ [D1 [_ [_ [_ [TB1 [_ [_ [C1 [V1 _]]]]]]]]]]]]].
  rewrite run_toks_cons, E1, run_toks_cons, measure_shift_arm, run_toks_cons, time_arm_three.
  eexists. split; [reflexivity|].
  assert (V2 : cur_valid (s_set_measure_shift s1 k)) by exact V1.
  rewrite t_cur_track_upd_cur by exact V2.
  cbn [tr_timepos tr_set_timepos s_measure_shift s_set_measure_shift s_timesig_frac s_timesig_deno s_timebase s_cur upd_cur s_set_tracks].
  rewrite F1, D1, TB1, C1. repeat split; reflexivity.
Qed.

(* ------------------------------------------------------------------------------------------------ *)
(* 3. time translation: the state L ticks later                                                       *)

Definition shift_ev (L : Z) (e : event) : event := set_time e (e_time e + L).

(* the first n events (those that existed before) are kept, every later one is moved by L *)
Definition shift_tail (L : Z) (n : nat) (evs : list event) : list event :=
  firstn n evs ++ map (shift_ev L) (skipn n evs).
Definition shift_track (L : Z) (n : nat) (t : track) : track :=
  tr_set_events (tr_set_timepos t (tr_timepos t + L)) (shift_tail L n (tr_events t)).
(* h: the start tick remembered from the last chord (dead while no chord is open) *)
Definition shift_state (L : Z) (n : nat) (h : Z) (s : song) : song :=
  s_set_harmony_events (s_set_harmony_time (upd_cur s (shift_track L n)) h) (map (shift_ev L) (s_harmony_events s)).

(* only the pointer of the current track is moved: what a rest does *)
Definition shift_song (L : Z) (s : song) : song := upd_cur s (fun t => tr_set_timepos t (tr_timepos t + L)).

(* s' is s moved by L, the events beyond the first n of the current track included *)
Definition shifted (L : Z) (n : nat) (s s' : song) : Prop :=
  cur_valid s /\ (n <= length (tr_events (cur_track s)))%nat /\ tr_tie_notes (cur_track s) = [] /\
  tr_rsv (cur_track s) = rsv_new /\            (* nothing reserved on the track (a v.onTime ramp is anchored in absolute time) *)
  exists h, s' = shift_state L n h s /\ (s_harmony_flag s = true -> h = s_harmony_time s + L).

Definition shifted_res (L : Z) (n : nat) (r r' : res song) : Prop :=
  match r, r' with
  | Ok s, Ok s' => shifted L n s s'
  | Panic a, Panic b => a = b
  | OutOfFuel, OutOfFuel => True
  | Unsupported a, Unsupported b => a = b
  | _, _ => False
  end.

(* the fragment: no absolute-time command (TIME, PlayFrom, `?`), no TrackSync, no track change, no macro call,
   no slurred lettered note; blocks (Sub, tuplets) of such tokens; loops are handled by the machine *)
Fixpoint shiftable (t : tok) : bool :=
  match t with
  | TNote _ _ _ _ _ _ _ _ slur => slur <? 1
  | TDiv _ _ ch => forallb shiftable ch
  | TSub ch => forallb shiftable ch
  | TLineNo _ | TNoteN _ _ _ _ _ _ | TRest _ _ | TLength _ | TOctave _ | TOctaveRel _ | TOctaveOnce _
  | TVelocity _ _ | TVelocityRel _ | TQLen _ | TQLenRel _ | TTiming _ | TLoopBegin _ | TLoopBreak | TLoopEnd
  | THarmonyBegin | THarmonyEnd _ _ _ | TChannel _ | TVoice _ | TKeyFlag _ | TKeyShift _ | TTrackKey _ | TComment
  | TTimeSignature _ | TMeasureShift _ | TTempo _ | TVAdd _ | TQAdd _ | TTieMode _
  | TCC _ _ | TPitchBend _ _ | TRpnCmd _ _ _ _ | TRpnDirect _ _ => true     (* events at the pointer of the current track *)
  | TMetaText _ _ | TPort _ => true                                           (* a meta event at the pointer of the current track *)
  | TTempoChange _ _ => true                                                  (* tempo events from the pointer on, pointer restored *)
  | TSysEx _ _ | TSysexReset _ | TSysExCommand _ _ | TGSEffect _ _ _ => true  (* a system exclusive event at the pointer *)
  | TDeviceNumber _ => true                                                   (* no event, no time *)
  | _ => false
  end.

Lemma shift_tail_app L n evs x : (n <= length evs)%nat ->
  shift_tail L n (evs ++ x) = shift_tail L n evs ++ map (shift_ev L) x.
Proof.
  intros H. unfold shift_tail. rewrite firstn_app, skipn_app, map_app.
  replace (n - length evs)%nat with 0%nat by lia. cbn [firstn skipn]. rewrite app_nil_r, app_assoc. reflexivity.
Qed.

Lemma shift_tail_all L evs : shift_tail L (length evs) evs = evs.
Proof. unfold shift_tail. rewrite firstn_all, skipn_all. cbn [map]. apply app_nil_r. Qed.

Lemma shift_tail_length L n evs : length (shift_tail L n evs) = length evs.
Proof. unfold shift_tail. rewrite app_length, map_length, <- app_length, firstn_skipn. reflexivity. Qed.

Lemma cur_track_shift L n h s : cur_valid s -> cur_track (shift_state L n h s) = shift_track L n (cur_track s).
Proof.
  intros H. unfold cur_track, shift_state, upd_cur.
  cbn [s_tracks s_cur s_set_tracks s_set_harmony_time s_set_harmony_events]. apply t_nth_upd_nth_eq. exact H.
Qed.

Lemma upd_cur_shift L n h s f g : cur_valid s ->
  g (shift_track L n (cur_track s)) = shift_track L n (f (cur_track s)) ->
  upd_cur (shift_state L n h s) g = shift_state L n h (upd_cur s f).
Proof.
  intros Hc H. unfold shift_state, upd_cur.
  cbn [s_tracks s_cur s_harmony_events s_set_tracks s_set_harmony_time s_set_harmony_events].
  rewrite !t_upd_nth_upd_nth.
  rewrite (t_upd_nth_at (fun x => g (shift_track L n x)) (fun x => shift_track L n (f x)) (track_new 0 0) (s_tracks s) (s_cur s) H).
  reflexivity.
Qed.

Lemma shift_song_is_shift_state L s : cur_valid s -> s_harmony_events s = [] ->
  shift_song L s = shift_state L (length (tr_events (cur_track s))) (s_harmony_time s) s.
Proof.
  intros Hc He. unfold shift_song, shift_state, upd_cur. rewrite He.
  cbn [s_tracks s_cur s_harmony_events s_set_tracks s_set_harmony_time s_set_harmony_events map].
  rewrite (t_upd_nth_at (fun t => tr_set_timepos t (tr_timepos t + L)) (shift_track L (length (tr_events (cur_track s))))
             (track_new 0 0) (s_tracks s) (s_cur s)).
  - destruct s; cbn in *; subst; reflexivity.
  - fold (cur_track s). unfold shift_track. rewrite shift_tail_all. destruct (cur_track s); reflexivity.
Qed.

Lemma shifted_ok L n h s : cur_valid s -> (n <= length (tr_events (cur_track s)))%nat -> tr_tie_notes (cur_track s) = [] ->
  tr_rsv (cur_track s) = rsv_new ->
  (s_harmony_flag s = true -> h = s_harmony_time s + L) -> shifted_res L n (Ok s) (Ok (shift_state L n h s)).
Proof. intros A B C I D. cbn [shifted_res]. split; [exact A|]. split; [exact B|]. split; [exact C|]. split; [exact I|]. exists h. split; [reflexivity|exact D]. Qed.

(* a track-only arm *)
Lemma shifted_upd_cur L n h s f g :
  cur_valid s -> (n <= length (tr_events (cur_track s)))%nat -> tr_tie_notes (cur_track s) = [] ->
  (s_harmony_flag s = true -> h = s_harmony_time s + L) ->
  g (shift_track L n (cur_track s)) = shift_track L n (f (cur_track s)) ->
  (length (tr_events (cur_track s)) <= length (tr_events (f (cur_track s))))%nat ->
  tr_tie_notes (f (cur_track s)) = [] ->
  tr_rsv (f (cur_track s)) = rsv_new ->
  shifted_res L n (Ok (upd_cur s f)) (Ok (upd_cur (shift_state L n h s) g)).
Proof.
  intros A B C D E F G I. rewrite (upd_cur_shift L n h s f g A E). apply shifted_ok.
  - apply t_cur_valid_upd_cur. exact A.
  - rewrite t_cur_track_upd_cur by exact A. lia.
  - rewrite t_cur_track_upd_cur by exact A. exact G.
  - rewrite t_cur_track_upd_cur by exact A. exact I.
  - exact D.
Qed.

Ltac track_eq :=
  unfold shift_track, tr_push_event, set_tie_mode, tr_set_tie;
  unfold tr_set_events, tr_set_timepos, tr_set_length, tr_set_octave, tr_set_velocity, tr_set_qlen, tr_set_timing, tr_set_channel,
         tr_set_track_key;
  cbn [tr_set_events tr_set_timepos tr_set_length tr_set_octave tr_set_velocity tr_set_qlen tr_set_timing tr_set_channel
       tr_set_track_key tr_timepos tr_channel tr_length tr_octave tr_velocity tr_qlen tr_timing tr_track_key tr_tie_mode
       tr_tie_value tr_bend_range tr_events tr_tie_notes];
  rewrite ?shift_tail_app by (rewrite ?app_length; cbn [length]; lia); cbn [map];
  try reflexivity; (f_equal; try lia; try reflexivity).

Ltac len_ok :=
  unfold tr_push_event, set_tie_mode, tr_set_tie;
  cbn [tr_set_events tr_set_timepos tr_set_length tr_set_octave tr_set_velocity tr_set_qlen tr_set_timing tr_set_channel
       tr_set_track_key tr_events];
  rewrite ?app_length; cbn [length]; lia.

Lemma shift_ev_note L tp t ch no len vel : ev_note (tp + L + t) ch no len vel = shift_ev L (ev_note (tp + t) ch no len vel).
Proof. unfold shift_ev, ev_note, set_time. cbn [e_type e_time e_ch e_v1 e_v2 e_v3 e_data]. f_equal. lia. Qed.

Lemma set_harmony_note_shift L e H nl q vel :
  set_harmony_note (shift_ev L e) (H + L) nl q vel = shift_ev L (set_harmony_note e H nl q vel).
Proof. reflexivity. Qed.

Lemma add_log_shift L n h s m : add_log (shift_state L n h s) m = shift_state L n h (add_log s m).
Proof.
  unfold add_log. change (s_logs (shift_state L n h s)) with (s_logs s).
  destruct (_ <=? _); reflexivity.
Qed.

Lemma add_log_inv s m :
  s_cur (add_log s m) = s_cur s /\ s_tracks (add_log s m) = s_tracks s /\ s_harmony_flag (add_log s m) = s_harmony_flag s /\
  s_harmony_time (add_log s m) = s_harmony_time s /\ s_timebase (add_log s m) = s_timebase s /\
  s_tempo (add_log s m) = s_tempo s /\ s_measure_shift (add_log s m) = s_measure_shift s.
Proof. unfold add_log. destruct (_ <=? _); repeat split; reflexivity. Qed.

(* ---- TempoChange: every step of the ramp keeps the translation ---- *)
Lemma shifted_tempo_change L n s s' v : shifted L n s s' -> shifted L n (tempo_change s v) (tempo_change s' v).
Proof.
  intros (Hc & Hn & Ht & Hi & h & -> & Hh). unfold tempo_change. rewrite (cur_track_shift L n h s Hc).
  cbn [shift_track tr_set_events tr_set_timepos tr_timepos].
  set (G := fun x : song => s_set_time x v (s_timesig_frac x) (s_timesig_deno x) (s_measure_shift x)).
  change (s_set_time (shift_state L n h s) v (s_timesig_frac (shift_state L n h s)) (s_timesig_deno (shift_state L n h s))
            (s_measure_shift (shift_state L n h s))) with (shift_state L n h (G s)).
  change (s_set_time s v (s_timesig_frac s) (s_timesig_deno s) (s_measure_shift s)) with (G s).
  apply (shifted_upd_cur L n h (G s)); change (cur_track (G s)) with (cur_track s); try assumption; [track_eq|len_ok].
Qed.
Lemma shifted_move L n s s' d : shifted L n s s' ->
  shifted L n (upd_cur s (fun t => tr_set_timepos t (tr_timepos t + d))) (upd_cur s' (fun t => tr_set_timepos t (tr_timepos t + d))).
Proof.
  intros (Hc & Hn & Ht & Hi & h & -> & Hh). apply (shifted_upd_cur L n h s); try assumption; [track_eq|len_ok].
Qed.
Lemma shifted_set_pos L n s s' p : shifted L n s s' ->
  shifted L n (upd_cur s (fun t => tr_set_timepos t p)) (upd_cur s' (fun t => tr_set_timepos t (p + L))).
Proof.
  intros (Hc & Hn & Ht & Hi & h & -> & Hh). apply (shifted_upd_cur L n h s); try assumption; [track_eq|len_ok].
Qed.
Lemma shifted_ramp_loop L n a w st cnt : forall idx s s', shifted L n s s' ->
  shifted L n (tempo_ramp_loop s a w st cnt idx) (tempo_ramp_loop s' a w st cnt idx).
Proof.
  induction idx as [|i r IH]; intros s s' H; [exact H|]. cbn [tempo_ramp_loop].
  apply IH, shifted_move, shifted_tempo_change, H.
Qed.
Lemma shifted_pos L n s s' : shifted L n s s' -> tr_timepos (cur_track s') = tr_timepos (cur_track s) + L.
Proof. intros (Hc & _ & _ & _ & h & -> & _). rewrite (cur_track_shift L n h s Hc). reflexivity. Qed.
Lemma shifted_globals L n s s' : shifted L n s s' -> s_timebase s' = s_timebase s /\ s_tempo s' = s_tempo s.
Proof. intros (_ & _ & _ & _ & h & -> & _). split; reflexivity. Qed.
Lemma shifted_a_to_b L n s s' a b len : shifted L n s s' ->
  shifted_res L n (tempo_change_a_to_b s a b len) (tempo_change_a_to_b s' a b len).
Proof.
  intros H. unfold tempo_change_a_to_b. destruct (shifted_globals L n s s' H) as [-> _]. rewrite (shifted_pos L n s s' H).
  destruct (_ =? 0); [reflexivity|]. destruct (RAMP_MAX <? len); [reflexivity|].
  cbn [shifted_res].
  replace (tr_timepos (cur_track s) + L + len) with (tr_timepos (cur_track s) + len + L) by lia.
  apply shifted_set_pos, shifted_tempo_change, shifted_set_pos, shifted_ramp_loop, H.
Qed.
Lemma shifted_exec_tempo_change L n s s' a rest : shifted L n s s' ->
  shifted_res L n (exec_tempo_change s a rest) (exec_tempo_change s' a rest).
Proof.
  intros H. unfold exec_tempo_change. destruct (shifted_globals L n s s' H) as [_ ->].
  destruct rest as [|b [|len [|x r]]]; try (apply shifted_a_to_b, H); cbn [shifted_res]; apply shifted_tempo_change, H.
Qed.

(* the system exclusive arms: the events carry the time they are given and nothing else of it *)
Lemma cmd_sysex_shift L tp args cs : Cmd.cmd_sysex (tp + L) args cs = map (shift_ev L) (Cmd.cmd_sysex tp args cs).
Proof. unfold Cmd.cmd_sysex. destruct args as [|a0 r]; [reflexivity|]. unfold ev_sysex. destruct cs; reflexivity. Qed.
Lemma cmd_sysex_reset_shift L tp d kind : Cmd.cmd_sysex_reset (tp + L) d kind = map (shift_ev L) (Cmd.cmd_sysex_reset tp d kind).
Proof. unfold Cmd.cmd_sysex_reset. repeat match goal with |- context [if ?b then _ else _] => destruct b end; reflexivity. Qed.
Lemma cmd_sysex_command_shift L tp tag args : Cmd.cmd_sysex_command (tp + L) tag args = map (shift_ev L) (Cmd.cmd_sysex_command tp tag args).
Proof. unfold Cmd.cmd_sysex_command. repeat match goal with |- context [if ?b then _ else _] => destruct b end; reflexivity. Qed.
Definition map_res (L : Z) (r : res (list event)) : res (list event) :=
  match r with Ok evs => Ok (map (shift_ev L) evs) | Panic x => Panic x | OutOfFuel => OutOfFuel | Unsupported w => Unsupported w end.
Lemma cmd_gs_effect_shift L tp dev ch tag args :
  Cmd.cmd_gs_effect (tp + L) dev ch tag args = map_res L (Cmd.cmd_gs_effect tp dev ch tag args).
Proof.
  unfold Cmd.cmd_gs_effect.
  repeat match goal with |- context [if ?b then _ else _] => destruct b end; try reflexivity.
  destruct args; reflexivity.
Qed.

Section StepShift.
  Variables (L : Z) (n : nat).
  Variable ec : list tok -> res song -> res song.

  Definition respects : Prop :=
    forall X r r', forallb shiftable X = true -> shifted_res L n r r' -> shifted_res L n (ec X r) (ec X r').

  Section One.
  Variables (h : Z) (s : song).
  Hypothesis Hc : cur_valid s.
  Hypothesis Hn : (n <= length (tr_events (cur_track s)))%nat.
  Hypothesis Ht : tr_tie_notes (cur_track s) = [].
  Hypothesis Hi : tr_rsv (cur_track s) = rsv_new.
  Hypothesis Hh : s_harmony_flag s = true -> h = s_harmony_time s + L.

  Local Notation s' := (shift_state L n h s).

  Lemma ct' : cur_track s' = shift_track L n (cur_track s).
  Proof. apply cur_track_shift. exact Hc. Qed.
  Lemma ci' : cur_in s'.
  Proof.
    unfold cur_in, shift_state, upd_cur. cbn [s_tracks s_cur s_set_tracks s_set_harmony_time s_set_harmony_events].
    rewrite t_upd_nth_length. exact Hc.
  Qed.
  Lemma idle' : cur_idle s'.
  Proof. unfold cur_idle, idle. rewrite ct'. exact Hi. Qed.

  (* the tail of emit_note for a lettered note, after the pointer moved on and a pending octave-once was undone *)
  Lemma emit_tail_shift ev slur (s2 : song) h2 :
    cur_valid s2 -> (n <= length (tr_events (cur_track s2)))%nat -> tr_tie_notes (cur_track s2) = [] ->
    tr_rsv (cur_track s2) = rsv_new ->
    (s_harmony_flag s2 = true -> h2 = s_harmony_time s2 + L) -> slur <? 1 = true ->
    shifted_res L n
      (if s_harmony_flag s2 then
         Ok (s_set_harmony (upd_cur s2 (fun t => tr_set_timepos t (s_harmony_time s2))) true (s_harmony_time s2)
                           (s_harmony_events s2 ++ [ev]))
       else if slur >=? 1 then Ok (upd_cur s2 (fun t => push_tie_note t ev))
       else if negb (match tr_tie_notes (cur_track s2) with [] => true | _ => false end) then
         Ok (upd_cur s2 (fun t => check_tie_notes (s_timebase s2) (push_tie_note t ev)))
       else Ok (upd_cur s2 (fun t => tr_push_event t ev)))
      (let s2' := shift_state L n h2 s2 in let ev' := shift_ev L ev in
       if s_harmony_flag s2' then
         Ok (s_set_harmony (upd_cur s2' (fun t => tr_set_timepos t (s_harmony_time s2'))) true (s_harmony_time s2')
                           (s_harmony_events s2' ++ [ev']))
       else if slur >=? 1 then Ok (upd_cur s2' (fun t => push_tie_note t ev'))
       else if negb (match tr_tie_notes (cur_track s2') with [] => true | _ => false end) then
         Ok (upd_cur s2' (fun t => check_tie_notes (s_timebase s2') (push_tie_note t ev')))
       else Ok (upd_cur s2' (fun t => tr_push_event t ev'))).
  Proof.
    intros Hc2 Hn2 Ht2 Hi2 Hh2 Hs. cbv zeta.
    change (s_harmony_flag (shift_state L n h2 s2)) with (s_harmony_flag s2).
    destruct (s_harmony_flag s2) eqn:F.
    - change (s_harmony_time (shift_state L n h2 s2)) with h2.
      change (s_harmony_events (shift_state L n h2 s2)) with (map (shift_ev L) (s_harmony_events s2)).
      rewrite (Hh2 eq_refl).
      rewrite (upd_cur_shift L n _ s2 (fun t => tr_set_timepos t (s_harmony_time s2)) _ Hc2) by reflexivity.
      set (Y := upd_cur s2 (fun t => tr_set_timepos t (s_harmony_time s2))).
      replace (s_set_harmony (shift_state L n (s_harmony_time s2 + L) Y) true (s_harmony_time s2 + L)
                 (map (shift_ev L) (s_harmony_events s2) ++ [shift_ev L ev]))
        with (shift_state L n (s_harmony_time s2 + L) (s_set_harmony Y true (s_harmony_time s2) (s_harmony_events s2 ++ [ev])))
        by (unfold shift_state, s_set_harmony; cbn [s_harmony_events s_set_harmony_events s_set_harmony_time s_set_harmony_flag];
            rewrite map_app; reflexivity).
      apply shifted_ok.
      + apply (t_cur_valid_upd_cur s2). exact Hc2.
      + change (cur_track (s_set_harmony Y true (s_harmony_time s2) (s_harmony_events s2 ++ [ev]))) with (cur_track Y).
        unfold Y. rewrite t_cur_track_upd_cur by exact Hc2. exact Hn2.
      + change (cur_track (s_set_harmony Y true (s_harmony_time s2) (s_harmony_events s2 ++ [ev]))) with (cur_track Y).
        unfold Y. rewrite t_cur_track_upd_cur by exact Hc2. exact Ht2.
      + change (cur_track (s_set_harmony Y true (s_harmony_time s2) (s_harmony_events s2 ++ [ev]))) with (cur_track Y).
        unfold Y. rewrite t_cur_track_upd_cur by exact Hc2. exact Hi2.
      + intros _. reflexivity.
    - replace (slur >=? 1) with false by lia.
      rewrite (cur_track_shift L n h2 s2 Hc2). change (tr_tie_notes (shift_track L n (cur_track s2))) with (tr_tie_notes (cur_track s2)).
      rewrite Ht2. cbn [negb].
      apply shifted_upd_cur; try assumption.
      + intros E. rewrite F in E. discriminate.
      + track_eq.
      + cbn [tr_push_event tr_set_events tr_events]. rewrite app_length. lia.
  Qed.

  Lemma add_log_shifted_ok m : shifted_res L n (Ok (add_log s m)) (Ok (add_log s' m)).
  Proof.
    rewrite add_log_shift. destruct (add_log_inv s m) as [I1 [I2 [I3 [I4 _]]]].
    apply shifted_ok; unfold cur_valid, cur_track; rewrite ?I1, ?I2, ?I3, ?I4; assumption.
  Qed.

  Lemma emit_note_plain_shift ev nl b slur : (b = true -> slur <? 1 = true) ->
    shifted_res L n (emit_note_plain s ev nl b slur) (emit_note_plain s' (shift_ev L ev) nl b slur).
  Proof.
    intros Hb. unfold emit_note_plain. destruct b.
    - specialize (Hb eq_refl).
      set (F1 := fun t => tr_set_timepos t (tr_timepos t + nl)).
      assert (E1 : upd_cur s' F1 = shift_state L n h (upd_cur s F1)) by (apply upd_cur_shift; [exact Hc|unfold F1; track_eq]).
      rewrite E1. set (s1 := upd_cur s F1).
      assert (Hc1 : cur_valid s1) by (apply t_cur_valid_upd_cur; exact Hc).
      assert (Hct1 : cur_track s1 = F1 (cur_track s)) by (apply t_cur_track_upd_cur; exact Hc).
      change (s_octave_once (shift_state L n h s1)) with (s_octave_once s1).
      destruct (s_octave_once s1 =? 0).
      + apply emit_tail_shift; try assumption; rewrite ?Hct1; assumption.
      + set (F2 := fun t => tr_set_octave t (tr_octave t - s_octave_once s1)).
        assert (E2 : upd_cur (shift_state L n h s1) F2 = shift_state L n h (upd_cur s1 F2))
          by (apply upd_cur_shift; [exact Hc1|unfold F2; track_eq]).
        rewrite E2.
        change (s_set_octave_once (shift_state L n h (upd_cur s1 F2)) 0) with (shift_state L n h (s_set_octave_once (upd_cur s1 F2) 0)).
        assert (Hct2 : cur_track (s_set_octave_once (upd_cur s1 F2) 0) = F2 (F1 (cur_track s))).
        { change (cur_track (s_set_octave_once (upd_cur s1 F2) 0)) with (cur_track (upd_cur s1 F2)).
          rewrite t_cur_track_upd_cur by exact Hc1. rewrite Hct1. reflexivity. }
        apply emit_tail_shift; try assumption; rewrite ?Hct2; try assumption.
        apply (t_cur_valid_upd_cur s1 F2 Hc1).
    - apply shifted_upd_cur; try assumption.
      + track_eq.
      + cbn [tr_push_event tr_set_events tr_set_timepos tr_events]. rewrite app_length. lia.
  Qed.
  Lemma emit_note_shift ev nl b slur : (b = true -> slur <? 1 = true) ->
    shifted_res L n (emit_note s ev nl b slur) (emit_note s' (shift_ev L ev) nl b slur).
  Proof.
    intros Hb. rewrite (emit_note_idle s _ _ _ _ Hc Hi), (emit_note_idle s' _ _ _ _ ci' idle').
    apply emit_note_plain_shift. exact Hb.
  Qed.

  (* the command arms that add events at the pointer of the current track *)
  Lemma add_events_shift_gen f g :
    g (tr_timepos (cur_track s) + L) (tr_channel (cur_track s)) = map (shift_ev L) (f (tr_timepos (cur_track s)) (tr_channel (cur_track s))) ->
    shifted_res L n (Ok (add_events s f)) (Ok (add_events s' g)).
  Proof.
    intros Hf. rewrite !add_events_eq, ct'.
    cbn [shift_track tr_set_events tr_set_timepos tr_timepos tr_channel]. rewrite Hf.
    apply shifted_upd_cur; try assumption.
    - unfold tr_push_events, shift_track. cbn [tr_set_events tr_set_timepos tr_events tr_timepos].
      rewrite shift_tail_app by exact Hn. reflexivity.
    - unfold tr_push_events. cbn [tr_set_events tr_events]. rewrite app_length. lia.
  Qed.
  Lemma add_events_shift f : (forall tp ch, f (tp + L) ch = map (shift_ev L) (f tp ch)) ->
    shifted_res L n (Ok (add_events s f)) (Ok (add_events s' f)).
  Proof.
    intros Hf. rewrite !add_events_eq, ct'.
    cbn [shift_track tr_set_events tr_set_timepos tr_timepos tr_channel]. rewrite Hf.
    apply shifted_upd_cur; try assumption.
    - unfold tr_push_events, shift_track. cbn [tr_set_events tr_set_timepos tr_events tr_timepos].
      rewrite shift_tail_app by exact Hn. reflexivity.
    - unfold tr_push_events. cbn [tr_set_events tr_events]. rewrite app_length. lia.
  Qed.

  Hypothesis Hec : respects.

  Theorem step_shift t : shiftable t = true -> shifted_res L n (step_song ec t s) (step_song ec t s').
  Proof.
    intros Hs.
    destruct t; cbn [shiftable] in Hs; try discriminate; cbn [step_song].
    - (* TLineNo *) apply (shifted_ok L n h (s_set_lineno s ln)); assumption.
    - (* TNote *)
      rewrite (exec_note_idle s _ _ _ _ _ _ _ _ _ Hc Hi), (exec_note_idle s' _ _ _ _ _ _ _ _ _ ci' idle').
      unfold exec_note_plain. rewrite ct'.
      change (note_number s' base flag natural oct) with
        (let trk := shift_track L n (cur_track s) in
         let no := base mod 12 in
         let o := if oct <? 0 then tr_octave trk else oct in
         let n0 := o * 12 + no + flag in
         if s_use_key_shift s then n0 + (if natural =? 0 then key_flag_at s no else 0) + s_key_shift s + tr_track_key trk else n0) ||
      idtac.
      unfold note_number. rewrite ct'. unfold key_flag_at.
      cbn [shift_track tr_set_events tr_set_timepos tr_timepos tr_channel tr_length tr_octave tr_velocity tr_qlen tr_timing tr_track_key].
      change (s_timebase s') with (s_timebase s). change (s_use_key_shift s') with (s_use_key_shift s).
      change (s_key_flag s') with (s_key_flag s). change (s_key_shift s') with (s_key_shift s).
      rewrite shift_ev_note. apply emit_note_plain_shift. intros _. exact Hs.
    - (* TNoteN *)
      rewrite (exec_note_n_idle s _ _ _ _ _ _ Hc Hi), (exec_note_n_idle s' _ _ _ _ _ _ ci' idle').
      unfold exec_note_n_plain. rewrite ct'.
      cbn [shift_track tr_set_events tr_set_timepos tr_timepos tr_channel tr_length tr_octave tr_velocity tr_qlen tr_timing tr_track_key].
      change (s_timebase s') with (s_timebase s). change (s_key_shift s') with (s_key_shift s).
      rewrite shift_ev_note. apply emit_note_plain_shift. discriminate.
    - (* TRest *) unfold exec_rest. change (s_timebase s') with (s_timebase s).
      apply shifted_upd_cur; try assumption; [track_eq|len_ok].
    - (* TLength *) change (s_timebase s') with (s_timebase s).
      rewrite (upd_cur_clear s Reserve.WL (fun x => tr_set_length x (calc_length len (s_timebase s) (s_timebase s))) Hi), (upd_cur_clear s' Reserve.WL (fun x => tr_set_length x (calc_length len (s_timebase s) (s_timebase s))) idle').
      apply shifted_upd_cur; try assumption; [track_eq|len_ok].
    - (* TOctave *) rewrite (upd_cur_clear s Reserve.WO (fun x => tr_set_octave x (value_range 0 v 10)) Hi), (upd_cur_clear s' Reserve.WO (fun x => tr_set_octave x (value_range 0 v 10)) idle').
      apply shifted_upd_cur; try assumption; [track_eq|len_ok].
    - (* TOctaveRel *) apply shifted_upd_cur; try assumption; [track_eq|len_ok].
    - (* TOctaveOnce *)
      cbv zeta. rewrite ct'.
      cbn [shift_track tr_set_events tr_set_timepos tr_timepos tr_channel tr_length tr_octave tr_velocity tr_qlen tr_timing tr_track_key].
      set (after := value_range 0 (tr_octave (cur_track s) + v) 10).
      set (F := fun t => tr_set_octave t after).
      rewrite (upd_cur_shift L n h s F F Hc) by (unfold F; track_eq).
      change (s_octave_once s') with (s_octave_once s).
      set (k := s_octave_once s + (after - tr_octave (cur_track s))).
      apply (shifted_ok L n h (s_set_octave_once (upd_cur s F) k)).
      + apply (t_cur_valid_upd_cur s F Hc).
      + change (cur_track (s_set_octave_once (upd_cur s F) k)) with (cur_track (upd_cur s F)).
        rewrite t_cur_track_upd_cur by exact Hc. exact Hn.
      + change (cur_track (s_set_octave_once (upd_cur s F) k)) with (cur_track (upd_cur s F)).
        rewrite t_cur_track_upd_cur by exact Hc. exact Ht.
      + change (cur_track (s_set_octave_once (upd_cur s F) k)) with (cur_track (upd_cur s F)).
        rewrite t_cur_track_upd_cur by exact Hc. exact Hi.
      + exact Hh.
    - (* TVelocity *) destruct (ino >? 0); [reflexivity|].
      rewrite (upd_cur_clear s Reserve.WV (fun x => tr_set_velocity x (value_range 0 v 127)) Hi), (upd_cur_clear s' Reserve.WV (fun x => tr_set_velocity x (value_range 0 v 127)) idle').
      apply shifted_upd_cur; try assumption; [track_eq|len_ok].
    - (* TVelocityRel *) change (s_v_add s') with (s_v_add s). apply shifted_upd_cur; try assumption; [track_eq|len_ok].
    - (* TQLen *) rewrite (upd_cur_clear s Reserve.WQ (fun x => tr_set_qlen x (value_range 0 v 100)) Hi), (upd_cur_clear s' Reserve.WQ (fun x => tr_set_qlen x (value_range 0 v 100)) idle').
      apply shifted_upd_cur; try assumption; [track_eq|len_ok].
    - (* TQLenRel *) change (s_q_add s') with (s_q_add s). apply shifted_upd_cur; try assumption; [track_eq|len_ok].
    - (* TTiming *) rewrite (upd_cur_clear s Reserve.WT (fun x => tr_set_timing x v) Hi), (upd_cur_clear s' Reserve.WT (fun x => tr_set_timing x v) idle').
      apply shifted_upd_cur; try assumption; [track_eq|len_ok].
    - (* TLoopBegin *) apply shifted_ok; assumption.
    - (* TLoopBreak *) apply shifted_ok; assumption.
    - (* TLoopEnd *) apply shifted_ok; assumption.
    - (* THarmonyBegin *) rewrite ct'. cbn [shift_track tr_set_events tr_set_timepos tr_timepos].
      change (s_harmony_events s') with (map (shift_ev L) (s_harmony_events s)).
      change (s_set_harmony s' true (tr_timepos (cur_track s) + L) (map (shift_ev L) (s_harmony_events s)))
        with (shift_state L n (tr_timepos (cur_track s) + L) (s_set_harmony s true (tr_timepos (cur_track s)) (s_harmony_events s))).
      apply shifted_ok; try assumption. intros _. reflexivity.
    - (* THarmonyEnd *) unfold exec_harmony_end. change (s_harmony_flag s') with (s_harmony_flag s).
      destruct (s_harmony_flag s) eqn:F; [|apply shifted_ok; try assumption; intros E; rewrite F in E; discriminate].
      rewrite ct'. change (s_harmony_time s') with h.
      change (s_harmony_events s') with (map (shift_ev L) (s_harmony_events s)). change (s_timebase s') with (s_timebase s).
      rewrite (Hh eq_refl).
      cbn [shift_track tr_set_events tr_set_timepos tr_timepos tr_channel tr_length tr_octave tr_velocity tr_qlen tr_timing tr_track_key].
      set (q := if qlen <? 0 then tr_qlen (cur_track s) else qlen).
      set (nl := calc_length len (s_timebase s) (tr_length (cur_track s))).
      set (H := s_harmony_time s).
      set (evs := map (fun e => set_harmony_note e H nl q vel) (rev (s_harmony_events s))).
      assert (Eevs : map (fun e => set_harmony_note e (H + L) nl q vel) (rev (map (shift_ev L) (s_harmony_events s)))
                     = map (shift_ev L) evs).
      { unfold evs. rewrite <- map_rev, !map_map. apply map_ext. intros e. apply set_harmony_note_shift. }
      rewrite Eevs.
      set (F1 := fun t => tr_set_timepos (tr_set_events t (tr_events t ++ evs)) (H + nl)).
      rewrite (upd_cur_shift L n (H + L) s F1 _ Hc) by (unfold F1; track_eq).
      change (s_set_harmony (shift_state L n (H + L) (upd_cur s F1)) false (H + L) [])
        with (shift_state L n (H + L) (s_set_harmony (upd_cur s F1) false H [])).
      apply shifted_ok.
      + apply (t_cur_valid_upd_cur s F1 Hc).
      + change (cur_track (s_set_harmony (upd_cur s F1) false H [])) with (cur_track (upd_cur s F1)).
        rewrite t_cur_track_upd_cur by exact Hc. unfold F1. cbn [tr_set_timepos tr_set_events tr_events]. rewrite app_length. lia.
      + change (cur_track (s_set_harmony (upd_cur s F1) false H [])) with (cur_track (upd_cur s F1)).
        rewrite t_cur_track_upd_cur by exact Hc. exact Ht.
      + change (cur_track (s_set_harmony (upd_cur s F1) false H [])) with (cur_track (upd_cur s F1)).
        rewrite t_cur_track_upd_cur by exact Hc. exact Hi.
      + cbn. discriminate.
    - (* TDiv *)
      apply andb_prop in Hs || idtac.
      rewrite ct'. change (s_timebase s') with (s_timebase s).
      cbn [shift_track tr_set_events tr_set_timepos tr_timepos tr_channel tr_length].
      set (dl := calc_length len (s_timebase s) (tr_length (cur_track s))).
      set (nlen := if cnt >? 0 then Z.quot dl cnt else 0).
      set (F0 := fun t => tr_set_length t nlen).
      assert (R0 : shifted_res L n (Ok (upd_cur s F0)) (Ok (upd_cur s' F0)))
        by (apply shifted_upd_cur; try assumption; [unfold F0; track_eq|unfold F0; len_ok]).
      pose proof (Hec children _ _ Hs R0) as R1.
      destruct (ec children (Ok (upd_cur s F0))) as [s2| | |], (ec children (Ok (upd_cur s' F0))) as [s2'| | |];
        cbn [shifted_res] in R1; try contradiction; cbn [bind shifted_res]; try exact R1.
      destruct R1 as [Hc2 [Hn2 [Ht2 [Hi2 [h2 [-> Hh2]]]]]].
      apply shifted_upd_cur; try assumption; [track_eq|len_ok].
    - (* TSub *)
      rewrite ct'. cbn [shift_track tr_set_events tr_set_timepos tr_timepos].
      assert (R0 : shifted_res L n (Ok s) (Ok s')) by (apply shifted_ok; assumption).
      pose proof (Hec children _ _ Hs R0) as R1.
      destruct (ec children (Ok s)) as [s2| | |], (ec children (Ok s')) as [s2'| | |];
        cbn [shifted_res] in R1; try contradiction; cbn [bind shifted_res]; try exact R1.
      destruct R1 as [Hc2 [Hn2 [Ht2 [Hi2 [h2 [-> Hh2]]]]]].
      apply shifted_upd_cur; try assumption; [track_eq|len_ok].
    - (* TChannel *) apply shifted_upd_cur; try assumption; [track_eq|len_ok].
    - (* TVoice *) unfold exec_voice. rewrite ct'.
      cbn [shift_track tr_set_events tr_set_timepos tr_timepos tr_channel].
      destruct args as [|a [|b r]]; apply shifted_upd_cur; try assumption; [track_eq|len_ok|track_eq|len_ok|track_eq|len_ok].
    - (* TKeyFlag *) apply (shifted_ok L n h (s_set_key_flag s flags)); assumption.
    - (* TKeyShift *) apply (shifted_ok L n h (s_set_key_shift s arg)); assumption.
    - (* TTrackKey *) apply shifted_upd_cur; try assumption; [track_eq|len_ok].
    - (* TComment *) apply shifted_ok; assumption.
    - (* TTimeSignature *) unfold exec_time_signature, runtime_error.
      destruct args as [|a [|b r]].
      + apply add_log_shifted_ok.
      + apply add_log_shifted_ok.
      + cbv zeta.
        set (okd := (value_range 2 b 64 =? 2) || (value_range 2 b 64 =? 4) || (value_range 2 b 64 =? 8) || (value_range 2 b 64 =? 16)).
        change (s_lineno s') with (s_lineno s). change (s_ja s') with (s_ja s).
        match goal with |- context [add_log s ?m] => set (msg := m) end.
        set (s1 := if okd then s else add_log s msg).
        assert (E1 : (if okd then s' else add_log s' msg) = shift_state L n h s1)
          by (unfold s1; destruct okd; [reflexivity|apply add_log_shift]).
        rewrite E1.
        assert (I : s_cur s1 = s_cur s /\ s_tracks s1 = s_tracks s /\ s_harmony_flag s1 = s_harmony_flag s /\ s_harmony_time s1 = s_harmony_time s)
          by (unfold s1; destruct okd; [repeat split; reflexivity|destruct (add_log_inv s msg) as [I1 [I2 [I3 [I4 _]]]]; repeat split; assumption]).
        destruct I as [I1 [I2 [I3 I4]]].
        assert (Hc1 : cur_valid s1) by (unfold cur_valid; rewrite I1, I2; exact Hc).
        assert (Hct1 : cur_track s1 = cur_track s) by (unfold cur_track; rewrite I1, I2; reflexivity).
        set (dn := if okd then value_range 2 b 64 else 4).
        set (G := fun x : song => s_set_time x (s_tempo x) (value_range 2 a 64) dn (s_measure_shift x)).
        change (s_set_time (shift_state L n h s1) (s_tempo (shift_state L n h s1)) (value_range 2 a 64) dn (s_measure_shift (shift_state L n h s1)))
          with (shift_state L n h (G s1)).
        assert (Hc2 : cur_valid (G s1)) by exact Hc1.
        rewrite (cur_track_shift L n h (G s1) Hc2).
        change (cur_track (G s1)) with (cur_track s1). rewrite Hct1.
        cbn [shift_track tr_set_events tr_set_timepos tr_timepos].
        apply (shifted_upd_cur L n h (G s1)); try assumption;
          change (cur_track (G s1)) with (cur_track s1); rewrite ?Hct1; try assumption.
        * change (s_harmony_flag (G s1)) with (s_harmony_flag s1). change (s_harmony_time (G s1)) with (s_harmony_time s1).
          rewrite I3, I4. exact Hh.
        * change (cur_track (s_set_time s1 (s_tempo s1) (value_range 2 a 64) dn (s_measure_shift s1))) with (cur_track s1).
          rewrite Hct1. track_eq.
        * len_ok.
    - (* TMeasureShift *)
      apply (shifted_ok L n h (s_set_time s (s_tempo s) (s_timesig_frac s) (s_timesig_deno s) arg)); assumption.
    - (* TTempo *) unfold tempo_change. rewrite ct'. cbn [shift_track tr_set_events tr_set_timepos tr_timepos].
      set (tv := value_range 10 arg 300).
      set (G := fun x : song => s_set_time x tv (s_timesig_frac x) (s_timesig_deno x) (s_measure_shift x)).
      change (s_set_time s' tv (s_timesig_frac s') (s_timesig_deno s') (s_measure_shift s')) with (shift_state L n h (G s)).
      apply (shifted_upd_cur L n h (G s)); change (cur_track (G s)) with (cur_track s); try assumption; [track_eq|len_ok].
    - (* TVAdd *) apply (shifted_ok L n h (s_set_adds s arg (s_q_add s))); assumption.
    - (* TQAdd *) apply (shifted_ok L n h (s_set_adds s (s_v_add s) arg)); assumption.
    - (* TTieMode *) apply shifted_upd_cur; try assumption; [track_eq|len_ok].
    - (* TCC *) rewrite (upd_cur_remove_wave s no Hi), (upd_cur_remove_wave s' no idle').
      apply add_events_shift. reflexivity.
    - (* TPitchBend *) apply add_events_shift. reflexivity.
    - (* TRpnCmd *) apply add_events_shift. destruct nrpn; reflexivity.
    - (* TRpnDirect *) unfold exec_rpn_direct, runtime_error. change (s_lineno s') with (s_lineno s).
      destruct args as [|a [|b [|c [|d l]]]]; try apply add_log_shifted_ok.
      apply add_events_shift. destruct nrpn; reflexivity.
    - (* TMetaText *) destruct (_ && _); [|reflexivity]. apply add_events_shift. reflexivity.
    - (* TPort *) apply add_events_shift. reflexivity.
    - (* TTempoChange *) apply shifted_exec_tempo_change.
      split; [exact Hc|]. split; [exact Hn|]. split; [exact Ht|]. split; [exact Hi|]. exists h. split; [reflexivity|exact Hh].
    - (* TSysEx *) unfold exec_sysex, runtime_error. change (s_lineno s') with (s_lineno s).
      destruct args as [|a0 ar]; [apply add_log_shifted_ok|]. destruct (SYSEX_MAX <? _); [reflexivity|].
      apply add_events_shift. intros tp _. apply cmd_sysex_shift.
    - (* TSysexReset *) change (s_device s') with (s_device s). apply add_events_shift. intros tp _. apply cmd_sysex_reset_shift.
    - (* TSysExCommand *) apply add_events_shift. intros tp _. apply cmd_sysex_command_shift.
    - (* TGSEffect *) unfold exec_gs_effect. rewrite ct'. change (s_device s') with (s_device s).
      cbn [shift_track tr_set_events tr_set_timepos tr_timepos tr_channel]. rewrite cmd_gs_effect_shift.
      destruct (Cmd.cmd_gs_effect _ _ _ _ _) as [evs| | |]; cbn [map_res bind]; try reflexivity.
      apply add_events_shift_gen. reflexivity.
    - (* TDeviceNumber *) apply (shifted_ok L n h (s_set_device s (as_u8 (nth 0 args 0)))); assumption.
  Qed.
  End One.

  Theorem step_tok_shift : respects -> forall t r r', shiftable t = true -> shifted_res L n r r' ->
    shifted_res L n (step_tok ec t r) (step_tok ec t r').
  Proof.
    intros Hec t r r' Ht R. destruct r as [s| | |], r' as [s'| | |]; cbn [shifted_res] in R; try contradiction;
      cbn [step_tok bind shifted_res]; try exact R.
    destruct R as [Hc [Hn [Htie [Hi [h [-> Hh]]]]]]. apply step_shift; assumption.
  Qed.
End StepShift.

(* ------------------------------------------------------------------------------------------------ *)
(* 4. the loop machine run on two related states stays in step                                        *)

Section MachineSim.
  Context {D St : Type} (step : D -> St -> St) (halted : St -> bool) (cnt : Z -> St -> nat).
  Variable R : St -> St -> Prop.
  Variable P : D -> Prop.
  Hypothesis Hstep : forall d a b, P d -> R a b -> R (step d a) (step d b).
  Hypothesis Hhalt : forall a b, R a b -> halted a = halted b.
  Hypothesis Hcnt : forall k a b, R a b -> cnt k a = cnt k b.

  Definition cfg_rel (c c' : config St) : Prop := pos St c = pos St c' /\ stack St c = stack St c' /\ R (st St c) (st St c').
  Definition ocfg_rel (o o' : option (config St)) : Prop :=
    match o, o' with Some a, Some b => cfg_rel a b | None, None => True | _, _ => False end.

  Variable toks : list (ltok D).
  Hypothesis Htoks : forall i d, nth_error toks i = Some (LOther d) -> P d.

  Lemma mstep_sim c c' : cfg_rel c c' ->
    ocfg_rel (mstep D St step halted cnt toks c) (mstep D St step halted cnt toks c').
  Proof.
    destruct c as [p sk a], c' as [p' sk' b]. intros [E1 [E2 HR]]. cbn [pos stack st] in *. subst p' sk'.
    unfold mstep. cbn [pos stack st].
    destruct (nth_error toks p) as [t|] eqn:Et; [|exact I].
    rewrite <- (Hhalt a b HR). destruct (halted a); [exact I|].
    destruct t as [k| | |d].
    - cbn [ocfg_rel]. rewrite <- (Hcnt k a b HR). repeat split; assumption.
    - destruct sk as [|it rest]; [repeat split; assumption|].
      destruct (Nat.leb (count it) (Datatypes.S (index it))).
      + match goal with |- context [Nat.ltb 0 ?e] => destruct (Nat.ltb 0 e) end; repeat split; assumption.
      + repeat split; assumption.
    - destruct sk as [|it rest]; [repeat split; assumption|].
      match goal with |- context [Nat.ltb ?x ?y] => destruct (Nat.ltb x y) end; repeat split; assumption.
    - cbn [ocfg_rel]. repeat split. apply Hstep; [apply (Htoks p d Et)|exact HR].
  Qed.

  Lemma mrun_sim : forall fuel c c', cfg_rel c c' ->
    ocfg_rel (mrun D St step halted cnt fuel toks c) (mrun D St step halted cnt fuel toks c').
  Proof.
    induction fuel as [|f IH]; intros c c' H; [exact I|]. cbn [mrun].
    pose proof (mstep_sim c c' H) as M.
    destruct (mstep D St step halted cnt toks c) as [c1|], (mstep D St step halted cnt toks c') as [c1'|];
      cbn [ocfg_rel] in M; try contradiction.
    - apply IH. exact M.
    - exact H.
  Qed.

  Lemma run_sim fuel a b : R a b ->
    match run D St step halted cnt fuel toks a, run D St step halted cnt fuel toks b with
    | Some x, Some y => R x y
    | None, None => True
    | _, _ => False
    end.
  Proof.
    intros H. unfold run.
    pose proof (mrun_sim fuel (mkCfg St 0 [] a) (mkCfg St 0 [] b)) as M.
    destruct (mrun D St step halted cnt fuel toks (mkCfg St 0 [] a)) as [c|],
             (mrun D St step halted cnt fuel toks (mkCfg St 0 [] b)) as [c'|];
      cbn [ocfg_rel] in M.
    - apply M. repeat split. exact H.
    - apply M. repeat split. exact H.
    - apply M. repeat split. exact H.
    - exact I.
  Qed.
End MachineSim.

(* one command in front of a token list is one machine step (it is not a loop bracket, the run is not halted) *)
Section Prefix.
  Context {D St : Type} (step : D -> St -> St) (halted : St -> bool) (cnt : Z -> St -> nat).

  Definition up_item (it : loop_item) : loop_item :=
    mkItem (S (start_pos it)) (if Nat.eqb (end_pos it) 0 then 0 else S (end_pos it)) (index it) (count it).
  Definition up_cfg (c : config St) : config St := mkCfg St (S (pos St c)) (map up_item (stack St c)) (st St c).

  Lemma scan_end_up (r : list (ltok D)) : forall i depth,
    scan_end D r (S i) depth = if Nat.eqb (scan_end D r i depth) 0 then 0%nat else S (scan_end D r i depth).
  Proof.
    induction r as [|t r IH]; intros i depth; [reflexivity|]. cbn [scan_end].
    destruct t as [k| | |d]; try apply IH.
    destruct depth as [|dp]; [reflexivity|apply IH].
  Qed.

  Lemma mstep_up x toks c :
    mstep D St step halted cnt (x :: toks) (up_cfg c) = option_map up_cfg (mstep D St step halted cnt toks c).
  Proof.
    destruct c as [p sk a]. unfold mstep, up_cfg. cbn [pos stack st nth_error].
    destruct (nth_error toks p) as [t|]; [|reflexivity].
    destruct (halted a); [reflexivity|].
    destruct t as [k| | |d]; cbn [option_map].
    - reflexivity.
    - destruct sk as [|it rest]; [reflexivity|]. cbn [map up_item count index end_pos start_pos pos stack st].
      destruct (Nat.leb (count it) (S (index it))); [|reflexivity].
      cbn [skipn].
      destruct (Nat.eqb (end_pos it) 0) eqn:E0.
      + cbn [Nat.eqb]. rewrite scan_end_up.
        destruct (Nat.eqb (scan_end D (skipn p toks) p 0) 0) eqn:E1.
        * apply Nat.eqb_eq in E1. rewrite E1. reflexivity.
        * destruct (scan_end D (skipn p toks) p 0) as [|e]; [discriminate|]. reflexivity.
      + destruct (end_pos it) as [|e]; [discriminate|]. reflexivity.
    - destruct sk as [|it rest]; [reflexivity|]. cbn [map up_item count index end_pos start_pos pos stack st Nat.eqb].
      destruct (Nat.ltb (S (index it)) (count it)); reflexivity.
    - reflexivity.
  Qed.

  Lemma mrun_up x toks : forall fuel c,
    mrun D St step halted cnt fuel (x :: toks) (up_cfg c) = option_map up_cfg (mrun D St step halted cnt fuel toks c).
  Proof.
    induction fuel as [|f IH]; intros c; [reflexivity|]. cbn [mrun]. rewrite mstep_up.
    destruct (mstep D St step halted cnt toks c) as [c1|]; cbn [option_map]; [apply IH|reflexivity].
  Qed.

  Lemma run_prefix d toks fuel a : halted a = false ->
    run D St step halted cnt (S fuel) (LOther d :: toks) a = run D St step halted cnt fuel toks (step d a).
  Proof.
    intros H. unfold run. cbn [mrun mstep nth_error pos stack st]. rewrite H.
    change (mkCfg St 1 [] (step d a)) with (up_cfg (mkCfg St 0 [] (step d a))). rewrite mrun_up.
    destruct (mrun D St step halted cnt fuel toks (mkCfg St 0 [] (step d a))) as [c|]; reflexivity.
  Qed.
End Prefix.

(* ------------------------------------------------------------------------------------------------ *)
(* 5. the time-translation law of exec()                                                              *)

(* exec() of a token list with `ec` executing the children of Sub / tuplet blocks; exec_f (S d) steps = exec_with (exec_f d steps) steps *)
Definition exec_with (ec : list tok -> res song -> res song) (fuel : nat) (toks : list tok) (r : res song) : res song :=
  match run tok (res song) (step_tok ec) halted count_of fuel (map to_ltok toks) r with
  | Some r' => r'
  | None => OutOfFuel
  end.

Lemma exec_f_with d steps toks r : exec_f (S d) steps toks r = exec_with (exec_f d steps) steps toks r.
Proof. reflexivity. Qed.

Lemma shiftable_other X i t : forallb shiftable X = true -> nth_error (map to_ltok X) i = Some (LOther t) -> shiftable t = true.
Proof.
  intros HX E. rewrite nth_error_map in E. destruct (nth_error X i) as [t0|] eqn:E0; [|discriminate].
  cbn [option_map] in E. rewrite forallb_forall in HX. specialize (HX t0 (nth_error_In _ _ E0)).
  destruct t0; cbn [to_ltok] in E; try discriminate; injection E as <-; exact HX.
Qed.

Lemma halted_shifted L n r r' : shifted_res L n r r' -> halted r = halted r'.
Proof.
  destruct r as [s| | |], r' as [s'| | |]; cbn [shifted_res]; try contradiction; try reflexivity.
  intros [_ [_ [_ [_ [h [-> _]]]]]]. reflexivity.
Qed.

Theorem exec_with_shift L n ec fuel : respects L n ec -> respects L n (exec_with ec fuel).
Proof.
  intros Hec X r r' HX HR. unfold exec_with.
  pose proof (run_sim (step_tok ec) halted count_of (shifted_res L n) (fun t => shiftable t = true)
                (fun d a b Pd Rab => step_tok_shift L n ec Hec d a b Pd Rab)
                (halted_shifted L n) (fun k a b _ => eq_refl)
                (map to_ltok X) (fun i d => shiftable_other X i d HX) fuel r r' HR) as M.
  destruct (run tok (res song) (step_tok ec) halted count_of fuel (map to_ltok X) r) as [x|],
           (run tok (res song) (step_tok ec) halted count_of fuel (map to_ltok X) r') as [y|];
    try contradiction; [exact M|exact I].
Qed.

Theorem exec_f_shift L n steps : forall d, respects L n (exec_f d steps).
Proof.
  induction d as [|d IH]; intros X r r' HX HR; [exact I|].
  rewrite !exec_f_with. apply exec_with_shift; assumption.
Qed.

(* a rest is the shift of the pointer *)
Theorem rest_is_shift ec s len :
  step_song ec (TRest 1 len) s = Ok (shift_song (calc_length len (s_timebase s) (tr_length (cur_track s))) s).
Proof.
  cbn [step_song]. unfold exec_rest, shift_song, upd_cur. do 2 f_equal.
  destruct (Nat.lt_ge_cases (s_cur s) (length (s_tracks s))) as [H|H].
  - apply (t_upd_nth_at _ _ (track_new 0 0)). fold (cur_track s). rewrite Z.mul_1_r. reflexivity.
  - clear -H. revert H. generalize (s_cur s). induction (s_tracks s) as [|x l IH]; intros [|k] H; cbn [upd_nth length] in *; try reflexivity; try lia.
    f_equal. apply IH. lia.
Qed.

(* the start of a run: nothing pending *)
Definition calm (s : song) : Prop :=
  cur_valid s /\ tr_tie_notes (cur_track s) = [] /\ s_harmony_flag s = false /\ s_harmony_events s = [] /\
  tr_rsv (cur_track s) = rsv_new.       (* nothing reserved on the track *)

Lemma shifted_start L s : calm s -> shifted L (length (tr_events (cur_track s))) s (shift_song L s).
Proof.
  intros [Hc [Ht [Hf [He Hi]]]]. split; [exact Hc|]. split; [lia|]. split; [exact Ht|]. split; [exact Hi|].
  exists (s_harmony_time s). split; [apply shift_song_is_shift_state; assumption|]. rewrite Hf. discriminate.
Qed.

(* what `shifted` says, field by field *)
Theorem shifted_unpack L n s s' : shifted L n s s' ->
  tr_timepos (cur_track s') = tr_timepos (cur_track s) + L /\
  tr_events (cur_track s') = firstn n (tr_events (cur_track s)) ++ map (shift_ev L) (skipn n (tr_events (cur_track s))) /\
  tr_set_events (tr_set_timepos (cur_track s') 0) [] = tr_set_events (tr_set_timepos (cur_track s) 0) [] /\
  length (s_tracks s') = length (s_tracks s) /\
  (forall i, i <> s_cur s -> nth i (s_tracks s') (track_new 0 0) = nth i (s_tracks s) (track_new 0 0)) /\
  s_set_harmony_events (s_set_harmony_time (s_set_tracks s' []) 0) [] = s_set_harmony_events (s_set_harmony_time (s_set_tracks s []) 0) [] /\
  s_harmony_events s' = map (shift_ev L) (s_harmony_events s) /\
  (s_harmony_flag s = true -> s_harmony_time s' = s_harmony_time s + L).
Proof.
  intros [Hc [Hn [Ht [Hi [h [-> Hh]]]]]]. rewrite cur_track_shift by exact Hc.
  repeat split; try reflexivity.
  - unfold shift_state, upd_cur. cbn [s_tracks s_set_tracks s_set_harmony_time s_set_harmony_events]. apply t_upd_nth_length.
  - intros i Hne. unfold shift_state, upd_cur. cbn [s_tracks s_set_tracks s_set_harmony_time s_set_harmony_events].
    apply t_nth_upd_nth_neq. exact Hne.
  - exact Hh.
Qed.

(* THE LAW.  p: tokens of the fragment (loops, Sub and tuplet blocks included); s: a state with nothing pending.
   Running p from the state moved by L gives the run from s, moved by L - errors included. *)
Theorem shift_law ec fuel p s L : respects L (length (tr_events (cur_track s))) ec ->
  forallb shiftable p = true -> calm s ->
  shifted_res L (length (tr_events (cur_track s))) (exec_with ec fuel p (Ok s)) (exec_with ec fuel p (Ok (shift_song L s))).
Proof.
  intros Hec Hp Hs. apply exec_with_shift; [exact Hec|exact Hp|]. cbn [shifted_res]. apply shifted_start. exact Hs.
Qed.

(* ... and a rest of length L written in front of p is that move (one more unit of loop fuel for the extra token) *)
Theorem rest_shift ec fuel p s len :
  let L := calc_length len (s_timebase s) (tr_length (cur_track s)) in
  respects L (length (tr_events (cur_track s))) ec -> forallb shiftable p = true -> calm s -> s_break_flag s = 0 ->
  shifted_res L (length (tr_events (cur_track s))) (exec_with ec fuel p (Ok s)) (exec_with ec (S fuel) (TRest 1 len :: p) (Ok s)).
Proof.
  intros L Hec Hp Hs Hb.
  replace (exec_with ec (S fuel) (TRest 1 len :: p) (Ok s)) with (exec_with ec fuel p (Ok (shift_song L s))).
  - apply shift_law; assumption.
  - unfold exec_with. cbn [map to_ltok]. rewrite run_prefix by (cbn [halted]; rewrite Hb; reflexivity).
    cbn [step_tok bind]. rewrite rest_is_shift. reflexivity.
Qed.

(* the same for a loop-free list executed as a fold of the arms *)
Theorem run_toks_shift L n ec p : respects L n ec -> forallb shiftable p = true ->
  forall r r', shifted_res L n r r' -> shifted_res L n (run_toks ec p r) (run_toks ec p r').
Proof.
  intros Hec. induction p as [|t p IH]; intros Hp r r' HR; [exact HR|].
  cbn [forallb] in Hp. apply andb_prop in Hp. destruct Hp as [Ht Hp].
  change (run_toks ec (t :: p) r) with (run_toks ec p (step_tok ec t r)).
  change (run_toks ec (t :: p) r') with (run_toks ec p (step_tok ec t r')).
  apply IH; [exact Hp|]. apply step_tok_shift; assumption.
Qed.

Theorem rest_shift_fold ec p s len :
  let L := calc_length len (s_timebase s) (tr_length (cur_track s)) in
  respects L (length (tr_events (cur_track s))) ec -> forallb shiftable p = true -> calm s ->
  shifted_res L (length (tr_events (cur_track s))) (run_toks ec p (Ok s)) (run_toks ec (TRest 1 len :: p) (Ok s)).
Proof.
  intros L Hec Hp Hs. rewrite run_toks_cons, rest_is_shift.
  apply run_toks_shift; [exact Hec|exact Hp|]. cbn [shifted_res]. apply shifted_start. exact Hs.
Qed.
