"""Development tool: run sources (arguments, or lines of stdin) through compile_core and compile_lex."""
import os, sys, tempfile
sys.path.insert(0, os.path.dirname(os.path.abspath(__file__)))
import vlib
srcs = sys.argv[1:] or [l.rstrip("\n") for l in sys.stdin]
srcs = [s.encode().decode("unicode_escape") if "\\n" in s else s for s in srcs]
rundir = tempfile.mkdtemp(prefix="one_core_")
impl = vlib.run_cases(vlib.harness_bin(), ["compile_lex\t" + vlib.enc_text(s) for s in srcs], rundir, "impl")
model = vlib.run_cases(os.path.join(vlib.OCAML, "core_driver.bin"), ["compile_core\t" + vlib.enc_text(s) for s in srcs], rundir, "model", stall=60.0)
for s, i, m in zip(srcs, impl, model):
    print("==", repr(s))
    print("  ", "EQUAL" if i == m else "DIFFERENT" if not m.startswith("UNSUPPORTED") else "unsupported")
    def show(x):
        p = x.split("\t")
        return p[0] + ("  LOG: " + repr(vlib.dec_text(p[1])) if len(p) > 1 else "")
    print("   impl :", show(i)[:1500])
    print("   model:", show(m)[:1500])
