"""Regenerate the non-recursive copy ARMG of one iteration of the lexer loop inside proofs/LocalityP.v from the LOOPG copy of
proofs/LayoutP.v: `LOOPG n'` becomes the continuation `k`, every terminal answer goes through `ret`."""
import os, re, sys
root = sys.argv[1] if len(sys.argv) > 1 else os.path.dirname(os.path.dirname(os.path.abspath(__file__)))
target = sys.argv[2] if len(sys.argv) > 2 else os.path.join(root, "coq/proofs/LocalityP.v")
lay = open(os.path.join(root, "coq/proofs/LayoutP.v"), encoding="utf-8").read().split("\n")
b = next(i for i, l in enumerate(lay) if l.startswith("(* ---- BEGIN copy of the inner loop of lex_f"))
e = next(i for i, l in enumerate(lay) if l.startswith("(* ---- END copy"))
body = lay[b + 1:e]
# drop `match n with | O => OutOfFuel | S n' =>` and the closing `end`
assert body[0].strip() == "match n with" and body[1].strip() == "| O => OutOfFuel" and body[2].strip() == "| S n' =>"
assert body[-1].strip() == "end"
body = body[3:-1]
out = []
for l in body:
    l = l.replace("LOOPG n'", "k")
    l = l.replace(": res lex_out :=", ": R :=")
    l = re.sub(r"\bOk \(acc, ls\)", "ret (Ok (acc, ls))", l)
    l = re.sub(r"(=> |else )Unsupported (U_\w+)", r"\1ret (Unsupported \2)", l)
    out.append(l)
txt = open(target, encoding="utf-8").read().split("\n")
b2 = next(i for i, l in enumerate(txt) if l.startswith("(* ---- BEGIN generated copy of one iteration"))
e2 = next(i for i, l in enumerate(txt) if l.startswith("(* ---- END generated copy"))
txt[b2 + 1:e2] = out
open(target, "w", encoding="utf-8").write("\n".join(txt))
print("ARMG regenerated:", len(out), "lines")
