"""Regenerate the verbatim copy of the inner loop of slex_f (model/Script.v) inside proofs/LangScriptP.v (SLOOPG): the body of
the inner `fix loop`, with `loop` renamed to SLOOPG and the recursive sub-lexing `slex_f f` abstracted as the section variable
`sublex` (the same scheme as tools/regen_loopg.py for the core lexer).  `slex_f_unfold` proves by conversion that slex_f (S f)
IS this loop, so a change of the model that is not mirrored here breaks that proof."""
import os
root = os.path.dirname(os.path.dirname(os.path.abspath(__file__)))
lex = open(os.path.join(root, "coq/model/Script.v"), encoding="utf-8").read().split("\n")
i0 = next(i for i, l in enumerate(lex) if l.startswith("    (fix loop (n : nat) (ls : slex)"))
i1 = next(i for i, l in enumerate(lex) if l.startswith("       end) (S (length src)) (lex_preprocess"))
body = lex[i0 + 1:i1] + ["       end"]
body = [l.replace("slex_f f", "sublex").replace("loop n'", "SLOOPG n'") for l in body]
p = os.path.join(root, "coq/proofs/LangScriptP.v")
lay = open(p, encoding="utf-8").read().split("\n")
b = next(i for i, l in enumerate(lay) if l.startswith("(* ---- BEGIN copy of the inner loop of slex_f"))
e = next(i for i, l in enumerate(lay) if l.startswith("(* ---- END copy"))
lay[b + 1:e] = body
open(p, "w", encoding="utf-8").write("\n".join(lay))
print("SLOOPG regenerated:", len(body), "lines")
