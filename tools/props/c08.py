"""C08 - the output depends only on the source: deterministic, configuration- and entry-point-free.
PARTIAL by nature (see props/C08.v): fresh processes, hash seeding, earlier compilations in the process and the
command-line tool are runtime facts. Theorems (props/C08.v): table lookups are independent of the insertion
order, the numbering taken from a HashMap's iteration order is never read, the random numbers are the xorshift
orbit of the seed, and a syntactic census of /repo/src (who writes the seed, who reads a clock, global state).
Oracle (on the IMPLEMENTATION, all equalities between runs of the same source): bytes and log identical across
two calls in one process, after unrelated earlier compilations, three separately spawned process sets (fresh
HashMap seeds), the three library entry points, debug 0/1, language en/ja (bytes; logs up to the catalogue's
wording), and - for sources using no randomness - the file written by the real command-line binary.
Correspondence: the Gallina pipeline (a pure function of the source) vs lex/exec/generate, run in two separate
process sets; and the LANGUAGE stream: the pipeline models run with the message language ja (Compile.compile_lang true,
Script.compile_script_lang true - the language is a field of the model state, props/C08.v proves that it reaches the
log text only) vs lex/exec/generate on a song whose language was set to ja (`compile_lex_ja`): bytes AND log text equal,
on sources that make every kind of log entry."""
import concurrent.futures, json, os, re, shutil, subprocess, unicodedata
import vlib, mmlgen

COQ_TARGET = "props/C08.v"
THEOREMS = ["C08_lookup_order_independent", "C08_lookup_spec", "C08_table_names_distinct", "C08_system_functions_order_free",
            "C08_iteration_order", "C08_reserved_is_membership", "C08_random_seeded", "C08_seed_orbit", "C08_draw_consumes",
            "C08_write_sites", "C08_text_relation", "C08_language_lexer", "C08_language_noninterference", "C08_language_only_in_log",
            "C08_language_script_noninterference", "C08_language_script_only_in_log"]
DRIVERS = ["core", "script"]
RULE = ("sources: core-language programs, junk token soup, Japanese (sutoton) programs, /repo/samples and their mutations, "
        "programs using randomness (x.Random, Random(), RandomSelect, RandomSeed, RndTiming, sutoton '曖昧さ'), the corpus. "
        "Each source is compiled ~13 times: compile() in three separately spawned process sets (the third in reverse order), "
        "debug 1, compile_to_midi debug 0/1, a fresh SakuraCompiler with (debug,lang) = (0,en) (1,ja) (0,ja), twice in one "
        "process through two entry points, after an unrelated earlier compilation drawn from a pool of state-heavy programs, "
        "and by the real CLI binary (plain and --debug) when the source uses no randomness. A source 'uses randomness' when "
        "its sutoton-converted, NFKC-normalised text contains 'random' or 'rnd' in any case (a textual over-approximation); "
        "for those the CLI file is not compared because the tool reseeds from the clock. "
        "non-trivial = distinct source of >= 3 characters whose MIDI file has at least one event besides end-of-track")
TRUSTED = ["process spawning gives a fresh std RandomState per process (observed, not controlled: the hash seed cannot be set from outside)",
           "tools/gen_tables.py gen_write_sites(): a regex census of /repo/src/*.rs (comments and #[cfg(test)] tails removed)",
           "the message catalogue src/sakura_message.rs, parsed by regex, defines what 'wording' is when en/ja logs are compared"]
ASSUMES = [
           "sources on which the first compile() hangs, aborts the process or exceeds the watchdog are excluded here (C07 decides them)",
           "en/ja logs are compared only when neither reaches the SAKURA_MAX_LOGS_CHARS cut (the cut position depends on the wording's length)"]

RANDOM_SOURCES = [
    "v.Random=10 cdefg", "PRINT(Random(100))", "RandomSeed(7) v.Random=10 cdefg PRINT(Random(100))",
    "RandomSeed(7) PRINT(Random(100)) RandomSeed(7) PRINT(Random(100))", "t.Random=6 q.Random=20 o.Random=2 l8 cdefgab",
    "PRINT(RandomSelect(1,2,3,4,5))", "PRINT(Random(3,9)) PRINT(Random())", "PRINT(RND(50)) PRINT(Rnd(50)) PRINT(RANDOM(50)) PRINT(RandomInt(50))",
    "RANDOM_SEED(99) n(Random(40,80)),8 n(Random(40,80)),8", "RndTiming(5) cdefg", "音量曖昧さ30 ドレミソ", "TR(1) v.Random=9 c TR(2) v.Random=9 c TR(1) c TR(2) c",
    "FOR(INT I=0;I<4;I++){ n(60+Random(12)),16 }", "INT A=Random(1000) PRINT(A) PRINT(A)", "v.Random=0 cde", "v.Random=-5 cde", "RandomSeed(0) PRINT(Random(10)) v.Random=8 c",
    "RandomSeed(4294967295) PRINT(Random(10))", "RandomSeed(-1) PRINT(Random(10))", "[3 v.Random=12 c PRINT(Random(5))]",
]
RANDOM_FRAGS = ["v.Random=10 ", "t.Random=4 ", "q.Random=15 ", "o.Random=1 ", "PRINT(Random(100)) ", "RandomSeed(7) ", "RandomSeed(123456) ",
                "n(Random(50,70)),8 ", "PRINT(RandomSelect(1,2,3)) ", "RndTiming(3) "]
# programs that leave as much state behind as the language allows (compiled BEFORE the source under test)
OTHERS = [
    "TimeBase(48) TR(3) CH(5) o6 l8 v90 q50 t5 cde",
    "RandomSeed(12345) v.Random=20 t.Random=5 q.Random=9 cdefgab PRINT(Random(1000))",
    "INT A=5 STR S={cde} #M={efg} FUNCTION F(X){ RETURN(X+1) } PRINT(F(A)) S #M Rhythm{b4h4s4} $b{n36,}",
    "~{ぴ}={c} ぴぴぴ 音階5 音符8 ドレミ",
    "KeyFlag+(c,f) Key(3) TrackKey(2) System.vAdd(20) (cde) Tempo(200) TimeSignature(3,4)",
    "@@@ ) ] } ' : unknownCommandXYZ( ?? !! %% ~ ` ^",
    "TR(10) [4 c [2 d : e] f] Sub{ g } v.onNote(1,2,3) M.onTime(0,127,!1) PB.onTime(0,100,!2) c1 c&c&c",
    "PlayFrom(2:1:0) l4 cdefgab>c cdefgab>c cdefgab>c",
    "v.onCycle(10,20,30) l.onNote(48,24) q.onNote(10,50) M.onNote(1,2) cdefg v.Random=99 c",
]
BAD = ("HANG", "ABORT", "MISSING")

# ------------------------------------------------------------------------------------------------
# the language stream: sources that write every kind of log entry (message kinds of sakura_message.rs in brackets)
# ------------------------------------------------------------------------------------------------
LANG_SOURCES = [
    # unknown characters [UnknownChar, Near], the cap of lex_error [TooManyErrorsInLexer], the cap of the log itself
    "c!de", "c ~ d % e", "cde !", "!" * 29 + " c", "!" * 30 + " c", "!" * 31 + " c", "!" * 40 + " c Foo", "c\n!\n~\n%\nd", "/ c", "c / d",
    # unknown words [ScriptSyntaxError, Near]
    "Foo c", "cde Unknown1 Bar2 e", "#X c", "Foo\nBar\n c", "Foo " * 120 + "c", "Foo " * 28 + "! ! ! ! ! c", "! " * 28 + "Foo Foo Foo ! c",
    # missing parenthesis [MissingParenthesis]
    "TR(1 c", "@(3 c", "Tempo(120 c", "#A={cde} #A(1 c", "TIME(1:1:0 c", "KeyShift(2 c", "Voice(3,1 c", "PRINT(1", "PRINT(1+2 c",
    # wrong argument counts / runtime errors [RuntimeError, ErrorWrongArguments]
    "SysEx= c", "SysEx=1,2 c RPN(1) TimeSignature(3,7) !", "TimeSignature(3) c", "TimeSignature(3,5) c", "RPN(1,2) c", "NRPN(1) c",
    "TIME(1:2) c", "c\n\nSysEx= d\nRPN(1,2)", "[3 SysEx= c]", "Sub{ SysEx= c } d", "#M={RPN(1)} #M #M c",
    # reserved names [ErrorDefineVariableIsReserved], redefinition [ScriptSyntaxWarning, ErrorRedfineFnuction]
    "Str Tempo={c} c", "Str TR c", "Str c", "Str 1 c", "FUNCTION TR(){ c } c", "FUNCTION Tempo(A){ c } Foo",
    "FUNCTION F(){ c } FUNCTION F(){ d } F()", "FUNCTION F(){ c } FUNCTION F(){ d } FUNCTION F(){ e } F() !",
    # type mismatch [ErrorTypeMismatch], loop limit [LoopTooManyTimes], PRINT
    "INT A=(1,2,3) PRINT(A)", "Int B=(1,2) Foo PRINT(B) !", "WHILE(1){ c16 }", "FOR(INT I=0;1;I++){ r16 }", "INT X=0 WHILE(1){ X++ } PRINT(X)",
    "WHILE(1){ r32 } WHILE(1){ r32 } !", "PRINT(1) c", "INT A=1 PRINT(A)", "PRINT({abc}) PRINT(1+2*3) c", "Int A = MID({abc},1) PRINT(A)", "PRINT(SizeOf(1,2))",
    "FOR(INT I=0;I<120;I++){ PRINT(I) } c", "FOR(INT I=0;I<99;I++){ PRINT(I) } ! Foo TR(1",
    # "not supported" warnings and other texts without a message of the catalogue
    "M.onCycle(1,2) c", "M.Sine(1,2,3) c", "M.onNoteWaveEx(1,2) c", "PT.onNoteSine(1,2) c", "c $ d", "$1{c} d", "$", "#U c #U", "Str A c A",
    # nothing logged; a macro / PLAY part that logs at run time (lexed then, in the language of the song)
    "cde", "l8 [4 cde] TR(2) v100 o4 'ceg'", "#A={c ! d} #A #A", "#A={Foo} [3 #A] c", "PLAY({c ! d},{e Foo}) g", "PLAY({TR(1 c},{SysEx= d})",
    "#A={TimeSignature(3,5)} c #A d #A", "Sub{ ! } Foo {c ! d}4 Rhythm{b ! s}",
]
LANG_FRAGS = ["! ", "~ ", "Foo ", "Bar1 ", "#Q ", "TR(1 ", "@(2 ", "SysEx= ", "RPN(1) ", "TimeSignature(3,5) ", "TimeSignature(1) ", "TIME(1:2) ", "Str Tempo ",
              "Str KeyShift={c} ", "M.onCycle(1) ", "M.Sine(1) ", "$ ", "$2{c} ", "#A={c ! } #A ", "PLAY({Foo c}) ", "\n", "\n", "// x\n", "/* a\nb */ ", "c ", "d4 ", "l8 ", "[2 e ] ", "'ce' "]
LANG_SCRIPT_FRAGS = ["PRINT(1) ", "PRINT({a}) ", "INT A=(1,2) ", "INT B=2 PRINT(B) ", "WHILE(1){ r32 } ", "FOR(INT I=0;1;I++){ } ", "FUNCTION F(){ c } ", "FUNCTION F(){ d } ",
                     "FUNCTION TR(){ } ", "PRINT(1 ", "! ", "Foo ", "c ", "\n", "IF(1){ ! }ELSE{ Foo } ", "FOR(INT J=0;J<3;J++){ PRINT(J) ! } "]


# ------------------------------------------------------------------------------------------------
# the command-line binary, built from /repo's working tree into /verif/.cache (never into /repo/target)
# ------------------------------------------------------------------------------------------------
def build_cli(ctx):
    target = os.path.join(vlib.CACHE, "cli_target")
    binp = os.path.join(target, "debug", "sakuramml")
    key = vlib.tree_hash([os.path.join(vlib.REPO, "src"), os.path.join(vlib.REPO, "Cargo.toml"),
                          os.path.join(vlib.REPO, "build.rs"), os.path.join(vlib.REPO, "Cargo.lock")])
    local = os.path.join(ctx.rundir, "sakuramml_cli")
    with vlib.Lock():
        if not (vlib.stamp_ok("cli", key) and os.path.exists(binp)):
            rc, out = vlib.sh(["cargo", "build", "--offline", "--manifest-path", os.path.join(vlib.REPO, "Cargo.toml"),
                               "--target-dir", target, "--bin", "sakuramml"], timeout=1500)
            if rc != 0:
                ctx.fatal("the command-line binary of /repo does not build (nothing can be decided):\n" + out[-3000:])
            vlib.stamp_set("cli", key)
        shutil.copy2(binp, local)          # a private copy: a concurrent check may rebuild the cached one
    return local


def run_cli(binp, workdir, jobs):
    """jobs: (name, source, debug) -> {name: (returncode | 'HANG', file bytes as hex | None, stdout text)};
    every job is one fresh process of the real binary: `sakuramml <name>.mml <name>.mid [--debug]`"""
    os.makedirs(workdir, exist_ok=True)

    def one(job):
        name, src, debug = job
        mml, mid = name + ".mml", name + ".mid"
        with open(os.path.join(workdir, mml), "w", encoding="utf-8", newline="") as f:
            f.write(src)
        try:
            os.remove(os.path.join(workdir, mid))
        except OSError:
            pass
        if len(src) % 2 == 0:
            # half of the jobs write onto a path that already holds a LONGER file (an earlier, longer piece): what is left on the
            # file system afterwards must still be exactly the bytes of this source
            with open(os.path.join(workdir, mid), "wb") as f:
                f.write(b"MThd" + bytes([0xAA]) * 100000)
        try:
            p = subprocess.run([binp, mml, mid] + (["--debug"] if debug else []), cwd=workdir, stdout=subprocess.PIPE,
                               stderr=subprocess.DEVNULL, timeout=30)
            rc, out = p.returncode, p.stdout.decode("utf-8", "replace")
        except subprocess.TimeoutExpired:
            rc, out = "HANG", ""
        data = None
        if os.path.exists(os.path.join(workdir, mid)):
            data = open(os.path.join(workdir, mid), "rb").read().hex() or "-"
        return name, (rc, data, out)

    with concurrent.futures.ThreadPoolExecutor(max_workers=vlib.NPROC) as ex:
        return dict(ex.map(one, jobs))


# ------------------------------------------------------------------------------------------------
# helpers
# ------------------------------------------------------------------------------------------------
def catalogue():
    text = open(os.path.join(vlib.REPO, "src", "sakura_message.rs"), encoding="utf-8").read()
    pairs = re.findall(r'MessageLang::EN => "((?:[^"\\]|\\.)*)",\s*MessageLang::JA => "((?:[^"\\]|\\.)*)"', text)
    return sorted(pairs, key=lambda p: -len(p[1]))


def max_log_chars():
    m = re.search(r"SAKURA_MAX_LOGS_CHARS : Z := (\d+)", open(os.path.join(vlib.COQ, "gen", "Consts.v")).read())
    return int(m.group(1)) if m else 4096


def prefixes(log):
    """message wording erased: the number of lines and the `[KIND](line)` prefix of every line that has one"""
    lines = log.split("\n")
    return len(lines), [m.group(0) for m in (re.match(r"^\[\w+\]\(-?\d+\)", l) for l in lines) if m]


def uses_random(converted):
    return re.search(r"random|rnd", unicodedata.normalize("NFKC", converted), re.I) is not None


def split2(r):
    f = r.split("\t")
    return (f[0], f[1]) if len(f) == 2 else (None, None)


def nontrivial(src, ref):
    hx = ref.split("\t")[0]
    return len(src) >= 3 and len(hx) > 52 and ref != "PANIC"


# ------------------------------------------------------------------------------------------------
# the oracle for a list of sources; returns {index: [(what, case, observed, expected)]}
# ------------------------------------------------------------------------------------------------
def evaluate(ctx, srcs, others, cli, count=True, stall=10.0):
    n = len(srcs)
    fails = {i: [] for i in range(n)}
    info = {"excluded": set(), "random": set(), "ref": {}}
    if n == 0:
        return fails, info
    enc = [vlib.enc_text(s) for s in srcs]
    L0 = ["entry_compile\t%s\t0" % e for e in enc]
    p1 = ctx.impl(L0, stall=min(stall, 6.0))
    if any(r.startswith("UNKNOWN-KIND") for r in p1):
        ctx.fatal("the harness does not know the C08 case kinds (stale build?)")
    live = [i for i in range(n) if p1[i] not in BAD]
    info["excluded"] = set(range(n)) - set(live)

    def batch(fmt, idx=None, order=None):
        idx = live if idx is None else idx
        order = list(idx) if order is None else order
        got = ctx.impl([fmt(i) for i in order], stall=stall)
        return dict(zip(order, got))

    p2 = batch(lambda i: L0[i])
    # the same compilations in processes whose ENVIRONMENT differs (locale, time zone, home, build / debug variables)
    vlib.EXTRA_ENV = OTHER_ENV
    try:
        pe = batch(lambda i: L0[i])
    finally:
        vlib.EXTRA_ENV = None
    p3 = batch(lambda i: L0[i], order=list(reversed(live)))
    d1 = batch(lambda i: "entry_compile\t%s\t1" % enc[i])
    m0 = batch(lambda i: "entry_to_midi\t%s\t0" % enc[i])
    m1 = batch(lambda i: "entry_to_midi\t%s\t1" % enc[i])
    en, ja = vlib.enc_text("en"), vlib.enc_text("ja")
    o_en0 = batch(lambda i: "entry_object\t%s\t0\t%s" % (enc[i], en))
    o_ja1 = batch(lambda i: "entry_object\t%s\t1\t%s" % (enc[i], ja))
    o_ja0 = batch(lambda i: "entry_object\t%s\t0\t%s" % (enc[i], ja))
    tw = batch(lambda i: "entry_twice\t%s\t0" % enc[i])
    af = batch(lambda i: "entry_after\t%s\t%s" % (vlib.enc_text(others[i]), enc[i]))
    ot = batch(lambda i: "entry_object_twice\t%s" % enc[i])
    conv = batch(lambda i: "convert\t%s" % enc[i])
    cat = catalogue()
    cut = max_log_chars()

    def bad(i, what, case, observed, expected):
        fails[i].append((what, case, str(observed)[:600], str(expected)[:600]))

    def same(i, what, case, got, want):
        if count:
            ctx.count(what.split(":")[0], None)
        if got in BAD or want in BAD:
            ctx.dist["watchdog_in_later_run"] = ctx.dist.get("watchdog_in_later_run", 0) + 1
            return
        if got != want:
            bad(i, what, case, got, want)

    for i in live:
        same(i, "environment: compile() in a process with other environment variables differs", L0[i], pe[i], p1[i])
    for i in live:
        s, ref = srcs[i], p1[i]
        info["ref"][i] = ref
        rb, rl = (ref, None) if ref == "PANIC" else split2(ref)
        if count:
            ctx.count("sources", s if nontrivial(s, ref) else None)
        same(i, "fresh process: compile() differs between two separately spawned processes", L0[i], p2[i], ref)
        same(i, "fresh process: compile() differs in a third process (sources compiled in reverse order)", L0[i], p3[i], ref)
        same(i, "debug level: compile(src,1) differs from compile(src,0)", "entry_compile\t%s\t1" % enc[i], d1[i], ref)
        same(i, "earlier compilation: compile(src) after compiling another program differs", "entry_after\t%s\t%s" % (vlib.enc_text(others[i]), enc[i]), af[i], ref)
        if ref == "PANIC":
            for nm, g in (("compile_to_midi 0", m0[i]), ("compile_to_midi 1", m1[i]), ("SakuraCompiler en", o_en0[i]), ("SakuraCompiler ja", o_ja0[i]),
                          ("SakuraCompiler ja debug", o_ja1[i]), ("twice", tw[i])):
                same(i, "entry point: %s does not panic where compile() does" % nm, L0[i], g, "PANIC")
            continue
        same(i, "entry point: compile_to_midi bytes differ from compile()", "entry_to_midi\t%s\t0" % enc[i], m0[i].split("\t")[0], rb)
        same(i, "entry point: compile_to_midi(src,1) bytes differ from compile()", "entry_to_midi\t%s\t1" % enc[i], m1[i].split("\t")[0], rb)
        same(i, "entry point: fresh SakuraCompiler (debug 0, en) differs from compile()", "entry_object\t%s\t0\t%s" % (enc[i], en), o_en0[i], ref)
        t = tw[i].split("\t")
        if tw[i] in BAD or tw[i] == "PANIC" or len(t) != 8:
            same(i, "same process: compiling twice does not return four results", "entry_twice\t%s\t0" % enc[i], tw[i], "four results equal to compile()")
        else:
            for k, nm in enumerate(("first compile()", "second compile()", "first fresh SakuraCompiler", "second fresh SakuraCompiler")):
                same(i, "same process: %s of entry_twice differs from compile() in another process" % nm, "entry_twice\t%s\t0" % enc[i],
                     t[2 * k] + "\t" + t[2 * k + 1], ref)
        # the SAME SakuraCompiler object used twice: both results equal compile() (repaired: "fix: a second SakuraCompiler::compile() ...")
        t2 = ot[i].split("\t")
        if ot[i] in BAD or ot[i] == "PANIC" or len(t2) != 4:
            same(i, "same object: compiling twice on one SakuraCompiler does not return two results", "entry_object_twice\t%s" % enc[i], ot[i], "two results equal to compile()")
        else:
            for k, nm in enumerate(("first", "second")):
                same(i, "same object: %s compile() on one SakuraCompiler differs from compile()" % nm, "entry_object_twice\t%s" % enc[i],
                     t2[2 * k] + "\t" + t2[2 * k + 1], ref)
        # language: bytes equal; logs equal up to the catalogue's wording
        for nm, g in (("debug 0", o_ja0[i]), ("debug 1", o_ja1[i])):
            case = "entry_object\t%s\t%s\t%s" % (enc[i], nm[-1], ja)
            if g in BAD:
                continue
            gb, gl = split2(g) if g != "PANIC" else ("PANIC", None)
            same(i, "language: bytes with language ja (%s) differ from compile()" % nm, case, gb, rb)
            if gl is None:
                continue
            le, lj = vlib.dec_text(rl), vlib.dec_text(gl)
            if count:
                ctx.count("language: log", None)
            if len(le) >= cut or len(lj) >= cut:
                ctx.dist["lang_log_compare_skipped_cut"] = ctx.dist.get("lang_log_compare_skipped_cut", 0) + 1
                continue
            if prefixes(le) != prefixes(lj):
                bad(i, "language: en and ja logs differ in more than wording (line count / [KIND](line) prefixes)", case, prefixes(lj), prefixes(le))
            elif not any(j in s for _, j in cat):
                tr = lj
                for e_, j_ in cat:
                    tr = tr.replace(j_, e_)
                if tr != le:
                    bad(i, "language: the ja log is not the en log with the catalogue's wording replaced", case, lj, le)
        same(i, "debug level: the ja log of a fresh SakuraCompiler differs between debug 0 and 1", "entry_object\t%s\t1\t%s" % (enc[i], ja), o_ja1[i], o_ja0[i])
        cv = conv.get(i, "-")
        if uses_random((vlib.dec_text(cv) if re.match(r"^(-|[0-9,]+)$", cv) else "") + " " + s):
            info["random"].add(i)
    # the command-line tool
    if cli:
        norand = [i for i in live if i not in info["random"] and p1[i] != "PANIC"]
        jobs = [("s%d" % i, srcs[i], False) for i in norand] + [("d%d" % i, srcs[i], True) for i in norand if i % 3 == 0]
        rnd = [i for i in live if i in info["random"] and p1[i] != "PANIC"]
        jobs += [("r%d" % i, srcs[i], False) for i in rnd] + [("q%d" % i, srcs[i], False) for i in rnd]
        res = run_cli(cli, os.path.join(ctx.rundir, "cli%d" % ctx.batch), jobs)
        for i in norand:
            rb, rl = split2(p1[i])
            for tag, nm in (("s", ""), ("d", " --debug")):
                if tag + str(i) not in res:
                    continue
                rc, data, out = res[tag + str(i)]
                case = "sakuramml%s <file with the source> out.mid" % nm
                if count:
                    ctx.count("cli" + nm, None)
                if rc == "HANG":
                    ctx.dist["cli_watchdog"] = ctx.dist.get("cli_watchdog", 0) + 1
                elif rc != 0 or data is None:
                    bad(i, "command-line tool%s: exits with %s / writes no file where compile() returns bytes" % (nm, rc), case, (rc, data), rb)
                elif data != rb:
                    bad(i, "command-line tool%s: the file differs from the library's bytes (source uses no randomness)" % nm, case, data, rb)
                elif tag == "s":
                    k = "cli_stdout_is_log_plus_ok" if out == (vlib.dec_text(rl).strip() + "\nok.\n") else "cli_stdout_other"
                    ctx.dist[k] = ctx.dist.get(k, 0) + 1
        for i in rnd:
            a, b = res.get("r%d" % i), res.get("q%d" % i)
            rb = split2(p1[i])[0]
            k = "cli_random_source_" + ("same_as_library" if a and b and a[1] == rb and b[1] == rb else "differs_from_library(reseeded from the clock: allowed)")
            ctx.dist[k] = ctx.dist.get(k, 0) + 1
    return fails, info


def shrink(ctx, src, other, what, cli, budget=120):
    """delta debugging on characters: keep the same failure label alive"""
    def still(s):
        f, _ = evaluate(ctx, [s], [other], cli, count=False)
        return any(w == what for (w, _, _, _) in f[0])
    cur, chunk, used = src, max(1, len(src) // 2), 0
    while chunk >= 1:
        i = 0
        while i < len(cur):
            if used >= budget:
                return cur
            cand = cur[:i] + cur[i + chunk:]
            used += 1
            if cand and still(cand):
                cur = cand
            else:
                i += chunk
        chunk //= 2
    return cur


OTHER_ENV = {"BUILD_NUMBER": "7", "LANG": "ja_JP.UTF-8", "LC_ALL": "C", "LANGUAGE": "ja", "TZ": "Asia/Tokyo", "HOME": "/nonexistent", "USER": "someone",
             "SAKURA_DEBUG": "1", "SAKURA_LANG": "ja", "DEBUG": "1", "RUST_LOG": "trace", "COLUMNS": "40", "CARGO_PKG_VERSION": "9.9.9", "SOURCE_DATE_EPOCH": "1"}


def variable_names():
    """every built-in variable / constant name of the implementation (init_variables), read from /repo on every run"""
    repo = os.environ.get("SAKURA_REPO", "/repo")
    try:
        text = open(os.path.join(repo, "src", "mml_def.rs"), encoding="utf-8").read()
    except OSError:
        return []
    return list(dict.fromkeys(re.findall(r'var\.insert\(\s*(?:String::from\(|")\s*"?([A-Za-z_][A-Za-z0-9_.]*)"', text)))


def gen_sources(ctx):
    rng = ctx.rng
    scale = 4 if ctx.tier == "quick" else 40
    srcs = []
    p = os.path.join(vlib.VERIF, "corpus", "C08.jsonl")
    if os.path.exists(p):
        srcs += [(json.loads(l)["src"], "corpus") for l in open(p, encoding="utf-8") if l.strip()]
    srcs += [(s, "random_fixed") for s in RANDOM_SOURCES]
    # play-from restoring many controller / program values set on several channels (whatever container holds them, the order
    # of the restored messages must not depend on the process)
    for _ in range(10 * scale):
        n = rng.choice([3, 6, 10, 16])
        chans = rng.sample(range(1, 17), min(n, 16))
        body = "".join("Channel=%d y%d,%d %s" % (ch, rng.choice([1, 7, 10, 11, 64, 91, 93]), rng.randrange(0, 128), rng.choice(["", "@%d " % rng.randrange(1, 128)]))
                       for ch in chans)
        srcs.append((body + "l4 c " + rng.choice(["? d e", "d ? e", "PlayFromHere d"]), "playfrom_multichannel"))
    # built-in functions with every number of arguments, where the result (also an error placeholder) reaches the bytes
    argsets = ["", "A", "A,2", "A,2,1", "A,2,1,5", "{b},{X}", "A,{b}", "A,{b},{X}", "65", "1,2", "0"]
    for fn in ["MID", "REPLACE", "SizeOf", "SIZEOF", "CHR", "Random", "RandomSelect", "RANDOM_SELECT", "Int", "Str", "ASC", "NumberFormat", "HEX", "Hex"]:
        for a in argsets:
            srcs.append(("STR A={abcd}; TrackName=%s(%s) cde" % (fn, a), "builtin_function_arity"))
            srcs.append(("STR A={abcd}; STR S=%s(%s); Copyright=S; PRINT(S) c" % (fn, a), "builtin_function_arity"))
    # every built-in variable, where its value reaches the log and the bytes
    names = variable_names()
    for i in range(0, len(names), 6):
        grp = names[i:i + 6]
        srcs.append(("".join("PRINT(%s)\n" % n for n in grp) + "".join("TrackName(%s) " % n for n in grp) + "cde", "builtin_variables"))
    # user functions called with arguments that HAVE AN EFFECT when they are evaluated (a random draw, a call that writes notes,
    # a counter): whatever evaluates an argument more or less often under some configuration (debug level, language, entry
    # point) changes the bytes
    effect_args = ["Random(40,80)", "Random(12)+60", "RandomSelect(60,62,64,67)", "G()", "G()+1", "H(Random(3))", "NEXT()", "60+NEXT()"]
    for _ in range(12 * scale):
        nargs = rng.choice([1, 1, 2, 3])
        params = ["A", "B", "C"][:nargs]
        body = rng.choice(["n=A", "n(A),8", "INT K=A; n=K", "IF(A>60){ n=A }ELSE{ n=60 }", "FOR(INT I=0;I<2;I++){ n=A }", "PRINT(A) n=A"])
        calls = " ".join("P(%s)" % ",".join(rng.choice(effect_args) for _ in params) for _ in range(rng.randrange(1, 5)))
        where = rng.choice(["%s", "[2 %s]", "TR=2 %s TR=1 c", "FOR(INT J=0;J<2;J++){ %s }", "INT R=F2(%s)" % rng.choice(effect_args) + " n=R %s"])
        srcs.append(("INT CNT=0; FUNCTION NEXT(){ CNT=CNT+1; RETURN(CNT) } FUNCTION G(){ c16 RETURN(64) } FUNCTION H(X){ n(70+X),16 RETURN(65+X) } "
                     "FUNCTION F2(X){ RETURN(X+1) } FUNCTION P(%s){ %s } l8 %s" % (",".join("INT " + p for p in params), body, where % calls), "effectful_arguments"))
    srcs += [("FUNCTION PLAYN(INT A){ n=A }; PLAYN(Random(40,80)) PLAYN(Random(40,80)) PLAYN(Random(40,80))", "effectful_arguments"),
             ("FUNCTION G(){ c RETURN(64) }; FUNCTION PLAYN(INT A){ n=A }; PLAYN(G())", "effectful_arguments")]
    samples = mmlgen.samples()
    srcs += [(s, "samples") for s in samples]
    for _ in range(24 * scale):
        s = rng.choice(samples) if samples else "cde"
        for _ in range(rng.randrange(1, 4)):
            s = mmlgen.mutate(rng, s)
        srcs.append((s, "sample_mutations"))
    for _ in range(110 * scale):
        srcs.append((mmlgen.core_program(rng), "core"))
    for _ in range(50 * scale):
        srcs.append((mmlgen.mutate(rng, mmlgen.core_program(rng)), "core_mutations"))
    for _ in range(50 * scale):
        srcs.append((mmlgen.junk_program(rng), "junk"))
    for _ in range(40 * scale):
        srcs.append((mmlgen.japanese_program(rng), "japanese"))
    for _ in range(50 * scale):
        s = mmlgen.core_program(rng, size=rng.choice([3, 6, 10]))
        for _ in range(rng.randrange(1, 4)):
            k = rng.randrange(0, len(s) + 1)
            # insert at a separator so the fragment stays a command of its own
            while k < len(s) and s[k] not in " \n;|":
                k += 1
            s = s[:k] + " " + rng.choice(RANDOM_FRAGS) + s[k:]
        srcs.append((s, "core_with_randomness"))
    seen, out = set(), []
    for s, o in srcs:
        if s not in seen and "\x00" not in s:
            seen.add(s)
            out.append((s, o))
    return out


def run(ctx):
    cli = build_cli(ctx)
    rng = ctx.rng
    # the pool of earlier compilations: only programs that return
    pool = ctx.impl(["entry_compile\t%s\t0" % vlib.enc_text(o) for o in OTHERS], stall=8)
    others_ok = [o for o, r in zip(OTHERS, pool) if r not in BAD] or ["cde"]
    pairs = gen_sources(ctx)
    srcs = [s for s, _ in pairs]
    others = [rng.choice(others_ok + srcs[:40]) for _ in srcs]
    others = [o if "\x00" not in o else "cde" for o in others]
    fails, info = evaluate(ctx, srcs, others, cli)
    for (s, o) in pairs:
        ctx.dist["origin_" + o] = ctx.dist.get("origin_" + o, 0) + 1
    ctx.dist["excluded_first_compile_hangs_or_aborts(C07)"] = len(info["excluded"])
    ctx.dist["sources_using_randomness"] = len(info["random"])
    ctx.dist["sources_panicking_everywhere(C07)"] = sum(1 for r in info["ref"].values() if r == "PANIC")
    for i in sorted(info["random"])[:3] + [j for j in range(len(srcs)) if j not in info["random"]][:4]:
        if i in info["ref"]:
            ctx.sample({"source": srcs[i][:120], "uses_randomness": i in info["random"], "bytes": info["ref"][i].split("\t")[0][:80]})
    failing = sorted((i for i in fails if fails[i]), key=lambda i: len(srcs[i]))
    for rank, i in enumerate(failing):
        what, case, obs, exp = fails[i][0]
        s = srcs[i]
        if rank == 0 and len(s) > 12:
            small = shrink(ctx, s, others[i], what, cli)
            if small != s:
                f2, _ = evaluate(ctx, [small], [others[i]], cli, count=False)
                hit = [x for x in f2[0] if x[0] == what]
                if hit:
                    s, (what, case, obs, exp) = small, hit[0]
        ctx.oracle_fail(what, case, obs, exp, input_text=s)
    # correspondence: the model is a pure function of the source; the implementation is asked in two process sets
    core = [s for s in srcs if s and len(s) < 400 and all(ord(c) < 128 for c in s)][: (1200 if ctx.tier == "quick" else 12000)]
    lines = ["compile_lex\t%s" % vlib.enc_text(s) for s in core]
    got1 = ctx.impl(lines, stall=10)
    got2 = ctx.impl(list(reversed(lines)), stall=10)[::-1]
    mod = ctx.model(["compile_core\t%s" % vlib.enc_text(s) for s in core])
    for s, g1, g2, m in zip(core, got1, got2, mod):
        ctx.count("correspondence", None)
        if m.startswith("UNSUPPORTED") or m.startswith("OUTOFFUEL"):
            ctx.unsupported += 1
            ctx.dist[m[:40]] = ctx.dist.get(m[:40], 0) + 1
            continue
        if m == "PANIC" or g1 in BAD or g2 in BAD:
            ctx.dist["correspondence_skipped"] = ctx.dist.get("correspondence_skipped", 0) + 1
            continue
        for g in (g1, g2):
            if g != m:
                ctx.disagree("compile (lex/exec/generate), two process sets", s, g[:300], m[:300])
                break
    language_stream(ctx)


def language_stream(ctx):
    """model(ja) vs implementation(ja): bytes and log text; and, on the implementation, the law the theorems state of the
    model (same bytes and the same number of log entries in both languages)"""
    rng = ctx.rng
    scale = 1 if ctx.tier == "quick" else 10
    srcs = list(LANG_SOURCES)
    for _ in range(250 * scale):
        srcs.append("".join(rng.choice(LANG_FRAGS) for _ in range(rng.randrange(1, 9))))
    for _ in range(60 * scale):
        srcs.append("".join(rng.choice(LANG_FRAGS) for _ in range(rng.randrange(25, 140))))      # the caps: 30 + 1 lexer errors, 100 entries, 4096 characters
    for _ in range(120 * scale):
        srcs.append("".join(rng.choice(LANG_SCRIPT_FRAGS) for _ in range(rng.randrange(1, 7))))
    for _ in range(40 * scale):
        s = mmlgen.core_program(rng, size=rng.choice([3, 6]))
        for _ in range(rng.randrange(1, 4)):
            k = rng.randrange(0, len(s) + 1)
            while k < len(s) and s[k] not in " \n;|":
                k += 1
            s = s[:k] + " " + rng.choice(LANG_FRAGS) + s[k:]
        srcs.append(s)
    srcs = [s for s in dict.fromkeys(srcs) if s and "\x00" not in s]
    enc = [vlib.enc_text(s) for s in srcs]
    ja = ctx.impl(["compile_lex_ja\t%s" % e for e in enc], stall=30)
    if any(r.startswith("UNKNOWN-KIND") for r in ja):
        ctx.fatal("the harness does not know compile_lex_ja (stale build?)")
    en = ctx.impl(["compile_lex\t%s" % e for e in enc], stall=30)
    mc = ctx.model(["compile_core_ja\t%s" % e for e in enc], driver="core")
    if any(r.startswith("UNKNOWN-KIND") for r in mc):
        ctx.fatal("the core driver does not know compile_core_ja (stale build?)")
    need = [i for i, m in enumerate(mc) if m.startswith("UNSUPPORTED")]
    ms = dict(zip(need, ctx.model(["compile_script_ja\t%s" % enc[i] for i in need], driver="script", stall=120)))
    cut = max_log_chars()
    for i, s in enumerate(srcs):
        g, m, which = ja[i], mc[i], "compile_lang true (core pipeline model)"
        if m.startswith("UNSUPPORTED"):
            m, which = ms[i], "compile_script_lang true (script-layer model)"
        ctx.count("language correspondence", None)
        if m.startswith("UNSUPPORTED") or m.startswith("OUTOFFUEL"):
            ctx.unsupported += 1
            ctx.dist["lang " + m[:24]] = ctx.dist.get("lang " + m[:24], 0) + 1
        elif m.startswith("PANIC") or g in BAD or g == "PANIC":
            ctx.dist["lang_correspondence_skipped"] = ctx.dist.get("lang_correspondence_skipped", 0) + 1
        else:
            k = "lang_model=" + which.split(" ")[0]
            ctx.dist[k] = ctx.dist.get(k, 0) + 1
            if g != m:
                ctx.disagree("language ja: %s vs lex/exec/generate with set_language(\"ja\")" % which, s, g[:400], m[:400])
            elif "\t" in g:
                lg = vlib.dec_text(g.split("\t")[1])
                ctx.count("language correspondence: log not empty", s if lg else None)
                for _, j in catalogue():
                    if j in lg:
                        ctx.dist["lang_msg " + j[:12]] = ctx.dist.get("lang_msg " + j[:12], 0) + 1
        # the law, on the implementation: same bytes, same number of entries
        if g in BAD or en[i] in BAD:
            continue
        ctx.count("language law", None)
        if (g == "PANIC") != (en[i] == "PANIC"):
            ctx.oracle_fail("language: one language panics, the other does not (lex/exec/generate)", "compile_lex_ja\t%s" % enc[i], g[:300], en[i][:300], input_text=s)
        elif g != "PANIC":
            (gb, gl), (eb, el) = split2(g), split2(en[i])
            if gb != eb:
                ctx.oracle_fail("language: bytes with language ja differ from language en (lex/exec/generate)", "compile_lex_ja\t%s" % enc[i], gb, eb, input_text=s)
            elif gl is not None and el is not None:
                lj, le = vlib.dec_text(gl), vlib.dec_text(el)
                if len(lj) < cut and len(le) < cut and prefixes(lj) != prefixes(le):
                    ctx.oracle_fail("language: en and ja logs differ in the number of entries / [KIND](line) prefixes (lex/exec/generate)",
                                    "compile_lex_ja\t%s" % enc[i], prefixes(lj), prefixes(le), input_text=s)


def replay(ctx, obj):
    f = obj.get("failure") or {}
    src = f.get("input")
    if src is None:
        return
    cli = build_cli(ctx)
    case = f.get("case") or ""
    other = vlib.dec_text(case.split("\t")[1]) if case.startswith("entry_after\t") else OTHERS[0]
    fails, _ = evaluate(ctx, [src], [other], cli, count=False)
    for what, case, obs, exp in fails[0]:
        print("STILL FAILS:", what)
        print("  case    :", case[:300])
        print("  observed:", obs[:300])
        print("  expected:", exp[:300])
        ctx.oracle_fail(what, case, obs, exp, input_text=src)
    if not fails[0]:
        print("the recorded input no longer fails")
