"""C06 - Sub, tuplets and chords obey their time-pointer laws for any contents.
Theorems: props/C06.v (Sub / Div for arbitrary children, share and chord laws by induction over the element list).
Correspondence: the Gallina pipeline model (`compile_core`) vs the implementation's lex/exec/generate (`compile_lex`)
on every generated source.  Oracle, on the implementation's bytes, computed from the property text only:
  marker   a note on a channel of its own (CH(16) n100,%1,100,99,0 CH(1): explicit length, gate, velocity, timing), so
           its start tick in the file IS the time pointer at that place of the text;  S = its tick in `PRE M`
  sub      in `PRE Sub{X} M` the marker starts at S; `PRE Sub{X}` sounds the same notes as `PRE X`
  tuplet   in `PRE {X}L M c M2` the marker starts at S + len(L) and M2 at S + len(L) + 1 + (default length of PRE);
           for X made of counted elements (notes, numbered notes, rests, nested tuplets, `^`) and octave / velocity
           commands, every element without a length of its own starts and lasts as the equal share len(L) div count
           prescribes (elements with a length keep it), recursively for nested tuplets
  chord    in `PRE CH(15)'X'L CH(1) M` every chord note (channel 14) starts at S and lasts len(L)*gate/100, gate = the
           chord's or the track's; with a chord velocity all have it; the marker starts at S + len(L)
len(.) is the public runner::calc_length of the harness (C04's function) with the default length known from PRE."""
import json, os
import vlib, mmlgen, midinotes

COQ_TARGET = "props/C06.v"
THEOREMS = ["C06_sub", "C06_sub_frame", "C06_sub_restores", "C06_div", "C06_div_advance", "C06_div_restores_length",
            "C06_div_children_length", "C06_div_frame", "C06_note_length", "C06_no_length_is_default", "C06_div_share",
            "C06_div_share_exec", "C06_chord", "C06_exec_loopfree", "C06_chord_exec"]
DRIVERS = ["core"]
RULE = ("PRE = 0..4 items of the core-language generator followed by explicit l<len> q<gate>; X = 1..5 items of the same generator "
        "(notes with flags and parameters, rests, numbered notes, l/o/v/q/t and relative commands, octave-once, chords, tuplets, "
        "Sub blocks, loops with ':' nested to depth 2, comments, all separators), no track switch; L from '', 4, 2, 8, 1, 4., 8., %30, "
        "4^8, 2.., 12; share tuplets: 0..6 counted elements with own lengths '', ^, ^^, ., 8, 4^, %10, nested to depth 2; chords: "
        "1..5 notes with accidentals, own lengths, > and <, optional gate and velocity. non-trivial = distinct source whose block "
        "sounds at least 2 notes")
TRUSTED = ["f32 gate arithmetic (len*gate/100) assumed exact in the sampled range",
           "runner::calc_length (C04) gives len(L); SMF decoding by the extracted specification decoder (C02)"]
ASSUMES = ["no track switch inside a block", "chord gate and track gate are not 0 (0 is the code's 'unset' sentinel for the chord gate)",
           "tuplet elements for the share law are lettered / numbered notes, rests, nested tuplets and o / v / > / < commands "
           "(a chord or a loop inside a tuplet is counted by its tokens, which the property does not speak about)"]

MARK = " CH(16)n100,%1,100,99,0 CH(1) "       # channel 15
MARK2 = " CH(15)n101,%1,100,98,0 CH(1) "      # channel 14
X_FEATS = {"tie": False, "comments": True}
PRE_LENS = ["4", "8", "16", "2", "4.", "12", "%30", "1"]
GATES = [100, 90, 80, 50, 33]
L_POOL = ["", "", "4", "2", "8", "1", "4.", "8.", "%30", "4^8", "2..", "12", "%1", "16"]


def gen_pre(rng):
    body = mmlgen.block(rng, 2, rng.randrange(0, 5), X_FEATS)
    l = rng.choice(PRE_LENS)
    g = rng.choice(GATES)
    return body + " l%s q%d " % (l, g), l, g


def gen_x(rng):
    return mmlgen.block(rng, 2, rng.randrange(1, 6), X_FEATS) + " "


# ---- share tuplets: a tree of counted elements ----
OWN = ["", "", "", "", "^", "^^", ".", "8", "4^", "%10", "16"]


def gen_elems(rng, depth):
    out = []
    for _ in range(rng.choice([0, 1, 2, 3, 3, 4, 5, 6])):
        k = rng.random()
        if k < 0.5:
            out.append(("note", rng.choice("cdefgab") + rng.choice(["", "", "+", "-"]), rng.choice(OWN)))
        elif k < 0.62:
            out.append(("rest", "r", rng.choice(OWN)))
        elif k < 0.72:
            out.append(("noten", "n%d," % rng.choice([60, 64, 36]), rng.choice(["", "", "8", "^"])))
        elif k < 0.84 and depth > 0:
            out.append(("div", gen_elems(rng, depth - 1), rng.choice(["", "", "4", "^", "8^", "%20"])))
        else:
            out.append(("cmd", rng.choice(["o5", "o6", ">", "<", "v100", "v64", "o4"]), ""))
    return out


def print_elems(elems):
    s = []
    for e in elems:
        if e[0] == "div":
            s.append("{" + print_elems(e[1]) + "}" + e[2] + " ")
        elif e[0] == "noten":
            s.append(e[1] + e[2] + " ")
        elif e[0] == "cmd":
            s.append(e[1] + " ")
        else:
            s.append(e[1] + e[2] + " ")
    return "".join(s)


def count_elems(elems):
    return sum(1 + e[2].count("^") for e in elems if e[0] != "cmd")


class Lens:
    """memoised runner::calc_length(s, 96, default) through the harness, asked in batches"""
    def __init__(self, ctx):
        self.ctx, self.memo, self.want = ctx, {}, set()

    def get(self, s, d):
        k = (s, d)
        if k in self.memo:
            return self.memo[k]
        self.want.add(k)
        return None

    def flush(self):
        ks = sorted(self.want)
        self.want = set()
        if not ks:
            return False
        got = self.ctx.impl(["calc_length\t%s\t96\t%d" % (vlib.enc_text(s), d) for s, d in ks])
        for k, g in zip(ks, got):
            try:
                self.memo[k] = int(g)
            except ValueError:
                self.memo[k] = 0
        return True


def layout(lens, elems, start, total):
    """expected (start, duration) of every note of a tuplet lasting `total` ticks from `start`, gate 100; None while a
    length is still unknown"""
    cnt = count_elems(elems)
    share = total // cnt if cnt > 0 else 0
    pos = start
    notes = []
    ok = True
    for e in elems:
        if e[0] == "cmd":
            continue
        ln = lens.get(e[2], share)
        if ln is None:
            ok = False
            continue
        if e[0] in ("note", "noten"):
            notes.append((pos, ln))
        elif e[0] == "div":
            sub = layout(lens, e[1], pos, ln)
            if sub is None:
                ok = False
            else:
                notes += sub
        pos += ln
    return notes if ok else None


class Dec:
    """decoded track: paired notes and the plain note-on / note-off tick lists"""
    def __init__(self, field):
        self.notes = midinotes.notes_of_decoded(field)
        self.onoff = midinotes.onoff_of_decoded(field)


def decode_many(ctx, hexes):
    cont = ctx.model(["container\t%s" % h for h in hexes])
    lines, owner = [], []
    for i, c in enumerate(cont):
        f = c.split("\t")
        if f[0] != "OK":
            continue
        for b in (f[5].split("/") if len(f) > 5 else []):
            lines.append("decode_track\t%s" % b)
            owner.append(i)
    dec = ctx.model(lines)
    out = [None if not c.startswith("OK") else [] for c in cont]
    for i, d in zip(owner, dec):
        out[i].append(Dec(d))
    for i, o in enumerate(out):
        if o is not None and (not o or any(x.notes is None for x in o)):
            out[i] = None
    return out


def compile_all(ctx, srcs):
    """implementation bytes + decoded notes of track 0; correspondence with the model on the way"""
    lines = ["compile_lex\t%s" % vlib.enc_text(s) for s in srcs]
    got = ctx.impl(lines, stall=20)
    mod = ctx.model(["compile_core\t%s" % vlib.enc_text(s) for s in srcs])
    for s, g, m in zip(srcs, got, mod):
        if m.startswith("UNSUPPORTED") or m.startswith("OUTOFFUEL"):
            ctx.unsupported += 1
            ctx.dist[m] = ctx.dist.get(m, 0) + 1
        elif g != m:
            ctx.disagree("compile (lex/exec/generate)", s, g[:300], m[:300])
    dec = decode_many(ctx, [g.split("\t")[0] for g in got])
    return got, dec


def chan(tracks, ch):
    """(start, dur, key, vel) of the notes of track 0 on channel ch"""
    return sorted((n[2], n[3], n[1], n[4]) for n in tracks[0].notes if n[0] == ch)


def ticks(tracks, ch):
    ons, offs = tracks[0].onoff
    return sorted(x[2] for x in ons if x[0] == ch), sorted(x[2] for x in offs if x[0] == ch)


def minus(a, b):
    a = list(a)
    for x in b:
        if x in a:
            a.remove(x)
    return a


def mark_tick(tracks, ch=15):
    ms = chan(tracks, ch)
    return ms[0][0] if len(ms) == 1 else None


def run_batch(ctx, cases, origin):
    """cases: dicts with kind in sub/div/share/chord and the fields each oracle needs"""
    lens = Lens(ctx)
    srcs, index = [], []

    def add(case, name, text):
        index.append((case, name))
        srcs.append(text)

    for c in cases:
        pre = c["pre"]
        add(c, "ref", pre + MARK)
        if c["kind"] == "sub":
            add(c, "a", pre + "Sub{" + c["x"] + "}" + MARK)
            add(c, "b", pre + "Sub{" + c["x"] + "}")
            add(c, "c", pre + c["x"])
        elif c["kind"] == "subflow":
            add(c, "a", c["fdef"] + pre + c["text"] + MARK)
        elif c["kind"] == "div":
            add(c, "a", pre + "{" + c["x"] + "}" + c["L"] + MARK + " c " + MARK2)
        elif c["kind"] == "share":
            add(c, "a", pre + "q100 t0 {" + print_elems(c["elems"]) + "}" + c["L"] + MARK + " c " + MARK2)
            add(c, "b", pre + "q100 t0 ")
        elif c["kind"] == "chord":
            add(c, "a", pre + " CH(15)'" + c["x"] + "'" + c["L"] + c["qv"] + " CH(1) " + MARK)
    got, dec = compile_all(ctx, srcs)
    res = {}
    for (c, name), s, g, d in zip(index, srcs, got, dec):
        res.setdefault(id(c), {})[name] = (s, g, d)
    # lengths: the default of PRE, then len(L); the share lengths in rounds
    for c in cases:
        lens.get(c["l"], 96)
    lens.flush()
    for c in cases:
        c["deflen"] = lens.get(c["l"], 96)
        if c["kind"] not in ("sub", "subflow"):
            lens.get(c["L"], c["deflen"])
    lens.flush()
    for _ in range(8):
        for c in cases:
            if c["kind"] == "share":
                r = res[id(c)]
                S = mark_tick(r["ref"][2])
                if S is not None:
                    c["want"] = layout(lens, c["elems"], S, lens.get(c["L"], c["deflen"]))
        if not lens.flush():
            break
    for c in cases:
        r = res[id(c)]
        src = r["a"][0]
        bad = [k for k, v in r.items() if v[2] is None]
        if bad:
            ctx.oracle_fail("output does not decode", r[bad[0]][0], r[bad[0]][1][:100], "decodable SMF", input_text=r[bad[0]][0])
            continue
        S = mark_tick(r["ref"][2])
        if S is None:
            ctx.notes.append("no marker in reference: %r" % r["ref"][0][:80]) if len(ctx.notes) < 5 else None
            continue
        block_notes = len(chan(r["a"][2], 0)) - len(chan(r["ref"][2], 0)) + (len(chan(r["a"][2], 14)) if c["kind"] == "chord" else 0)
        ctx.count(origin + ":" + c["kind"], src if block_notes >= 2 else None)
        if len(ctx.samples) < 8 and block_notes >= 2 and ctx.dist.get("sampled:" + c["kind"], 0) < 2:
            ctx.dist["sampled:" + c["kind"]] = ctx.dist.get("sampled:" + c["kind"], 0) + 1
            ctx.sample({"kind": c["kind"], "source": src[:240], "start": S})
        if c["kind"] == "subflow":
            m = mark_tick(r["a"][2])
            if m != S:
                ctx.oracle_fail("Sub{X} left through BREAK / CONTINUE / RETURN did not put the time pointer back", src,
                                "marker at %s" % m, "marker at %s" % S, input_text=src)
            continue
        if c["kind"] == "sub":
            m = mark_tick(r["a"][2])
            if m != S:
                ctx.oracle_fail("Sub{X} did not put the time pointer back", src, "marker at %s" % m, "marker at %s" % S, input_text=src)
            if r["b"][1].split("\t")[0] != r["c"][1].split("\t")[0]:
                ctx.oracle_fail("Sub{X} does not write what X writes", r["b"][0], str(chan(r["b"][2], 0))[:400],
                                str(chan(r["c"][2], 0))[:400], input_text=r["b"][0])
            continue
        lenL = lens.get(c["L"], c["deflen"])
        m = mark_tick(r["a"][2])
        if m != S + lenL:
            ctx.oracle_fail("%s did not advance the time pointer by exactly L" % ("chord" if c["kind"] == "chord" else "tuplet"),
                            src, "marker at %s" % m, "marker at %d + %d" % (S, lenL), input_text=src)
        if c["kind"] in ("div", "share"):
            m2 = mark_tick(r["a"][2], 14)
            if m2 != S + lenL + 1 + c["deflen"]:
                ctx.oracle_fail("tuplet did not restore the default length", src, "second marker at %s" % m2,
                                "%d + %d + 1 + %d" % (S, lenL, c["deflen"]), input_text=src)
        if c["kind"] == "share" and c.get("want") is not None:
            bon, boff = ticks(r["b"][2], 0)
            aon, aoff = ticks(r["a"][2], 0)
            # the tuplet's notes: what is there beyond PRE's notes and the plain note after the marker
            gon = sorted(minus(minus(aon, bon), [S + lenL + 1]))
            goff = sorted(minus(minus(aoff, boff), [S + lenL + 1 + c["deflen"]]))
            won = sorted(n[0] for n in c["want"])
            woff = sorted(n[0] + n[1] for n in c["want"])
            if gon != won or goff != woff:
                ctx.oracle_fail("tuplet elements do not get the equal share len(L) div count", src,
                                "note-ons %s note-offs %s" % (gon, goff), "note-ons %s note-offs %s" % (won, woff), input_text=src)
        if c["kind"] == "chord":
            ns = chan(r["a"][2], 14)
            g = c["q"] if c["q"] is not None else c["g"]
            wantdur = (lenL * g) // 100
            if len(ns) != c["n"]:
                ctx.oracle_fail("chord does not sound one note per written note", src, str(ns)[:300], "%d notes" % c["n"], input_text=src)
            for n in ns:
                if n[0] != S or n[1] != wantdur or (c["v"] is not None and n[3] != c["v"]):
                    ctx.oracle_fail("chord note is not at the chord's start with the chord's length/gate/velocity", src, str(ns)[:300],
                                    "all (start %d, duration %d%s)" % (S, wantdur, ", velocity %d" % c["v"] if c["v"] is not None else ""),
                                    input_text=src)
                    break


def gen_case(rng, kind):
    pre, l, g = gen_pre(rng)
    c = {"kind": kind, "pre": pre, "l": l, "g": g}
    if kind == "sub":
        c["x"] = gen_x(rng)
    elif kind == "subflow":
        # "whatever X contains": X is left through BREAK / CONTINUE (of a loop around the Sub) or RETURN (of a function)
        x1, x2 = gen_x(rng), gen_x(rng)
        c["fdef"] = ""
        k = rng.choice([2, 3, 4])
        j = rng.randrange(0, k)
        shape = rng.choice(["for_break", "for_continue", "while_break", "return", "return_nested"])
        if shape == "for_break":
            c["text"] = "FOR(INT I=0;I<%d;I++){ Sub{ %s IF(I==%d){ BREAK } %s } } " % (k, x1, j, x2)
        elif shape == "for_continue":
            c["text"] = "FOR(INT I=0;I<%d;I++){ Sub{ %s IF(I==%d){ CONTINUE } %s } } " % (k, x1, j, x2)
        elif shape == "while_break":
            c["text"] = "INT J=0 WHILE(J<%d){ J++ Sub{ %s IF(J==%d){ BREAK } %s } } " % (k, x1, j + 1, x2)
        elif shape == "return":
            c["fdef"] = "FUNCTION FS(){ Sub{ %s RETURN(1) %s } } " % (x1, x2)
            c["text"] = "FS() "
        else:
            c["fdef"] = "FUNCTION FS(N){ FOR(INT I=0;I<3;I++){ Sub{ %s IF(I==N){ RETURN(I) } %s } } } " % (x1, x2)
            c["text"] = "FS(%d) " % rng.randrange(0, 3)
    elif kind == "div":
        c["x"] = gen_x(rng)
        c["L"] = rng.choice(L_POOL)
    elif kind == "share":
        c["elems"] = gen_elems(rng, 2)
        c["L"] = rng.choice(L_POOL)
    else:
        items = []
        n = 0
        for _ in range(rng.randrange(1, 6)):
            k = rng.random()
            if k < 0.2:
                items.append(rng.choice([">", "<"]))
            elif k < 0.35:
                # "whatever X contains": rests and default-length changes inside the chord move the pointer but not the law
                items.append(rng.choice(["r", "r8", "r2", "r%7", "r4."]))
            else:
                # (a tie mark on a note INSIDE a chord does not take the note out of the chord)
                items.append(rng.choice("cdefgab") + rng.choice(["", "", "+", "-", "#"]) + rng.choice(["", "", "", "8", "2", "%5"])
                             + rng.choice(["", "", "", "", "", "&"]))
                n += 1
        if n == 0:
            items.append("c")
            n = 1
        c["x"] = "".join(items)
        c["n"] = n
        c["L"] = rng.choice(["", "", "4", "2", "8", "1", "4.", "16", "4^8", "12"])
        c["q"], c["v"] = None, None
        c["qv"] = ""
        if rng.random() < 0.4:
            c["q"] = rng.choice([100, 80, 50, 120, 30, 99])
            c["qv"] = ",%d" % c["q"]
            if rng.random() < 0.5:
                c["v"] = rng.choice([100, 64, 127, 1])
                c["qv"] += ",%d" % c["v"]
        elif rng.random() < 0.25:
            # the gate slot left EMPTY: 'X'L,,V (velocity only) and 'X'L, - the chord takes the track's gate like 'X'L
            if rng.random() < 0.7:
                c["v"] = rng.choice([100, 64, 127, 1])
                c["qv"] = ",,%d" % c["v"]
            else:
                c["qv"] = ","
    return c


def corpus_cases():
    p = os.path.join(vlib.VERIF, "corpus", "C06.jsonl")
    out = []
    if os.path.exists(p):
        for line in open(p, encoding="utf-8"):
            if line.strip():
                out.append(json.loads(line))
    return out


def run(ctx):
    rng = ctx.rng
    run_batch(ctx, corpus_cases(), "corpus")
    n = 220 if ctx.tier == "quick" else 6000
    cases = [gen_case(rng, k) for _ in range(n) for k in ("sub", "div", "share", "chord")]
    cases += [gen_case(rng, "subflow") for _ in range(n // 3)]
    for i in range(0, len(cases), 4000):
        run_batch(ctx, cases[i:i + 4000], "generated")


def replay(ctx, obj):
    f = obj.get("failure") or {}
    src = f.get("input")
    if src:
        print(ctx.impl(["compile_lex\t%s" % vlib.enc_text(src)]), ctx.model(["compile_core\t%s" % vlib.enc_text(src)]))
