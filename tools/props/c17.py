"""C17 - Japanese (sutoton) and full-width text become the same MML; ASCII is untouched.
Theorems: props/C17.v. Correspondence: model Sutoton.convert vs sutoton::convert (public) on vocabulary
concatenations (every row of the regenerated table, overlapping words), user definitions, ASCII MML, strings,
comments, random Unicode, unterminated strings/comments.
Oracles on the implementation's output: (a) the extracted specification (RewriteSpec.longest_match / translit /
rewrite / define / definition_residue / strip_right) on vocabulary concatenations, definitions (a definition is removed,
its line breaks stay) and verbatim blocks; (b) ASCII identity
(up to trailing white space: convert ends with trim_end); (c) a Japanese
source and its transliteration compile to the same bytes and log; (d) the width map for code points."""
import json, os, re
import vlib, mmlgen

COQ_TARGET = "props/C17.v"
THEOREMS = ["C17_sorted_invariant", "C17_longest", "C17_zen2han", "C17_zen2han_is_width_map", "C17_table_no_ascii",
            "C17_ascii_identity", "C17_strings_comments_verbatim", "C17_unterminated", "C17_hash_comment_refuted", "C17_user_defs",
            "C17_user_defs_one_line", "C17_definition_keeps_line_count", "C17_read_definition_lines",
            "C17_homomorphism_general", "C17_homomorphism", "C17_same_mml", "C17_total"]
DRIVERS = ["sutoton"]
RULE = ("readings = 1..14 pieces, each a row of the regenerated vocabulary (every row occurs in every tier, every pair "
        "word/extension occurs) or a single character (ASCII MML, full-width forms, wide spaces, kana outside the "
        "vocabulary); chains of such texts with ~{name}={mml} definitions (new words, redefinitions, extensions and "
        "prefixes of vocabulary words, empty names, all spacing variants, line breaks inside name and value and inside "
        "/* */ comments between the parts) and malformed definitions (no '{' after the marker, a name without a value, an empty "
        "name - each with line breaks in what is read over) and closed strings/comments with arbitrary content; generated ASCII MML programs; junk text with unterminated strings/comments and malformed definitions; "
        "random Unicode; code points through |c| and c alone (all scalar values in the thorough tier). non-trivial = "
        "distinct text with at least two vocabulary words or one word plus a definition/verbatim block")
TRUSTED = ["slice::sort_by is stable (the model's insertion sort is proved to be THE stable sort by descending byte length)",
           "char::is_whitespace = Unicode White_Space as listed in model/Cursor2.v (checked for every scalar value in the thorough tier)"]
ASSUMES = ["the '#' line-comment forms of the lexer ('# ', '##', '#-') are not known to the converter and are outside "
           "C17_strings_comments_verbatim (known findings C17-hash-comment-text / C17-hash-comment-midi, C17_hash_comment_refuted)"]

SPECIAL = set("{/~‾｛／～")
ASCII_PLAIN = list("cdefgabrlovqt0123456789.^+-#*,()[]':;|<>@!=`\" \n\t") + ["c", "d", "e", "4", "8", " ", " "]
WIDE = list("ＣｄｅＡ３８＃（）＋－＝　 ​﻿［］＞＜＠")
KANA_OUT = list("あかさアカ猫ラテリズ改音方向")      # characters that are not words on their own
DEF_NAMES = ["あ", "じゅー", "ぴ", "か", "猫", "abc", "x", "Do", "ド", "テンポ", "ドド", "テンポ改改", "テン", "ビブ", "方向", "ト", "トラ",
             "ー", "a b", "音", "ファ", "ッ", "c", "#", "12", "あ\nい", " ", " あ ", "\t", "　",
             "x\ny", "\nあ", "い\n", "\n", "あ\n\nい", "ド\r\nレ"]
DEF_VALUES = ["c", "l8", "", "o5c", "d e", "ド", "a{b}c", "\nc", "v100", "Track=2", "'ceg'", "x;", "[4 c]", "{x}", "r", "あ",
              "c\nd", "c\n\nd", "l8\n", "\n", "{c\n}d", "c\r\nd", "\n\n\n"]
# what may stand between the parts of a definition (skip_space: blanks, tabs, /* */ comments - line breaks only inside comments)
DEF_GAPS = ["", "", "", " ", "\t", "  ", "/* x */", "/*\n*/", " /* a\n\nb */ ", "/**/", "/*\n*/ /*\n*/", " /*\r\n*/\t"]
STOPPERS = ["c", "ド", "|", "\n", "4", "あ", "\r", ")"]


def load_table():
    rows = []
    for line in open(os.path.join(vlib.COQ, "gen", "SutotonTable.v"), encoding="utf-8"):
        m = re.match(r"\s*\(\[([\d; ]*)\], \[([\d; ]*)\]\)", line)
        if m:
            dec = lambda g: "".join(chr(int(x)) for x in g.split(";") if x.strip())
            rows.append((dec(m.group(1)), dec(m.group(2))))
    return rows


def enc_pieces(ps):
    out = []
    for p in ps:
        if isinstance(p, tuple):
            out.append("w:%s:%s" % (vlib.enc_text(p[0]), vlib.enc_text(p[1])))
        else:
            out.append("c:%d" % ord(p))
    return ";".join(out) or "-"


def pieces_src(ps):
    return "".join(p[0] if isinstance(p, tuple) else p for p in ps)


def gen_reading(rng, rows, n=None, ascii_out=False):
    n = n or rng.choice([1, 2, 2, 3, 4, 5, 6, 8, 10, 14])
    ps = []
    for _ in range(n):
        k = rng.random()
        if k < 0.62:
            ps.append(rng.choice(rows))
        elif k < 0.82:
            ps.append(rng.choice(ASCII_PLAIN))
        elif k < 0.92 or ascii_out:
            ps.append(rng.choice(WIDE))
        else:
            ps.append(rng.choice(KANA_OUT))
    return ps


MUSIC = ["ド", "レ", "ミ", "ファ", "ソ", "ラ", "シ", "ッ", "ン", "ー", "ど", "れ", "み", "そ", "ら", "し", "っ", "イ", "ロ", "ハ", "ニ", "ホ", "ヘ", "ト",
         "上", "下", "↑", "↓", "♯", "♭", "変", "嬰", "「", "」", "【", "】", "音階", "音符", "音量", "ゲート", "テンポ", "トラック", "チャンネル", "音色",
         "全音符", "二分音符", "四分音符", "八分音符", "付点四分音符", "音長", "連符", "音源初期化", "時間", "大きく", "小さく", "ペダル", "放す",
         "方向左", "方向右", "方向左前", "方向前", "ビブラート", "ビブラートオフ", "テンポ改", "音量戻す", "ず", "た", "つ", "ち", "ぱ", "と", "む", "ろ", "く"]


def gen_music(rng, byname):
    ps = []
    for _ in range(rng.choice([2, 4, 6, 10, 16, 24])):
        k = rng.random()
        if k < 0.7:
            w = rng.choice(MUSIC)
            if w in byname:
                ps.append((w, byname[w]))
                if w in ("音階", "音符", "音量", "ゲート", "テンポ", "トラック", "チャンネル", "音色", "音長"):
                    ps.extend(rng.choice(["5", "4", "8", "100", "80", "120", "2", "3", "16", "１６", "６"]))
        elif k < 0.85:
            ps.extend(rng.choice(["4", "8", " ", "\n", "　", "|", "2", "16", "3", ".", "(", ")", "４", "＃", ",", ":"]))
        else:
            ps.append(rng.choice(list(byname.items())))
    return ps


def closed_block(rng, rows):
    """a closed string or comment with arbitrary content (the terminator does not occur before the end)"""
    alpha = [r[0] for r in rows[:60]] + list("cde {}~/*\"'#あ　Ｃ") + ["~{あ}={c}", "//", "{\"", "テンポ", "~{ }={x}", "~{ い }={d}"]
    body = "".join(rng.choice(alpha) for _ in range(rng.randrange(0, 7)))
    k = rng.choice(["s", "s", "l", "b"])
    if k == "s":
        body = body.replace("\"}", "\" }")
        if body.startswith("}"):
            body = " " + body
        return "{\"" + body + "\"}"
    if k == "l":
        return "//" + body.replace("\n", " ") + "\n"
    body = body.replace("*/", "* /")
    if body.startswith("/"):
        body = " " + body
    return "/*" + body + "*/"


def gen_def(rng, wellformed=True):
    name = rng.choice(DEF_NAMES) if rng.random() < 0.85 else ""
    value = rng.choice(DEF_VALUES)
    tilde = rng.choice(["~", "~", "~", "～", "‾"])
    if rng.random() < 0.45:
        g = [rng.choice(DEF_GAPS) for _ in range(3)]
        eq = "=" if rng.random() < 0.8 else ""
        return name, value, "%s%s{%s}%s%s%s{%s}" % (tilde, g[0], name, g[1], eq, g[2], value)
    form = rng.choice(["%s{%s}={%s}", "%s{%s}={%s}", "%s {%s} = {%s}", "%s\t{%s}{%s}", "%s{%s}=/* x */{%s}", "%s /*y*/ {%s}  =\t{%s}"])
    return name, value, form % (tilde, name, value)


def gen_malformed(rng):
    """the text a malformed definition reads over (complete: whatever follows it is not read), and whether a stopper has to follow"""
    tilde = rng.choice(["~", "~", "~", "～", "‾"])
    g = [rng.choice(DEF_GAPS) for _ in range(3)]
    k = rng.choice(["bare", "bare", "novalue", "novalue", "emptyname"])
    if k == "bare":                  # no '{' after the marker
        return tilde + g[0], True
    name = rng.choice([n for n in DEF_NAMES if "{" not in n and "}" not in n])
    if k == "novalue":               # a name, then no '{': nothing is defined
        return "%s%s{%s}%s%s%s" % (tilde, g[0], name, g[1], rng.choice(["=", "=", ""]), g[2]), True
    value = rng.choice([v for v in DEF_VALUES if v.count("{") == v.count("}") and not v.startswith("}")])
    return "%s%s{}%s%s%s{%s}" % (tilde, g[0], g[1], rng.choice(["=", "=", ""]), g[2], value), False


def gen_chain(rng, rows):
    """segments (kind, payload, text): b = special-free text, d = definition (name, value, its text), m = the text a malformed
    definition reads over, v = closed string/comment"""
    segs = []
    for _ in range(rng.choice([1, 2, 3, 4, 6])):
        k = rng.random()
        if k < 0.45:
            ps = gen_reading(rng, rows, rng.choice([1, 2, 3, 5]))
            extra = rng.choice(DEF_NAMES) if rng.random() < 0.5 else ""
            t = pieces_src(ps) + extra + (pieces_src(gen_reading(rng, rows, 1)) if rng.random() < 0.5 else "")
            t = "".join(c for c in t if c not in SPECIAL)
            segs.append(("b", t, t))
        elif k < 0.7:
            n, v, txt = gen_def(rng)
            if any(c in SPECIAL or c in "{}" for c in n) or v.count("{") != v.count("}") or v.startswith("}"):
                continue
            if not n:
                segs.append(("m", txt, txt))          # an empty name defines nothing
            else:
                segs.append(("d", (n, v, txt), txt))
        elif k < 0.8:
            txt, need_stop = gen_malformed(rng)
            segs.append(("m", txt, txt))
            if need_stop:                             # the reading stops at the first character that is no blank, comment, '=' or '{'
                t = rng.choice(STOPPERS) + "".join(c for c in pieces_src(gen_reading(rng, rows, rng.choice([1, 2]))) if c not in SPECIAL)
                segs.append(("b", t, t))
        else:
            blk = closed_block(rng, rows)
            segs.append(("v", blk, blk))
    # adjacent plain texts are one text (a word may span the seam)
    merged = []
    for s in segs:
        if merged and s[0] == "b" and merged[-1][0] == "b":
            merged[-1] = ("b", merged[-1][1] + s[1], merged[-1][2] + s[2])
        else:
            merged.append(s)
    return merged


def enc_chain(segs):
    out = []
    for k, p, _ in segs:
        if k == "d":
            out.append("d:%s:%s:%s" % (vlib.enc_text(p[0]), vlib.enc_text(p[1]), vlib.enc_text(p[2])))
        else:
            out.append("%s:%s" % (k, vlib.enc_text(p)))
    return "\t".join(out)


def gen_junk(rng, rows):
    alpha = [r[0] for r in rows] + list("cdefg123 \n\t{}\"/*~=#") + ["{\"", "\"}", "//", "/*", "*/", "~{", "}={", "～", "‾", "｛", "／", "　", "Ｃ",
                                                                      "~{あ}={c}", "あ", "~{}={x}", "~ ", "\r", "\u0085", " "]
    return "".join(rng.choice(alpha) for _ in range(rng.randrange(0, 16)))


def gen_unicode(rng):
    pools = [(0, 0x80), (0x80, 0x800), (0x2000, 0x2070), (0x3000, 0x3100), (0x4E00, 0x9FFF), (0xFF00, 0xFFF0), (0xE000, 0xF900),
             (0x10000, 0x10FFFF), (0xFE00, 0xFF00), (0xD700, 0xD800)]
    out = []
    for _ in range(rng.randrange(1, 10)):
        lo, hi = rng.choice(pools)
        out.append(chr(rng.randrange(lo, hi)))
    return "".join(out)


def passthru_ok(s):
    """the class of C17_ascii_identity: ASCII characters other than '~', closed {"..."} (at least {""}), // ...\\n and
    /* ... */ (at least /**/) with arbitrary content"""
    i, n = 0, len(s)
    while i < n:
        if s.startswith("{\"", i):
            j = s.find("\"}", i + 1)
            if j < i + 2:
                return False
            i = j + 2
        elif s.startswith("//", i):
            j = s.find("\n", i)
            if j < 0:
                return False
            i = j + 1
        elif s.startswith("/*", i):
            j = s.find("*/", i + 1)
            if j < i + 2:
                return False
            i = j + 2
        else:
            if ord(s[i]) >= 128 or s[i] == "~":
                return False
            i += 1
    return True


def bad_result(r):
    return r in ("HANG", "ABORT", "MISSING") or r.startswith("PANIC")


class Runner:
    def __init__(self, ctx):
        self.ctx = ctx

    def convert_pairs(self, srcs, origin, nontriv=None):
        """correspondence on convert; returns the implementation's outputs"""
        ctx = self.ctx
        lines = ["convert\t%s" % vlib.enc_text(s) for s in srcs]
        got = ctx.impl(lines)
        mod = ctx.model(lines)
        for i, (s, g, m) in enumerate(zip(srcs, got, mod)):
            ctx.count(origin, (nontriv[i] if nontriv else None))
            if m.startswith("UNSUPPORTED"):
                ctx.unsupported += 1
            elif g != m:
                ctx.disagree("convert", {"text": s}, g[:600], m[:600])
            if bad_result(g):
                ctx.oracle_fail("sutoton::convert did not return (%s)" % g, lines[i][:2000], g, "a string", input_text=s)
        return got

    def expect(self, what, srcs, got, want, origin):
        ctx = self.ctx
        for s, g, w in zip(srcs, got, want):
            if w is None:
                continue
            if g != w:
                ctx.oracle_fail(what, "convert\t%s" % vlib.enc_text(s)[:2000], dec(g), dec(w), input_text=s)


def dec(f):
    try:
        return vlib.dec_text(f)
    except ValueError:
        return f


def run_readings(ctx, R, rows, readings, origin):
    lines = ["translit\t%s" % enc_pieces(ps) for ps in readings]
    spec = ctx.model(lines)
    srcs, want_seg, nt = [], [], []
    for ps, r in zip(readings, spec):
        f = r.split("\t")
        if len(f) != 4:
            ctx.notes.append("translit oracle failed on %r: %s" % (pieces_src(ps), r[:80])) if len(ctx.notes) < 5 else None
            continue
        srcs.append(vlib.dec_text(f[1]))
        want_seg.append(f[2] if f[0] == "SEG" else None)
        ctx.dist["reading_" + f[0]] = ctx.dist.get("reading_" + f[0], 0) + 1
        nt.append(f[1] if sum(1 for p in ps if isinstance(p, tuple)) >= 2 else None)
    got = R.convert_pairs(srcs, origin, nt)
    R.expect("convert(words) differs from the concatenation of their MML (unambiguous reading)", srcs, got, want_seg, origin)
    # the reference rewriting applies to every special-free text, ambiguous readings included
    idx = [i for i, s in enumerate(srcs) if not any(c in SPECIAL for c in s)]
    rl = ["rewrite\t-\t%s" % vlib.enc_text(srcs[i]) for i in idx]
    rw = ctx.model(rl)
    R.expect("convert(text) differs from longest-match rewriting", [srcs[i] for i in idx], [got[i] for i in idx],
             [w if w != "SPECIAL" else None for w in rw], origin)
    for s, g in list(zip(srcs, got))[:2]:
        ctx.sample({"text": s, "convert": dec(g)})


def run(ctx):
    rng = ctx.rng
    quick = ctx.tier == "quick"
    rows = load_table()
    byname = dict(rows)
    if len(rows) < 50:
        ctx.proof_problems.append("vocabulary table could not be read back from coq/gen/SutotonTable.v")
    R = Runner(ctx)

    # ---- corpus first ----
    p = os.path.join(vlib.VERIF, "corpus", "C17.jsonl")
    corpus = [json.loads(l) for l in open(p, encoding="utf-8") if l.strip()] if os.path.exists(p) else []
    srcs = [o["src"] for o in corpus]
    got = R.convert_pairs(srcs, "corpus")
    for o, g in zip(corpus, got):
        if "expect" in o and dec(g) != o["expect"]:
            ctx.oracle_fail(o.get("why", "corpus witness"), "convert\t%s" % vlib.enc_text(o["src"]), dec(g), o["expect"],
                            input_text=o["src"])

    # ---- the documented vocabulary (command.md: rows `| word | description (="mml") |`): every documented word converts to
    #      its documented MML.  The documentation generator cuts the MML at its first ',' or ')', so the documented text is a
    #      PREFIX of the converted one; the row of デクレッシェンド is stale (it still shows the text from before repo fix e64c310). ----
    doc = re.findall(r'^\| (\S+) \| .*?\(="(.*)\) \|\s*$', open(os.path.join(vlib.REPO, "command.md"), encoding="utf-8").read(), re.M)
    # (rows whose documented text contains a parenthesis are garbled by the documentation generator - 音源初期化 reads
    #  "System.MeasureShift(1ResetGM;Time(1:1:0TrackSync;" - and are left out)
    doc = [(w, m[:-1] if m.endswith('"') else m) for w, m in doc if w not in ("デクレッシェンド",) and "(" not in m]
    if len(doc) < 60:
        ctx.proof_problems.append("command.md: fewer than 60 vocabulary rows with (=\"..\") found - the documented-vocabulary oracle has nothing to check")
    got = R.convert_pairs([w for w, _ in doc], "documented_vocabulary")
    for (w, m), g in zip(doc, got):
        if not dec(g).strip().startswith(m.strip()):
            ctx.oracle_fail("a documented vocabulary word does not convert to its documented MML (command.md)", "convert\t%s" % vlib.enc_text(w), dec(g), m + "...",
                            input_text=w)

    # ---- (a) every row, every word/extension pair, random readings ----
    per_row = []
    for r in rows:
        per_row.append([r])
        per_row.append([r, "|"])
        per_row.append([r, rng.choice(rows)])
        per_row.append([rng.choice(rows), r, rng.choice(ASCII_PLAIN)])
    ext = [(a, b) for a in rows for b in rows if a[0] != b[0] and b[0].startswith(a[0])]
    for a, b in ext:
        tail = b[0][len(a[0]):]
        per_row += [[a], [b], [a, b], [b, a], [a] + list(tail[:-1]), [a] + list(tail), [a, "4"] + list(tail), [b, a] + list(tail)]
    run_readings(ctx, R, rows, per_row, "vocabulary_rows")
    n = 1500 if quick else 60000
    run_readings(ctx, R, rows, [gen_reading(rng, rows) for _ in range(n)], "readings")

    # ---- definitions and verbatim blocks: chain oracle ----
    n = 1200 if quick else 50000
    chains = [c for c in (gen_chain(rng, rows) for _ in range(n)) if c]
    srcs = ["".join(t for _, _, t in c) for c in chains]
    nt = [s if (len(c) >= 2 and any(k != "b" for k, _, _ in c)) else None for c, s in zip(chains, srcs)]
    got = R.convert_pairs(srcs, "chains", nt)
    want = ctx.model(["chain\t%s" % enc_chain(c) for c in chains])
    want = [None if w.startswith("BAD") else w for w in want]
    ctx.dist["chain_oracle_applied"] = sum(1 for w in want if w is not None)
    R.expect("definitions apply from their point on / strings and comments are verbatim: convert differs from the "
             "specification", srcs, got, want, "chains")
    for s, g in list(zip(srcs, got))[:3]:
        ctx.sample({"text": s, "convert": dec(g)})
    # the ENTRY POINTS apply the conversion: compile(src) is lex + exec + generate of convert(src), also for sources that are
    # pure ASCII apart from their own definitions
    ascii_defs = ["~{kick}={n36,}~{snare}={n38,} l8 kick snare kick kick snare", "~{Do}={c}~{Re}={d}~{Mi}={e} o5 l4 Do Re Mi Do",
                  "~{x}={c4} x x ~{x}={d8} x", "l4 ~{zz}={e} c zz d",
                  "~{kick}={n36,\n}\n~{sn\nare}={n38,} l8 kick sn\nare kick", "~ /*\n\n*/ {Do} = /*\n*/ {c\n}\nl4 Do d Do ~{}={\n} e ~ \n f"]
    pick = [i for i in range(len(srcs)) if want[i] is not None and got[i] is not None and "\x00" not in srcs[i]][: (250 if quick else 8000)]
    esrc = [srcs[i] for i in pick] + ascii_defs
    conv = [dec(got[i]) for i in pick] + [dec(g) for g in R.convert_pairs(ascii_defs, "chains")]
    ga = ctx.impl(["compile\t%s\t0" % vlib.enc_text(x) for x in esrc], stall=15)
    gb = ctx.impl(["compile_lex\t%s" % vlib.enc_text(x) for x in conv], stall=15)
    for x, a, b in zip(esrc, ga, gb):
        ctx.count("entry_points_convert", x if "~{" in x else None)
        if bad_result(a) or bad_result(b):
            continue
        if a.split("\t")[0] != b.split("\t")[0]:
            ctx.oracle_fail("compile(src) differs from the pipeline run on convert(src): the entry point does not apply the conversion",
                            "compile\t%s\t0" % vlib.enc_text(x), a[:300], b[:300], input_text=x)

    # ---- malformed definitions, unterminated strings/comments, junk, random Unicode: correspondence + totality ----
    n = 1500 if quick else 60000
    junk = []
    for _ in range(n):
        k = rng.random()
        if k < 0.35:
            junk.append(gen_junk(rng, rows))
        elif k < 0.55:
            nme, val, txt = gen_def(rng)
            cut = rng.choice([txt, txt[:rng.randrange(0, len(txt) + 1)], txt.replace("=", "", 1), txt.replace("}", "", 1)])
            junk.append(pieces_src(gen_reading(rng, rows, 2)) + cut + pieces_src(gen_reading(rng, rows, 2)) + rng.choice(["", nme, nme + nme]))
        elif k < 0.7:
            blk = closed_block(rng, rows)
            junk.append(pieces_src(gen_reading(rng, rows, 2)) + blk[:rng.randrange(0, len(blk) + 1)] + rng.choice(["", "ド", "\n", "*/", "\"}"]))
        elif k < 0.85:
            junk.append(gen_unicode(rng))
        else:
            junk.append(mmlgen.junk_program(rng))
    R.convert_pairs(junk, "junk")

    # ---- (b) ASCII identity ----
    n = 400 if quick else 15000
    progs = []
    for _ in range(n):
        s = mmlgen.core_program(rng)
        if rng.random() < 0.3:
            i = rng.randrange(0, len(s) + 1)
            s = s[:i] + closed_block(rng, rows) + s[i:]
        if rng.random() < 0.3:
            s = rng.choice([" ", "\n\n", "\t", "\r\n"]) + s + rng.choice([" ", "\n", " \n\t"])
        progs.append(s)
    progs += ["", " ", "c", "{\"\"}", "/**/", "//\n", "a{b}c", "a/b", "{ \"x\" }", "/ /", "c /* ド */ d // レ\ne {\"ミ\"}"]
    got = R.convert_pairs(progs, "ascii_mml")
    inside = [i for i, s in enumerate(progs) if passthru_ok(s)]
    ctx.dist["ascii_identity_applied"] = len(inside)
    st = ctx.model(["strip\t%s" % vlib.enc_text(progs[i]) for i in inside])
    R.expect("ASCII MML without '~' is changed by convert (beyond trailing white space)", [progs[i] for i in inside],
             [got[i] for i in inside], st, "ascii_mml")

    # ---- (c) Japanese source and its transliteration compile to the same file ----
    n = 250 if quick else 6000
    readings = [gen_music(rng, byname) for _ in range(n)] + [gen_reading(rng, rows, ascii_out=True) for _ in range(n // 2)]
    spec = ctx.model(["translit\t%s" % enc_pieces(ps) for ps in readings])
    pairs = []
    for ps, r in zip(readings, spec):
        f = r.split("\t")
        if len(f) == 4 and f[0] == "SEG":
            tr = vlib.dec_text(f[3])
            if all(ord(c) < 128 for c in tr):
                pairs.append((vlib.dec_text(f[1]), tr))
    lines = []
    for j, t in pairs:
        lines.append("compile\t%s\t0" % vlib.enc_text(j))
        lines.append("compile\t%s\t0" % vlib.enc_text(t))
    got = ctx.impl(lines)
    for k, (j, t) in enumerate(pairs):
        a, b = got[2 * k], got[2 * k + 1]
        notes = a.count("90") if not bad_result(a) else 0
        ctx.count("compile_pairs", (j if notes >= 2 else None))
        if a != b:
            ctx.oracle_fail("a Japanese source and its transliteration compile differently", lines[2 * k][:2000],
                            a[:400], b[:400], input_text=j + "\n--- transliteration ---\n" + t)
    if pairs:
        ctx.sample({"japanese": pairs[0][0], "transliteration": pairs[0][1], "bytes": got[0][:120]})

    # ---- (d) the width map, code point by code point, through |c| and c alone ----
    edges = list(range(0, 0x100)) + list(range(0x1670, 0x1690)) + list(range(0x1FF0, 0x2070)) + list(range(0x2FF0, 0x3010)) + \
        list(range(0xFEF0, 0xFF70)) + [0xD7FF, 0xE000, 0xFFFD, 0xFFFF, 0x10000, 0x10FFFF, 0x180E]
    if quick:
        cps = edges + [rng.randrange(0, 0x110000) for _ in range(2500)] + [ord(r[0]) for r in rows if len(r[0]) == 1]
    else:
        cps = list(range(0, 0x110000))
    cps = [c for c in cps if not (0xD800 <= c <= 0xDFFF)]
    wm = ctx.model(["width_map\t%d" % c for c in cps])
    srcs, want = [], []
    for c, w in zip(cps, wm):
        chz = int(w)
        if chz in (126, 0x203E):
            inner = ""                      # a definition marker followed by no '{' is dropped
        elif chr(c) in byname:
            inner = byname[chr(c)]
        else:
            inner = chr(chz)
        srcs.append("|" + chr(c) + "|")
        want.append(vlib.enc_text("|" + inner + "|"))
        srcs.append(chr(c))
        want.append(None)
    alone = [i for i in range(1, len(srcs), 2)]
    inners = [vlib.dec_text(want[i - 1])[1:-1] for i in alone]
    stripped = ctx.model(["strip\t%s" % vlib.enc_text(s) for s in inners])
    for i, s in zip(alone, stripped):
        want[i] = s
    got = R.convert_pairs(srcs, "code_points")
    R.expect("width map / trim of a single code point differs from the specification", srcs, got, want, "code_points")


def replay(ctx, obj):
    f = obj.get("failure") or {}
    line = f.get("case")
    if isinstance(line, str):
        print("replay implementation:", ctx.impl([line]), "model:", ctx.model([line]), "expected:", f.get("expected"))
    for d in obj.get("broken_correspondence", [])[:3]:
        c = d.get("case")
        if isinstance(c, dict) and "text" in c:
            l = "convert\t%s" % vlib.enc_text(c["text"])
            print("replay correspondence:", repr(c["text"]), "implementation:", ctx.impl([l]), "model:", ctx.model([l]))
