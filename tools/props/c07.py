"""C07 - compilation never crashes or hangs, whatever the input text.
Theorems: props/C07.v (totality of the modelled stages: the model functions are total Gallina functions whose
only non-value outcomes are Panic / OutOfFuel, and the theorems show those do not occur). Correspondence: where
the model returns a value the implementation returns the same value (no panic, within the watchdog).
Search (not proof): arbitrary Unicode, bounded-exhaustive sequences of lexical fragments, grammar programs with
arguments dropped / duplicated / out of range, mutations and truncations of the sample songs."""
import itertools, os, re
import vlib, mmlgen

COQ_TARGET = "props/C07.v"
THEOREMS = ["C07_numerals_bounded", "C07_hex_numerals_bounded", "C07_saturation_is_cap", "C07_writer_total",
            "C07_lex_terminates_partial", "C07_lex_f_terminates_partial", "C07_lex_f_terminates_length", "C07_lex_terminates_initial",
            "C07_builtin_rhythm_inert", "C07_lex_keeps_rhythm_table", "C07_reader_suffix", "C07_lex_terminates_refuted",
            "C07_lex_rhythm_recursion_diverges",
            "C07_compile_never_panics", "C07_lex_never_panics", "C07_exec_never_panics", "C07_compile_outcomes",
            "C07_compile_fuel_partial", "C07_exec_fuel_partial",
            "C07_compile_fuel_loops", "C07_exec_fuel_loops"]
RULE = ("every sequence of up to k lexical fragments from the language's alphabet (k=2 quick over the full alphabet, "
        "k=3 over a reduced alphabet; thorough k=3 full), random junk text incl. non-ASCII, grammar programs with arguments "
        "dropped/duplicated/out of range (every command name of the implementation's table x 16 argument shapes, every reservation head x "
        "reservation command x argument shape, each followed by notes; logs crossing the 4096-character limit with multi-byte characters at every alignment; integer edge values (isize::MIN / MAX reached by arithmetic) under every binary operator and as command values, signs in front of empty numerals wherever a number is read; every character of U+0000..U+00FF and of the range boundaries the code tests in 22..32 one-character contexts), truncations and mutations of /repo/samples, programs of the extended "
        "pipeline fragment (mmlgen.ext_program: controllers, bends, RPN, reservations, PLAY, Str); non-trivial = distinct input of >= 2 fragments")
TRUSTED = ["watchdog: a case that makes no progress for 15 s counts as a hang",
           "stack overflow / allocation failure / 64-bit overflow checks live in the runtime: observed on the implementation (debug build), not provable on the model"]
ASSUMES = ["work the program explicitly requests (huge repeat counts, lengths, track numbers > 999, unbounded recursion) is excluded as the property says",
           "lexer termination (C07_lex_terminates_partial) is proved under lex_safe: inert rhythm table and no '$' in the source, or no 'R' in the source; "
           "a rhythm macro whose text calls Rhythm on itself recurses for ever (C07_lex_rhythm_recursion_diverges; the implementation overflows its stack) - "
           "unbounded user recursion, excluded by the property"]

FRAGS = ["c", "d4", "r", "l8", "o", "v", "q", "t", "n60", "n", ",", "[", "]", ":", "[0", "'", "{", "}", "Sub{", "Div{", "(", ")", ">", "<",
         "&", "^", ".", "%", "-", "+", "#", "*", "=", "!", "?", "@", "@5", "y", "y1,", "p", "0", "99999999999999999999", "$", "$FF", "0x",
         "TR(", "TR(2)", "CH(", "TimeBase(", "Tempo(", "TimeSignature(4)", "TimeSignature(", "TIME(", "TIME(1:", "KF", "KF+(", "PLAY(", "PLAY({c},",
         "SysEx$=", "SysEx(", "MasterVolume(", "MasterVolume(100)", "ResetGM", "INT A", "INT A=", "STR S={", "ARRAY B=(1,", "PRINT(", "PRINT(5%0)",
         "IF(", "IF(1){", "ELSE{", "FOR(", "FOR(INT I=0;I<3;I++){", "WHILE(1){c", "FUNCTION F(", "FUNCTION F(A){", "RETURN(", "F(", "Random(", "Random(0)",
         "RandomSelect(", "MID({abc},5,", "MID(", "SizeOf(", "CHR(", "REPLACE(", "#A={", "#A", "#?1", "$a{", "Rhythm{", "Rhythm{b", ".onNote(", ".onTime(",
         "v.onTime(0,", "M.Frequency(0)", "M.onTime(0,127,10)", ".Random", "v.Random=", "v__1", "v_", "q__", "t__", "~{", "~{}={x}", "~{a}={", "~{ }={}", "~{ }={x}", "~{\t}={c}", "~{ あ }={d}", "ドレミ cde", "//", "/*", "*/",
         "{\"", "\"}", "\n", " ", ";", "|", "End", "Slur(", "Slur(3)", "c&", "&", "PB(", "PB.onTime(", "p.onTime(", "BR(", "RPN(", "NRPN(", "DirectSMF(",
         "NoteOn(", "Include(", "Key(", "TrackKey(", "PlayFrom(", "MeasureShift(", "System.", "System.vAdd(", "vAdd(", "ド", "レ", "音符", "【", "「", "　", "Ｃ",
         "あ", "　", "﻿", "\U0001F600", "\x00", "\\", "`", "\"", "1", ")", "(1)", "=1", "(1,2,3)", "{x}", "(-1)", "(99999)"]
CORE = ["c", "[", "]", ":", "'", "{", "}", "Sub{", "(", ")", "&", "^", "n", ",", "y", "@", "TR(", "PLAY(", "IF(", "FOR(", "WHILE(0){", "FUNCTION F(",
        "#A={", "#A", "Rhythm{", ".onNote(", "~{", "//", "/*", "{\"", "\n", "End", "INT A=", "PRINT(", "$a{", "1", "=", "-", "%", "!", "ド"]


TRACK_ARG = re.compile(r"(TR|Track|TRACK)\s*[(=]\s*(\d{1,3})\s*\)?")


def requested_work(s):
    """the property excludes work the program explicitly requests: track numbers outside 0..999 (or computed),
    repeat counts / lengths / iteration nests of absurd size, unbounded recursion"""
    for m in re.finditer(r"(TR|Track|TRACK|ＴＲ)", s):
        rest = s[m.end():m.end() + 12]
        mm = re.match(r"\s*[(=]\s*(\d{1,3})\s*[);\s]", rest + " ")
        if not mm:
            return True
    if re.search(r"\d{5,}", s):
        return True      # a length / count of five or more digits (Fadein(99999) = 99999 bars = a 38 MB file, in linear time)
    if len(re.findall(r"WHILE|While|FOR|For\b", s)) >= 2:
        return True
    if re.search(r"FUNCTION|Function", s):
        return True
    if rhythm_macro_calls_rhythm(s):
        return True
    return False


def rhythm_macro_calls_rhythm(s):
    """unbounded user recursion through the rhythm macros: a definition `$x{body}` whose body can spell a Rhythm command
    (holds 'R' or full-width 'R'); Rhythm{...x...} lexes the EXPANSION of its block, so such a body re-enters itself
    (`$a{Rhythm{a}} Rhythm{a}` overflows the stack; props/C07.v C07_lex_rhythm_recursion_diverges is the model's side of it)"""
    for m in re.finditer(r"[$\uFF04].[ \t]*=?[ \t]*\{", s, re.S):
        depth, i = 1, m.end()
        while i < len(s) and depth > 0:
            if s[i] == "{":
                depth += 1
            elif s[i] == "}":
                depth -= 1
            i += 1
        if re.search("[R\uFF32]", s[m.end():i]):
            return True
    return False


def command_names():
    """every command name of the implementation's system-function table, read from /repo on every run"""
    repo = os.environ.get("SAKURA_REPO", "/repo")
    try:
        text = open(os.path.join(repo, "src", "mml_def.rs"), encoding="utf-8").read()
    except OSError:
        return []
    m = re.search(r"//<SYSTEM_FUNCTION>(.*?)//</SYSTEM_FUNCTION>", text, re.S)
    names = []
    for line in (m.group(1) if m else text).split("\n"):
        st = line.strip()
        if st.startswith("//"):
            continue
        mm = re.match(r'sysfunc_(?:cc_|rpn_)?add!\(\s*sf\s*,\s*"([^"]+)"', st)
        if mm:
            names.append(mm.group(1))
    return list(dict.fromkeys(names))


ARG_SHAPES = ["", "()", "(0)", "(-1)", "(1,2,3)", "=", "=0;", "(0,0,0,0,0,0,0,0)", "({x})", "(99999)", "(,)", "(1,", "(128,128)", "=-5;", "(c)", "(1:2:3)"]
RESERVE_HEADS = ["v", "q", "t", "o", "l", "h", "y1", "y7", "M", "V", "P", "EP", "PS", "REV", "CHO", "PB", "p", "BR", "PT", "PVS", "Tempo"]
RESERVE_CMDS = ["onNote", "N", "onTime", "T", "onCycle", "C", "onNoteWave", "W", "onNoteWaveEx", "WE", "onNoteWaveR", "WR", "Random", "R",
                "Frequency", "Delay", "Repeat", "Range", "Sine", "S", "x"]
TAILS = [" c", " c d e", " n60 r 'ce' c&d", " r4 c", " [3 c]", " TR(2) c"]


def grammar_stream(rng, quick):
    """grammar-derived programs with arguments dropped, duplicated or out of range: every command name of the table x
    every argument shape, and every reservation head x reservation command x argument shape, each followed by notes
    (several defects only show when the NEXT note is played)"""
    out = []
    for n in command_names():
        for a in ARG_SHAPES:
            out.append(n + a + rng.choice(TAILS))
    for h in RESERVE_HEADS:
        for c in RESERVE_CMDS:
            for a in ARG_SHAPES:
                out.append("%s.%s%s%s" % (h, c, a, rng.choice(TAILS)))
    # a time base of 1, 2, 3 (asked for; whatever the implementation makes of it) in front of every command with time-valued arguments
    tiny = []
    for tb in [1, 2, 3]:
        for n in command_names():
            for a in (["(120,60,!1)", "(!1)"] if quick else ["(120,60,!1)", "(60,!1)", "(0,127,!1)", "(1)", "(!1)"]):
                tiny.append("TimeBase(%d) %s%s c d" % (tb, n, a))
    if quick:
        # the reservation grid in full (it is where "the next note" matters), the command grid sampled
        res = [s for s in out if re.match(r"[A-Za-z0-9]+\.", s)]
        cmd = [s for s in out if not re.match(r"[A-Za-z0-9]+\.", s)]
        rng.shuffle(cmd)
        out = res + cmd[:2500]
    return tiny + out


CHAR_CONTEXTS = ["%s", "Rhythm{%s}", "Rhythm{b4 %s s4}", "$%s{n36,}", "$%s{n36,} Rhythm{%s}", "c%s", "l%s", "@%s", "#%s={c} #%s", "~{%s}={c} %s",
                 "v.%s()", "KF%s(c)", "y%s,1", "TR(%s)", "PRINT({%s})", "'c%s'", "[%s c]", "o%s", "{c%s}", "$a{%s} Rhythm{a}", "Sub{%s}",
                 "STR S={%s} PRINT(S)", "TrackName={\"%s\"}", "v%s", "q%s", "n%s", "c,%s", "%s=1", "%s(1)", "IF(%s){c}", "c&%s", "/*%s*/"]


def char_context_stream(quick):
    """every character of the first 256 code points (and the boundaries of the ranges the code tests or indexes by) in every
    context where the code looks at a single character: tables indexed by a character, range tests, prev()/re-read sites"""
    cps = list(range(0, 0x100)) + [0x100, 0x2FF, 0x3000, 0x3001, 0x3040, 0x30FF, 0xFF00, 0xFF01, 0xFF10, 0xFF21, 0xFF3F, 0xFF40, 0xFF5E, 0xFF5F,
                                    0xFFFD, 0xFFFF, 0x10000, 0x1F600, 0x10FFFF, 0xD7FF, 0xE000]
    ctxs = CHAR_CONTEXTS if not quick else CHAR_CONTEXTS[:22]
    out = []
    for cp in cps:
        ch = chr(cp)
        for t in ctxs:
            out.append(t.replace("%s", ch) + " c")
    return out


def array_stream():
    """arrays read and written at every index around their bounds (-2 .. length + 2, huge, negative huge), in every place an
    element can be used; built from literals, from MakeArray-style expressions and filled in loops"""
    out = []
    for n in [0, 1, 2, 3, 8]:
        elems = ",".join(str(60 + i) for i in range(n))
        decl = "ARRAY A=(%s) " % elems
        for i in list(range(-2, n + 3)) + [127, 2147483647, -2147483647]:
            for use in ["PRINT(A(%d))", "n(A(%d))", "INT X=A(%d); PRINT(X)", "A(%d)=5; PRINT(A)", "PRINT(A(%d)+1)", "IF(A(%d)){c}", "PRINT(SizeOf(A),A(%d))",
                        "v(A(%d)) c", "INT I=%d; PRINT(A(I))"]:
                out.append(decl + use % i + " c")
        out.append(decl + "FOR(INT I=0;I<=SizeOf(A);I++){ n(A(I)) } c")
        out.append(decl + "FOR(INT I=0-1;I<SizeOf(A)+2;I++){ PRINT(A(I)) } c")
    out += ["ARRAY A=() PRINT(A(0)) c", "ARRAY A PRINT(A(0)) c", "ARRAY A=(1,(2,3),4) PRINT(A(1)) PRINT(A(3)) c", "ARRAY A=(1,2) ARRAY B=A PRINT(B(2)) c",
            "STR S={abc} PRINT(S(3)) PRINT(S(0)) PRINT(S(-1)) c", "INT N=5 PRINT(N(1)) c"]
    return out


def fullwidth_stream():
    """the arms that step back and re-read a command (prev() + read_upper_command / a word reader) must re-read the CONVERTED
    character: every command letter and every command word with its first letter, or all of it, in full-width characters, in
    front of every suffix that makes an arm look ahead"""
    fw = lambda s_: "".join(chr(ord(c) + 0xFEE0) if 0x21 <= ord(c) <= 0x7E else c for c in s_)
    out = []
    for letter in "abcdefgnrlopqvtyhijkmsuwxz":
        for suf in ["Add=3", "2Add=3", "Add(3)", ".onNote(1,2)", ".Random=3", ".onTime(0,9,!4)", "4", "", "(1)", "=3", "++", "--", "1,2"]:
            out.append(fw(letter) + suf + " c")
            out.append("c " + fw(letter) + suf + " c")
    for name in command_names():
        for arg in ["(1)", "=1;", "", "{c}"]:
            out.append(fw(name[0]) + name[1:] + arg + " c")
            out.append(fw(name) + arg + " c")
    for mark in "#$@[]:'{}()<>`\"|;/*~!?&":
        out.append(fw(mark) + "A={c} " + fw(mark) + "A c")
        out.append("c" + fw(mark) + "d")
    return out


def overflow_stream():
    """integer edge values reached by arithmetic (numerals saturate at 2^31-1, so they are built by squaring), every binary
    operator between every pair of them, as values of commands too; signs in front of empty / odd numerals after every
    place a number is read"""
    # (the names must not be reserved words: P, Q, ... are commands)
    pre = "Int Zp=2147483647+1; Int Zq=Zp*Zp; Int Zmn=Zq*2; Int Zmx=Zmn-1; Int Zm1=0-1; Int Zz0=0; Int Zone=1; "
    vals = ["Zmn", "Zmx", "Zq", "Zm1", "Zz0", "Zone", "Zp", "(0-Zmx)", "(Zmn+1)"]
    out = [pre + "Print(Zmn) Print(Zmx)"]
    for a in vals:
        for b in vals:
            for op in ["+", "-", "*", "/", "%", "<", "==", "&", "|"]:
                out.append(pre + "Print(%s%s%s) c" % (a, op, b))
    for a in vals:
        for cmd in ["l%%%s c", "v%s c", "o%s c", "q%s c", "t%s c", "TR(%s) c", "Tempo(%s) c", "y7,%s c", "c%%%s", "n%s", "TIME(%s)", "[%s c]",
                    "PB(%s) c", "@%s c", "KeyShift(%s) c", "Int X=%s; X++; X++; Print(X)", "Int X=%s; X--; X--; Print(X)", "Print(0-%s)",
                    "Print(MID({abc},%s,2))", "Print(CHR(%s))", "Print(Random(%s))", "r%%%s c", "TimeBase(%s) c", "v.onTime(0,127,%s) c"]:
            out.append(pre + cmd.replace("%s", a).replace("%%", "%"))
    # negative repeat counts in every form the count reader takes (a count is not work the program asks for when it is negative)
    for v in ["-1", "-2", "-100", "0-1", "(0-1)", "Zm1", "Zmn", "-2147483648"]:
        for form in ["[(%s) c] d", "[=%s c] d", "[%s c] d", "[ (%s) c : e] d", "[2 [(%s) c] e] d"]:
            out.append(pre + form.replace("%s", v))
    # an extreme time pointer / step followed by everything that does arithmetic on it
    for a in ["Zmx", "Zmn", "(0-Zmx)", "Zq"]:
        for cmd in ["TIME(%s) c", "TIME(%s) r c", "TIME(%s) 'ce'", "TIME(%s) Sub{c}", "TIME(%s) c&d", "TIME(%s) c&c d", "TIME(%s) y1.onTime(0,127,96) c",
                    "TIME(%s) TempoChange(120,60,96)", "TIME(%s) Div{cde}", "TIME(%s) {cde}4", "TIME(0-%s-1) c PlayFrom(%s)", "TIME(%s) c ? d", "c ? TIME(%s) d",
                    "o.Random=%s c", "Print(Random(0-%s,%s))", "qAdd(%s) q++ c", "vAdd(%s) v++ c", "TempoChange(%s,0-%s-1,96)", "System.MeasureShift=%s TIME(1:1:0)",
                    "TIME(1:%s:0)", "TIME(%s:1:0)", "TIME(1:1:%s) c", "MasterBalance(%s)", "TIME(%s) PB.onTime(0,100,96) c", "TIME(%s) v.onTime(0,127,96) c d",
                    "TIME(%s) [3 c]", "TIME(%s) Slur(0) c&e", "TIME(%s) Slur(1) c&e", "TIME(%s) Slur(3) c&e g", "TIME(%s) n60", "TIME(%s) M.onNote(1,2) c d",
                    "TIME(%s) TrackSync TR(2) c", "TIME(%s) PLAY({c},{d})", "TIME(%s) Cresc(!1,1,100) c", "c t%s c", "c,,,%s d", "TIME(%s) l%%%s c", "r%%%s r%%%s c"]:
            out.append(pre + cmd.replace("%s", a).replace("%%", "%"))
    odd = ["-$", "-0x", "-$z", "-0xz", "+-$", "-", "--1", "-0o", "-0o9", "$", "0x", "-$-1", "-$FFFFFFFFFFFFFFFFFFFF"]
    for o in odd:
        for ctxt in ["c,,,%s", "c4,,,%s", "n60,,,,%s", "c,%s", "c,,%s", "v%s c", "l%s c", "o%s c", "q%s c", "t%s c", "y1,%s c", "TR(%s) c",
                     "@%s c", "c%%%s", "r%s", "[%s c]", "Tempo(%s) c", "PB(%s) c", "TIME(%s:%s:%s) c", "Print(%s)", "KF%s(c)", "'ce'%s", "'ce',%s"]:
            out.append(ctxt.replace("%s", o).replace("%%", "%"))
    return out


def endless_loop_stream():
    """loops whose condition never becomes false: every pass counts against the iteration limit however it ends (falling
    off the end of the body, CONTINUE, CONTINUE / BREAK inside an IF or an inner loop), so compile returns"""
    bodies = ["", "c", "CONTINUE", "IF(1){CONTINUE}", "IF(1){CONTINUE} c", "c CONTINUE d", "IF(0){BREAK} CONTINUE", "IF(1){ IF(1){ CONTINUE } }",
              "Int Q=1; CONTINUE", "FOR(INT J=0;J<2;J++){ CONTINUE }", "FOR(INT J=0;J<2;J++){ BREAK } CONTINUE", "PRINT(1) CONTINUE"]
    out = []
    for b in bodies:
        out += ["WHILE(1){ %s } d" % b, "FOR(;;){ %s } d" % b, "INT I=0; FOR(I=0;1;I++){ %s } d" % b, "INT I=0; WHILE(I<10){ IF(I=5){CONTINUE} I++; %s } d" % b,
                "FUNCTION F(){ WHILE(1){ %s } } F d" % b]
    return out


def long_log_stream(rng, quick):
    """logs that cross the 4096-character limit with characters of 1, 2, 3 and 4 UTF-8 bytes, at every alignment of the cut"""
    out = []
    for ch in ["a", "é", "あ", "😀"]:
        for pad in (range(0, 5) if quick else range(0, 12)):
            out.append("Print({%s%s})" % ("x" * pad, ch * rng.choice([1400, 2100, 4100, 4096])))
            k = rng.choice([60, 80, 99, 120])
            out.append("Int I=0; FOR(I=0;I<%d;I++){ Print({%s%s}) }" % (k, "x" * pad, ch * rng.choice([14, 25, 40, 60])))
        out.append("".join("%s\n" % (ch * 30) for _ in range(40)))      # unknown-character errors quoting the text
    return out


def run(ctx):
    rng = ctx.rng
    srcs = array_stream() + fullwidth_stream() + endless_loop_stream() + long_log_stream(rng, ctx.tier == "quick") + overflow_stream() + grammar_stream(rng, ctx.tier == "quick") + char_context_stream(ctx.tier == "quick")
    ctx.dist["grammar_and_char_streams"] = len(srcs)
    if ctx.tier == "quick":
        srcs += ["".join(p) for p in itertools.product(FRAGS, repeat=1)]
        srcs += ["".join(p) for p in itertools.product(FRAGS, repeat=2)]
        tri = ["".join(p) for p in itertools.product(CORE, repeat=3)]
        rng.shuffle(tri)
        srcs += tri[:12000]
    else:
        srcs += ["".join(p) for p in itertools.product(FRAGS, repeat=2)]
        tri = ["".join(p) for p in itertools.product(FRAGS, repeat=3)]
        rng.shuffle(tri)
        srcs += tri[:600000]
        srcs += ["".join(p) for p in itertools.product(CORE, repeat=4)][:400000]
    n = 4000 if ctx.tier == "quick" else 100000
    for _ in range(n):
        k = rng.random()
        if k < 0.35:
            srcs.append(mmlgen.junk_program(rng))
        elif k < 0.6:
            srcs.append(mmlgen.mutate(rng, mmlgen.core_program(rng)))
        elif k < 0.7:
            srcs.append("".join(chr(rng.choice([rng.randrange(32, 127), rng.randrange(0x80, 0x3100), rng.randrange(0xFF00, 0xFFF0),
                                                 rng.randrange(0x1F000, 0x1FA00), rng.randrange(1, 32)])) for _ in range(rng.randrange(1, 20))))
        else:
            ss = mmlgen.samples()
            s = rng.choice(ss) if ss else "c"
            for _ in range(rng.randrange(1, 4)):
                s = mmlgen.mutate(rng, s)
            srcs.append(s)
    srcs += mmlgen.samples()
    # programs of the extended pipeline fragment (controllers, bends, reservations, PLAY, Str): in FRONT, so that they are
    # part of the correspondence subset below in every tier
    srcs = [mmlgen.ext_program(rng) for _ in range(800 if ctx.tier == "quick" else 30000)] + srcs
    # corpus of repaired crash/hang witnesses
    import json, os
    p = os.path.join(vlib.VERIF, "corpus", "C07.jsonl")
    if os.path.exists(p):
        srcs = [json.loads(l)["src"] for l in open(p) if l.strip()] + srcs
    srcs = list(dict.fromkeys(srcs))
    # in batches: once a handful of crashing inputs is known the rest of the search is skipped (each hang costs a watchdog period)
    found = 0
    for b in range(0, len(srcs), 3000):
        part = srcs[b:b + 3000]
        got = ctx.impl(["compile\t%s\t0" % vlib.enc_text(s) for s in part], stall=8)
        for s, g in zip(part, got):
            ctx.count("inputs", s if len(s) >= 2 else None)
            if g in ("HANG", "ABORT") and requested_work(s):
                ctx.dist["excluded_requested_work"] = ctx.dist.get("excluded_requested_work", 0) + 1
                continue
            if g in ("PANIC", "HANG", "ABORT", "MISSING"):
                found += 1
                ctx.oracle_fail("compile() %s" % {"PANIC": "panics", "HANG": "does not return (watchdog)", "ABORT": "aborts the process",
                                                  "MISSING": "gave no result"}[g], "compile\t%s" % vlib.enc_text(s), g, "returns bytes and a log",
                                input_text=s)
        if found >= 5:
            ctx.notes.append("search stopped after %d crashing inputs (batch %d of %d)" % (found, b // 3000 + 1, (len(srcs) + 2999) // 3000))
            break
    for s in srcs[:5]:
        ctx.sample({"source": s[:100]})
    # correspondence: wherever the core model returns a value, the implementation returns the same value
    sub = [s for s in srcs if len(s) < 200][: (3000 if ctx.tier == "quick" else 60000)]
    lines = ["compile_lex\t%s" % vlib.enc_text(s) for s in sub]
    got = ctx.impl(lines, stall=8)
    mod = ctx.model(["compile_core\t%s" % vlib.enc_text(s) for s in sub])
    for s, g, m in zip(sub, got, mod):
        if m.startswith("UNSUPPORTED"):
            ctx.unsupported += 1
        elif m in ("PANIC", "OUTOFFUEL"):
            ctx.dist["model_" + m] = ctx.dist.get("model_" + m, 0) + 1
        elif g != m:
            ctx.disagree("compile (lex/exec/generate)", s, g[:300], m[:300])


def replay(ctx, obj):
    f = obj.get("failure") or {}
    if f.get("input") is not None:
        print(ctx.impl(["compile\t%s\t0" % vlib.enc_text(f["input"])], stall=15))


def still_fails(ctx, src):
    if requested_work(src):
        return False
    return ctx.impl(["compile\t%s\t0" % vlib.enc_text(src)], stall=6)[0] in ("PANIC", "HANG", "ABORT")
