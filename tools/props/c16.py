"""C16 - onNote/onCycle/onTime reservations and .Random act on the right notes and ticks.
Theorems: props/C16.v (model/Reserve.v + model/F32.v).
Correspondence (unit level, public Track/Song methods): f32 arithmetic (f32ops), calc_{v,q,t,o,l}_on_note,
calc_v_on_time, write_cc_on_time, write_pb_on_time, set/remove/write_cc_on_note(_wave), rand, calc_rand_value; and the
runner's use of them (exec_note, exec_note_n, reservation arms; model exec_cmds) against the events pushed by lex+exec.
Oracle (compile level, implementation only, independent of the model): sources with reservations are compiled,
the file is decoded by the extracted SMF specification decoder (core driver) and note velocities / gates /
start ticks / keys / controller and bend events are compared with expectations computed here from the property
text."""
import json, os, re
import vlib

COQ_TARGET = "props/C16.v"
DRIVERS = ["reserve", "core"]
THEOREMS = ["C16_on_note", "C16_on_note_nth", "C16_on_cycle", "C16_cancel", "C16_arms", "C16_cc_on_note", "C16_cc_on_note_set",
            "C16_ramp_ticks", "C16_pb_ramp_ticks", "C16_ticks_exact", "C16_ramp_start", "C16_ramp_range", "C16_pb_ramp_range",
            "C16_ramp_accuracy", "C16_ramp_accuracy_cc", "C16_ramp_accuracy_bend", "C16_ramp_accuracy_any_len",
            "C16_v_on_time", "C16_v_on_time_locate", "C16_random_width", "C16_random_reproducible", "C16_random_nonzero"]
RULE = ("unit level: random value lists (None / empty / 1..8 values), cycle flag, start index, 0..14 calls with random "
        "defaults; segment lists of 1..3 (lo,hi,len) with len -3..400, frequencies -2..12, time bases 16..480, "
        "controller op sequences (set/remove/write/wave), seeds over the whole u32 range, widths -3..40; f32: "
        "thousands of quadruples from a boundary pool and +-20000; command programs (reservation arms, plain commands, "
        "Random widths, lettered/numbered notes, rests) run by the model's exec_cmds against the events pushed by "
        "lex+exec. compile level: generated sources per clause of the "
        "property (onNote/onCycle for v q t o l with lettered and numbered notes on track 1..3, cancellation, "
        "SEQUENCES of reservations on one track (onCycle then onNote, onNote then onCycle, two lists in a row, a plain command in between, run past the end of each list), controller onNote, controller/bend onTime with 1..3 segments and explicit Frequency, v.onTime, x.Random). "
        "non-trivial = distinct case with a non-empty reservation and at least 2 notes / 2 events")
TRUSTED = ["Coq Floats.SpecFloat (binary32 parameters) as the meaning of Rust f32; tied by the f32ops correspondence",
           "isize is 64 bit; 64-bit overflow of index/time arithmetic is not modelled"]
ASSUMES = ["C16_ramp_start is stated for |lo|,|hi-lo| <= 65536 and 0 < len <= 65536 (f32 conversions evaluated by "
           "vm_compute on that range)",
           "C16_v_on_time assumes segment lengths >= 0",
           "numbered notes consume an o.onNote value without changing their absolute pitch (oracle does not assert their key)"]

PITCH = {"c": 0, "d": 2, "e": 4, "f": 5, "g": 7, "a": 9, "b": 11}
POOL = [0, 1, -1, 2, 3, 63, 64, 127, 128, 255, 8191, 8192, 16383, -8192, 96, 48, 480, 16777216, 16777217, 33554431,
        2 ** 31, 2 ** 40 + 12345, -2 ** 50, 2 ** 62, 7, 100]


def ilist(rng, n, lo, hi):
    return ",".join(str(rng.randint(lo, hi)) for _ in range(n)) or "-"


# ------------------------------------------------------------------------------------------------
# (a) unit-level correspondence
# ------------------------------------------------------------------------------------------------
def unit_cases(rng, scale):
    lines = []
    # the witnesses of C16_ramp_accuracy_tight (distance exactly 1 on a short ramp; `<= 1` failing on very long ramps):
    # the model's f32 value is compared with rustc's on exactly these points
    for (lo, hi, j, ln) in [(25, 0, 3, 5), (121, 0, 371738, 713973), (16294, 0, 2213, 4413), (0, 15284, 2462, 4851)]:
        lines.append("f32ops\t%d\t%d\t%d\t%d" % (hi - lo, j, ln, lo))
    for _ in range(2500 * scale):
        pick = lambda: rng.choice(POOL) if rng.random() < 0.4 else rng.randint(-20000, 20000)
        lines.append("f32ops\t%d\t%d\t%d\t%d" % (pick(), pick(), pick(), pick()))
    for _ in range(1500 * scale):
        # ramp-shaped: (hi-lo) * (j/len) + lo
        lo, hi = rng.randint(-9000, 17000), rng.randint(-9000, 17000)
        ln = rng.choice([1, 2, 3, 7, 24, 48, 96, 192, 384, 1920, rng.randint(1, 5000)])
        lines.append("f32ops\t%d\t%d\t%d\t%d" % (hi - lo, rng.randint(0, ln), ln, lo))
    for _ in range(400 * scale):
        w = rng.choice("vqtol")
        vals = rng.choice(["N", "-"]) if rng.random() < 0.15 else ilist(rng, rng.randint(1, 8), -5, 200)
        lines.append("on_note\t%s\t%s\t%d\t%d\t%d\t%s" % (w, vals, rng.randint(0, 1), rng.choice([0, 0, 0, 0, 1, 2, 7, 9, -1, -3]),
                                                        rng.randint(0, 127), ilist(rng, rng.randint(0, 14), -1, 127)))
    for _ in range(300 * scale):
        ia = rng.choice(["N", "-"]) if rng.random() < 0.1 else ilist(rng, rng.choice([3, 3, 6, 9, 4, 5]), -10, 200)
        lines.append("v_on_time\t%d\t%s\t%s\t%d" % (rng.randint(-5, 50), ia, ilist(rng, rng.randint(0, 8), 0, 500), rng.randint(0, 127)))
    for _ in range(300 * scale):
        ia = ",".join("%d,%d,%d" % (rng.randint(-30, 200), rng.randint(-30, 200), rng.choice([-3, 0, 1, 2, 5, 24, 96, rng.randint(1, 400)]))
                      for _ in range(rng.randint(1, 3)))
        if rng.random() < 0.1:
            ia += ",5"
        lines.append("cc_on_time\t%d\t%d\t%d\t%d\t%s" % (rng.randint(0, 1000), rng.randint(0, 15), rng.randint(-2, 12), rng.randint(0, 127), ia))
        ia = ",".join("%d,%d,%d" % (rng.randint(-9000, 9000), rng.randint(-9000, 9000), rng.choice([-3, 0, 1, 7, 96, rng.randint(1, 400)]))
                      for _ in range(rng.randint(1, 3)))
        lines.append("pb_on_time\t%d\t%d\t%d\t%d\t%s" % (rng.randint(0, 1000), rng.randint(0, 15), rng.randint(0, 1),
                                                       rng.choice([16, 48, 96, 480, 31, 32, 33, 192]), ia))
    for _ in range(300 * scale):
        ops = []
        for _ in range(rng.randint(1, 12)):
            k = rng.choice("sswrnnnnW")
            if k == "s":
                ops.append("s:%d:%s" % (rng.randint(1, 4), ilist(rng, rng.randint(0, 6), 0, 127)))
            elif k == "w":
                ops.append("w:%d:%s" % (rng.randint(1, 4), ilist(rng, rng.choice([3, 6, 2]), 0, 30)))
            elif k == "r":
                ops.append("r:%d" % rng.randint(1, 4))
            elif k == "n":
                ops.append("n:%d" % rng.randint(0, 1000))
            else:
                ops.append("W:%d:%d" % (rng.randint(0, 1000), rng.randint(0, 2000)))
        lines.append("cc_on_note\t%d\t%d\t%s" % (rng.randint(0, 15), rng.randint(0, 6), "/".join(ops)))
    for _ in range(150 * scale):
        lines.append("rand\t%d\t%d" % (rng.choice([0, 1, 1110, 2 ** 32 - 1, rng.randrange(2 ** 32)]), rng.randint(0, 40)))
        lines.append("rand_value\t%d\t%d\t%d\t%d" % (rng.randrange(2 ** 32), rng.randint(-10, 127), rng.randint(-3, 40), rng.randint(0, 40)))
    return lines


def nontrivial_unit(line, out):
    f = line.split("\t")
    if f[0] == "on_note":
        return line if f[2] not in ("N", "-") and f[6].count(",") >= 1 else None
    if f[0] in ("cc_on_time", "pb_on_time", "cc_on_note"):
        return line if out.count(";") >= 1 else None
    if f[0] == "v_on_time":
        return line if f[2] not in ("N", "-") and f[3].count(",") >= 1 else None
    if f[0] in ("rand", "rand_value"):
        return line if out.count(",") >= 1 else None
    return line


def run_units(ctx, lines, origin):
    got = ctx.impl(lines)
    mod = ctx.model(lines)
    for line, g, m in zip(lines, got, mod):
        if m.startswith("UNSUPPORTED"):
            ctx.unsupported += 1
            continue
        if g != m:
            ctx.disagree(line.split("\t")[0], line[:2000], g[:600], m[:600])
        ctx.count(origin + ":" + line.split("\t")[0], nontrivial_unit(line, g))
    return got


# ------------------------------------------------------------------------------------------------
# (a') the runner's use of the methods: exec_note / exec_note_n / reservation arms (model `exec_cmds`) against the
#      events that lex + exec push on track 0 (compile_ev reports them in push order)
# ------------------------------------------------------------------------------------------------
LETTERS = [("c", 0), ("d", 2), ("e", 4), ("f", 5), ("g", 7), ("a", 9), ("b", 11)]
LTICKS = {1: 384, 2: 192, 4: 96, 8: 48, 16: 24}


def gen_program(rng):
    """random command sequence -> (MML source, model command field)"""
    src, cmds = [], []
    vpool = {"v": (-5, 140), "q": (-5, 130), "t": (-6, 30), "o": (-1, 11), "l": (-1, 200)}
    for _ in range(rng.randint(1, 14)):
        r = rng.random()
        if r < 0.18:
            w = rng.choice("vqtol")
            lo, hi = vpool[w]
            ia = [rng.randint(lo, hi) for _ in range(rng.randint(1, 5))]
            cyc = rng.random() < 0.4
            src.append("%s.%s(%s)" % (w, "onCycle" if cyc else "onNote", ",".join(map(str, ia))))
            cmds.append("N:%s:%d:%s" % (w, cyc, ",".join(map(str, ia))))
        elif r < 0.23:
            ia = []
            for _ in range(rng.randint(1, 3)):
                ia += [rng.randint(-10, 140), rng.randint(-10, 140), rng.choice([0, 48, 96, 192, rng.randint(1, 300)])]
            src.append("v.onTime(%s)" % ",".join(map(str, ia)))
            cmds.append("T:%s" % ",".join(map(str, ia)))
        elif r < 0.31:
            w = rng.choice("vqtol")
            if w == "l":
                n = rng.choice(list(LTICKS))
                src.append("l%d" % n)
                cmds.append("P:l:%d" % LTICKS[n])
            else:
                lo, hi = vpool[w]
                v = rng.randint(max(lo, 0) if w != "t" else lo, hi)
                src.append("%s%d" % (w, v))
                cmds.append("P:%s:%d" % (w, v))
        elif r < 0.39:
            w = rng.choice("vqto")
            x = rng.choice([0, 1, 2, 3, 5, 10, 20, -2])
            src.append("%s.Random=%d" % (w, x))
            cmds.append("R:%s:%d" % (w, x))
        elif r < 0.49:
            no = rng.choice([1, 7, 10, 11])
            kind = rng.choice(["ct", "cn", "cn", "cw", "F", "cc"])
            if kind in ("ct", "cw"):
                ia = []
                for _ in range(rng.randint(1, 2)):
                    ia += [rng.randint(-10, 140), rng.randint(-10, 140), rng.choice([0, 3, 24, 96, rng.randint(1, 120)])]
                src.append("y%d.%s(%s)" % (no, "onTime" if kind == "ct" else "onNoteWave", ",".join(map(str, ia))))
                cmds.append("%s:%d:%s" % (kind, no, ",".join(map(str, ia))))
            elif kind == "cn":
                ia = [rng.randint(0, 127) for _ in range(rng.randint(1, 5))]
                src.append("y%d.onNote(%s)" % (no, ",".join(map(str, ia))))
                cmds.append("cn:%d:%s" % (no, ",".join(map(str, ia))))
            elif kind == "F":
                f = rng.choice([0, 1, 2, 3, 4, 8, -1])
                src.append("y%d.Frequency(%d)" % (no, f))
                cmds.append("F:%d" % f)
            else:
                v = rng.randint(0, 127)
                src.append("y%d,%d" % (no, v))
                cmds.append("cc:%d:%d" % (no, v))
        elif r < 0.53:
            big = rng.randint(0, 1)
            ia = [rng.randint(-8192, 8191) if big else rng.randint(0, 127), rng.randint(-8192, 9000) if big else rng.randint(0, 130),
                  rng.choice([0, 3, 24, 96, rng.randint(1, 120)])]
            src.append("%s.onTime(%s)" % ("PB" if big else "p", ",".join(map(str, ia))))
            cmds.append("pb:%d:%s" % (big, ",".join(map(str, ia))))
        elif r < 0.58:
            src.append("r")
            cmds.append("r")
        else:
            for _ in range(rng.randint(1, 4)):
                if rng.random() < 0.25:
                    key = rng.choice([60, 62, 36, 72, 0, 127, 130])
                    src.append("n%d" % key)
                    cmds.append("nn:%d" % key)
                else:
                    c, pc = rng.choice(LETTERS)
                    src.append(c)
                    cmds.append("n:%d" % pc)
    return " ".join(src) + " ", "/".join(cmds)


def run_programs(ctx, progs, origin):
    got = ctx.impl(["compile_ev\t%s" % vlib.enc_text(s) for s, _ in progs], stall=20)
    mod = ctx.model(["run\t0\t96\t%s" % c for _, c in progs])
    for (src, cmds), g, m in zip(progs, got, mod):
        f = g.split("\t")
        impl_events = f[2].split("/")[0] if len(f) >= 4 else g[:40]
        model_events = m.split("\t")[0]
        if impl_events != model_events:
            ctx.disagree("exec_note/arms (run)", "%s  [%s]" % (src, cmds), impl_events[:800], model_events[:800])
        ctx.count(origin + ":run", src if impl_events.count(";") >= 2 else None)


# ------------------------------------------------------------------------------------------------
# (b) compile-level oracle
# ------------------------------------------------------------------------------------------------
MSG = re.compile(r"(\d+):(\w+)\(([^)]*)\)")


def decode_all(ctx, srcs):
    """compile every source with the implementation and decode the file with the specification decoder.
    returns per source: None (did not compile / decode) or dict(hex=..., tracks=[[(tick, kind, args)...]...], log=...)"""
    got = ctx.impl(["compile_ev\t%s" % vlib.enc_text(s) for s in srcs], stall=20)
    res = [None] * len(srcs)
    hexes = []
    for i, g in enumerate(got):
        f = g.split("\t")
        if len(f) < 4:
            res[i] = {"error": g[:40]}
            continue
        res[i] = {"hex": f[0], "timebase": int(f[1]), "log": vlib.dec_text(f[3]) if f[3] else "", "tracks": None}
        hexes.append(i)
    cont = ctx.model(["container\t%s" % res[i]["hex"] for i in hexes], driver="core")
    lines, owner = [], []
    for i, c in zip(hexes, cont):
        f = c.split("\t")
        if f[0] != "OK":
            res[i]["error"] = "container:" + c[:60]
            continue
        bodies = f[5].split("/") if len(f) > 5 else []
        res[i]["tracks"] = [None] * len(bodies)
        for t, b in enumerate(bodies):
            lines.append("decode_track\t%s" % b)
            owner.append((i, t))
    dec = ctx.model(lines, driver="core")
    for (i, t), d in zip(owner, dec):
        f = d.split("\t")
        if f[0] == "DECODE-FAIL" or len(f) < 2:
            res[i]["error"] = "decode:" + d[:60]
            continue
        ticks = [int(x) for x in f[1].split(",")] if f[1] else []
        items = MSG.findall(f[0])
        evs = []
        for (delta, kind, args), tick in zip(items, ticks):
            evs.append((tick, kind, [a for a in args.split(",")]))
        res[i]["tracks"][t] = evs
    return res


def notes_of(track):
    """[(start, key, vel, dur, ch)] in start order, pairing each NoteOn with the next NoteOff of the same key"""
    open_, out = {}, []
    for tick, kind, a in track:
        if kind == "NoteOn":
            open_.setdefault((a[0], a[1]), []).append((tick, int(a[2])))
        elif kind == "NoteOff":
            q = open_.get((a[0], a[1]))
            if q:
                st, vel = q.pop(0)
                out.append((st, int(a[1]), vel, tick - st, int(a[0])))
    for (ch, key), q in open_.items():
        for st, vel in q:
            out.append((st, int(key), vel, None, int(ch)))
    out.sort(key=lambda x: x[0])
    return out


def ccs_of(track, no):
    return [(tick, int(a[2])) for tick, kind, a in track if kind == "CC" and int(a[1]) == no]


def bends_of(track):
    return [(tick, int(a[1]) + 128 * int(a[2])) for tick, kind, a in track if kind == "Bend"]


def note_track(dec):
    """the only track carrying notes"""
    ts = [t for t in dec["tracks"] if t and any(k == "NoteOn" for _, k, _ in t)]
    return ts[0] if len(ts) == 1 else None


class Case:
    """one oracle case: a source and a function from the decoded file to a list of (what, observed, expected)"""
    def __init__(self, src, clause, check, nontrivial=True):
        self.src, self.clause, self.check, self.nontrivial = src, clause, check, nontrivial


def track_prefix(rng):
    r = rng.random()
    if r < 0.5:
        return ""
    return "TR(%d) " % rng.choice([1, 2, 2, 3])


def gen_notes(rng, n, allow_n=True):
    """n notes: lettered (quarter notes, octave 5) or numbered; returns (text, [(letter|None, key)])"""
    txt, info = [], []
    for _ in range(n):
        if allow_n and rng.random() < 0.3:
            key = rng.choice([60, 62, 36, 72, 64])
            txt.append("n%d " % key)
            info.append((None, key))
        else:
            c = rng.choice("cdefgab")
            txt.append(c + rng.choice(["", " "]))
            info.append((c, 60 + PITCH[c]))
    return "".join(txt), info


TB = 96          # default time base; `l4` default, so a plain note is 96 ticks
Q0, V0, O0 = 90, 100, 5


def gate(length, q):
    return (length * q) // 100


def tail_ok(vals, last, prior):
    """after an onNote list is used up the reservation has stopped: the remaining notes use ONE track value -
    the last applied value (the code stores it) or the value before the reservation"""
    return all(v == vals[0] for v in vals) and vals[0] in (last, prior)


def case_on_note(rng):
    w = rng.choice("vqtol")
    cyc = rng.random() < 0.45
    k = rng.randint(1, 6)
    n = rng.randint(0, 13)
    pools = {"v": (1, 127), "q": (10, 100), "t": (0, 40), "o": (0, 9), "l": (1, 200)}
    lo, hi = pools[w]
    vs = [rng.randint(lo, hi) for _ in range(k)]
    notes, info = gen_notes(rng, n)
    cmd = "%s.%s(%s) " % (w, rng.choice(["onCycle", "C"]) if cyc else rng.choice(["onNote", "N"]), ",".join(map(str, vs)))
    src = track_prefix(rng) + cmd + notes

    def check(dec):
        tr = note_track(dec) if n else None
        if n == 0:
            return []
        if tr is None:
            return [("notes are not on exactly one track", str([len(t or []) for t in dec["tracks"]]), "1 track with notes")]
        ns = notes_of(tr)
        if len(ns) != n:
            return [("number of notes", len(ns), n)]
        fails = []
        pos = 0
        tail = []
        for i, ((st, key, vel, dur, ch), (letter, want_key)) in enumerate(zip(ns, info)):
            res = vs[i % k] if (cyc or i < k) else None
            length = TB
            if w == "l" and res is not None:
                length = res
            if w == "l" and res is None and st != pos:
                fails.append(("note %d start after l reservation ended" % i, st, pos))
            exp_start = pos + (res if (w == "t" and res is not None) else 0)
            if w != "t" or res is not None:
                if st != exp_start:
                    fails.append(("note %d start tick" % i, st, exp_start))
            if w == "v":
                if res is not None and vel != res:
                    fails.append(("note %d velocity" % i, vel, res))
                if res is None:
                    tail.append(vel)
            if w == "q":
                if res is not None and dur != gate(length, res):
                    fails.append(("note %d gate" % i, dur, gate(length, res)))
                if res is None:
                    tail.append(dur)
            if w == "t" and res is None:
                tail.append(st - pos)
            if w == "o" and letter is not None:
                if res is not None and key != res * 12 + PITCH[letter]:
                    fails.append(("note %d key" % i, key, res * 12 + PITCH[letter]))
                if res is None:
                    tail.append(key - PITCH[letter])
            if w == "l":
                if dur != gate(length, Q0):
                    fails.append(("note %d gate for reserved length" % i, dur, gate(length, Q0)))
            pos += length
        if tail:
            last = vs[-1]
            prior = {"v": V0, "q": gate(TB, Q0), "t": 0, "o": O0 * 12}[w] if w != "l" else None
            lastv = {"v": last, "q": gate(TB, last), "t": last, "o": last * 12}.get(w)
            if not tail_ok(tail, lastv, prior):
                fails.append(("after the list is used up the reservation must stop (one track value for the rest)", tail, [lastv, prior]))
        return fails
    return Case(src, "on_%s_%s" % ("cycle" if cyc else "note", w), check, nontrivial=(n >= 2))


def case_cancel(rng):
    w = rng.choice("vqtol")
    cyc = rng.random() < 0.5
    k = rng.randint(2, 5)
    pools = {"v": (1, 127), "q": (10, 100), "t": (0, 40), "o": (0, 9), "l": (1, 200)}
    lo, hi = pools[w]
    vs = [rng.randint(lo, hi) for _ in range(k)]
    a = rng.randint(0, k - 1 if not cyc else k + 2)      # notes before the plain command
    b = rng.randint(1, 5)
    plain = {"v": rng.randint(1, 127), "q": rng.randint(10, 100), "t": rng.randint(0, 30), "o": rng.randint(2, 8), "l": rng.choice([1, 2, 4, 8, 16])}[w]
    n1, i1 = gen_notes(rng, a, allow_n=False)
    n2, i2 = gen_notes(rng, b, allow_n=False)
    src = track_prefix(rng) + "%s.%s(%s) %s %s%d %s" % (w, "onCycle" if cyc else "onNote", ",".join(map(str, vs)), n1, w, plain, n2)

    def check(dec):
        tr = note_track(dec)
        if tr is None:
            return [("notes are not on exactly one track", "", "")]
        ns = notes_of(tr)
        if len(ns) != a + b:
            return [("number of notes", len(ns), a + b)]
        fails = []
        pos = 0
        for i, ((st, key, vel, dur, ch), (letter, _)) in enumerate(zip(ns, i1 + i2)):
            after = i >= a
            length = TB
            if w == "l":
                length = (4 * TB) // plain if after else vs[i % k]
            if after:
                if w == "v" and vel != plain:
                    fails.append(("note %d velocity after plain v" % i, vel, plain))
                if w == "q" and dur != gate(TB, plain):
                    fails.append(("note %d gate after plain q" % i, dur, gate(TB, plain)))
                if w == "t" and st != pos + plain:
                    fails.append(("note %d start after plain t" % i, st, pos + plain))
                if w == "o" and key != plain * 12 + PITCH[letter]:
                    fails.append(("note %d key after plain o" % i, key, plain * 12 + PITCH[letter]))
                if w == "l" and (st != pos or dur != gate(length, Q0)):
                    fails.append(("note %d start/gate after plain l" % i, (st, dur), (pos, gate(length, Q0))))
            pos += length
        return fails
    return Case(src, "cancel_" + w, check)


def case_other_track(rng):
    """a reservation belongs to its track: notes of another track keep their defaults"""
    w = rng.choice("vq")
    vs = [rng.randint(10, 90) for _ in range(rng.randint(1, 4))]
    n = rng.randint(1, 4)
    src = "TR(1) %s.onNote(%s) TR(2) %s TR(1) %s" % (w, ",".join(map(str, vs)), "c" * n, "d" * n)

    def check(dec):
        ts = [notes_of(t) for t in dec["tracks"] if t and any(k == "NoteOn" for _, k, _ in t)]
        if len(ts) != 2:
            return [("tracks with notes", len(ts), 2)]
        t1 = [x for x in ts if x[0][1] == 62]
        t2 = [x for x in ts if x[0][1] == 60]
        if len(t1) != 1 or len(t2) != 1:
            return [("tracks not identified", str(ts)[:200], "")]
        fails = []
        for i, (st, key, vel, dur, ch) in enumerate(t2[0]):
            if (w == "v" and vel != V0) or (w == "q" and dur != gate(TB, Q0)):
                fails.append(("note %d of the other track changed" % i, (vel, dur), (V0, gate(TB, Q0))))
        for i, (st, key, vel, dur, ch) in enumerate(t1[0]):
            if i < len(vs):
                if (w == "v" and vel != vs[i]) or (w == "q" and dur != gate(TB, vs[i])):
                    fails.append(("note %d of the reserving track" % i, (vel, dur), vs[i]))
        return fails
    return Case(src, "other_track_" + w, check)


def case_cc_on_note(rng):
    m = rng.randint(1, 3)
    nos = rng.sample([1, 7, 10, 11, 91, 93, 74], m)
    lists = [[rng.randint(0, 127) for _ in range(rng.randint(1, 6))] for _ in nos]
    n = rng.randint(1, 8)
    notes, info = gen_notes(rng, n)
    names = {1: "M", 7: "V", 10: "P", 11: "EP"}
    cmds = []
    for no, l in zip(nos, lists):
        nm = names[no] if (no in names and rng.random() < 0.5) else "y%d" % no
        cmds.append("%s.%s(%s)" % (nm, rng.choice(["onNote", "N"]), ",".join(map(str, l))))
    src = track_prefix(rng) + " ".join(cmds) + " " + notes

    def check(dec):
        tr = note_track(dec)
        if tr is None:
            return [("notes are not on exactly one track", "", "")]
        ns = notes_of(tr)
        if len(ns) != n:
            return [("number of notes", len(ns), n)]
        fails = []
        for no, l in zip(nos, lists):
            want = [(ns[i][0], l[i]) for i in range(min(n, len(l)))]
            got = ccs_of(tr, no)
            if got != want:
                fails.append(("controller %d events (tick, value) at the note starts" % no, got, want))
        return fails
    return Case(src, "cc_on_note", check, nontrivial=(n >= 2))


def distinct_list(rng, k, lo, hi):
    """k values, neighbours (cyclically) different, so that 'stops' and 'repeats' are distinguishable"""
    out = []
    while len(out) < k:
        v = rng.randint(lo, hi)
        if out and v == out[-1]:
            continue
        if len(out) == k - 1 and k > 1 and v == out[0]:
            continue
        out.append(v)
    return out


def case_sequence(rng):
    """several reservations in a row on one track: a later reservation replaces the earlier one, onNote stops after
    its last value, onCycle repeats, a plain command cancels. Expectations by a reference interpreter of the property
    text. Where the property is silent (which value a note takes after an onNote list of v/q/t/o is used up: the value
    before the reservation, or the last applied one as the code stores it) both readings are accepted, consistently
    for the whole source; for l the note length falls back to the current `l` length."""
    w = rng.choice("vqtol")
    pools = {"v": (1, 127), "q": (10, 100), "t": (0, 40), "o": (0, 9), "l": (5, 200)}
    lo, hi = pools[w]
    phases = []
    shape = rng.choice(["cycle-note", "note-cycle", "note-note", "cycle-plain-note", "note-plain-cycle", "cycle-cycle", "random"])
    kinds = shape.split("-") if shape != "random" else [rng.choice(["cycle", "note", "plain"]) for _ in range(rng.randint(2, 4))]
    src = ["r "]
    plan = []          # ("res", vs, cyc) | ("plain", value, text) | ("note", letter|None, key)
    for kd in kinds:
        if kd == "plain":
            if w == "l":
                n = rng.choice(list(LTICKS))
                plan.append(("plain", LTICKS[n]))
                src.append("l%d " % n)
            else:
                v = rng.randint(lo, hi)
                plan.append(("plain", v))
                src.append("%s%d " % (w, v))
        else:
            vs = distinct_list(rng, rng.choice([1, 2, 2, 3, 4]), lo, hi)
            cyc = kd == "cycle"
            plan.append(("res", vs, cyc))
            src.append("%s.%s(%s) " % (w, rng.choice(["onCycle", "C"]) if cyc else rng.choice(["onNote", "N"]), ",".join(map(str, vs))))
        # enough notes to run past the end of the list (sometimes fewer)
        k = len(plan[-1][1]) if plan[-1][0] == "res" else 1
        nn = rng.choice([k + 1, k + 2, k + 3, 2 * k + 1, k, max(1, k - 1)])
        txt, info = gen_notes(rng, nn, allow_n=(w != "o"))
        src.append(txt + " ")
        plan += [("note", letter, key) for letter, key in info]
    source = track_prefix(rng) + "".join(src)
    n_notes = sum(1 for x in plan if x[0] == "note")

    def expected(store):
        """per note: (value or None when nothing is asserted, length in ticks)"""
        cur = {"v": V0, "q": Q0, "t": 0, "o": O0, "l": TB}[w]
        res = None
        out = []
        for x in plan:
            if x[0] == "plain":
                cur, res = x[1], None
            elif x[0] == "res":
                res = [x[1], x[2], 0]
            else:
                val = cur
                if res is not None:
                    vs, cyc, idx = res
                    if cyc or idx < len(vs):
                        val = vs[idx % len(vs)]
                        res[2] += 1
                        if store and w != "l":
                            cur = val
                    else:
                        res = None
                out.append(val)
        return out

    def observe(ns):
        obs, pos = [], TB
        for (st, key, vel, dur, ch), x in zip(ns, [x for x in plan if x[0] == "note"]):
            if w == "v":
                obs.append(vel)
            elif w == "q":
                obs.append(dur)
            elif w == "t":
                obs.append(st - pos)
            elif w == "o":
                obs.append((key - PITCH[x[1]]) // 12 if (key - PITCH[x[1]]) % 12 == 0 else ("key", key))
            else:
                obs.append((st, dur))
            pos += TB
        return obs

    def render(exp):
        if w == "q":
            return [gate(TB, v) for v in exp]
        if w == "l":
            out, pos = [], TB
            for v in exp:
                out.append((pos, gate(v, Q0)))
                pos += v
            return out
        return exp

    def check(dec):
        tr = note_track(dec)
        if tr is None:
            return [("notes are not on exactly one track", "", "")]
        ns = notes_of(tr)
        if len(ns) != n_notes:
            return [("number of notes", len(ns), n_notes)]
        obs = observe(ns)
        wants = [render(expected(False))] + ([render(expected(True))] if w != "l" else [])
        if obs in wants:
            return []
        want = wants[-1]
        i = next((i for i, (a, b) in enumerate(zip(obs, want)) if a != b), 0)
        return [("%s of note %d in a sequence of reservations (a later reservation replaces the earlier one, onNote stops "
                 "after its last value, onCycle repeats, the plain command cancels)" %
                 ({"v": "velocity", "q": "gate", "t": "timing", "o": "octave", "l": "(start, gate)"}[w], i), obs, want)]
    return Case(source, "sequence_" + w, check)


def case_cc_sequence(rng):
    """controller onNote lists in a row: a later list for the same controller replaces the pending one, lists of other
    controllers are independent, every list stops after its last value"""
    nos = rng.sample([1, 7, 10, 11, 74, 91], 2)
    plan, src = [], []
    for _ in range(rng.randint(2, 4)):
        no = nos[0] if rng.random() < 0.7 else nos[1]
        vs = distinct_list(rng, rng.randint(1, 4), 0, 127)
        plan.append(("res", no, vs))
        src.append("y%d.%s(%s) " % (no, rng.choice(["onNote", "N"]), ",".join(map(str, vs))))
        nn = rng.choice([len(vs) + 1, len(vs) + 2, len(vs), max(1, len(vs) - 1), 1])
        txt, info = gen_notes(rng, nn)
        src.append(txt + " ")
        plan += [("note",)] * nn
    source = track_prefix(rng) + "".join(src)
    n_notes = sum(1 for x in plan if x[0] == "note")

    def check(dec):
        tr = note_track(dec)
        if tr is None:
            return [("notes are not on exactly one track", "", "")]
        ns = notes_of(tr)
        if len(ns) != n_notes:
            return [("number of notes", len(ns), n_notes)]
        pending, want, i = {}, {no: [] for no in nos}, 0
        for x in plan:
            if x[0] == "res":
                pending[x[1]] = list(x[2])
            else:
                for no in nos:
                    if pending.get(no):
                        want[no].append((ns[i][0], pending[no].pop(0)))
                i += 1
        fails = []
        for no in nos:
            got = ccs_of(tr, no)
            if got != want[no]:
                fails.append(("controller %d onNote lists in a row: events (tick, value)" % no, got, want[no]))
        return fails
    return Case(source, "sequence_cc", check)


def exact(lo, hi, j, ln):
    return lo + (hi - lo) * j / ln


def check_ramp(got, base, segs, freq, maxv, what):
    """got: [(tick, value)] in file order (ticks ascending). Property: segment s occupies [b, b+len); events exactly at
    b + j, 0 <= j < len, freq | j; first value clamp(lo); values in 0..maxv, monotone from lo towards hi, within 1 of the
    exact interpolation"""
    fails = []
    b = base
    want_ticks = []
    for lo, hi, ln in segs:
        if ln > 0:
            want_ticks += [(b + j, lo, hi, j, ln) for j in range(0, ln, freq)]
            b += ln
    if [t for t, _ in got] != [w[0] for w in want_ticks]:
        return [(what + ": event ticks", [t for t, _ in got][:40], [w[0] for w in want_ticks][:40])]
    prev = None
    for (t, v), (_, lo, hi, j, ln) in zip(got, want_ticks):
        clamp = lambda x: max(0, min(maxv, x))
        if not (0 <= v <= maxv):
            fails.append((what + ": value out of range at tick %d" % t, v, "0..%d" % maxv))
        if j == 0:
            if v != clamp(lo):
                fails.append((what + ": first value of a segment", v, clamp(lo)))
            prev = v
        else:
            if (lo <= hi and v < prev) or (lo >= hi and v > prev):
                fails.append((what + ": not monotone at tick %d" % t, (prev, v), "towards %d" % hi))
            prev = v
        if not (clamp(min(lo, hi)) <= v <= clamp(max(lo, hi))):
            fails.append((what + ": value outside [lo,hi] at tick %d" % t, v, (lo, hi)))
        ex = exact(lo, hi, j, ln)
        if abs(v - clamp(ex)) > 1:
            fails.append((what + ": value not within 1 of the interpolation at tick %d" % t, v, ex))
    return fails[:4]


def case_cc_on_time(rng):
    freq = rng.choice([1, 1, 2, 3, 4, 5, 8, 12, 24])
    no = rng.choice([1, 7, 10, 11, 74])
    segs = [(rng.choice([0, 0, 127, rng.randint(0, 127), rng.randint(-20, 160)]), rng.choice([127, 0, rng.randint(0, 127), rng.randint(-20, 160)]),
             rng.choice([1, 2, 8, 24, 48, 96, 192, rng.randint(1, 300)])) for _ in range(rng.choice([1, 1, 1, 2, 3]))]
    lead = rng.choice(["", "r ", "r r2 "])
    base = {"": 0, "r ": 96, "r r2 ": 96 + 192}[lead]
    ia = ",".join("%d,%d,%d" % s for s in segs)
    src = track_prefix(rng) + "y%d.Frequency(%d) %sy%d.%s(%s) c" % (no, freq, lead, no, rng.choice(["onTime", "T"]), ia)

    def check(dec):
        tr = note_track(dec)
        if tr is None:
            return [("notes are not on exactly one track", "", "")]
        return check_ramp(ccs_of(tr, no), base, segs, freq, 127, "CC#%d ramp" % no)
    return Case(src, "cc_on_time", check)


def case_pb_on_time(rng):
    big = rng.random() < 0.5
    if big:
        segs = [(rng.choice([-8192, 0, rng.randint(-8192, 8191)]), rng.choice([8191, 0, -8192, rng.randint(-8192, 8191), 9000]),
                 rng.choice([3, 24, 48, 96, 192, rng.randint(1, 300)])) for _ in range(rng.choice([1, 1, 2, 3]))]
        conv = lambda s: (s[0] + 8192, s[1] + 8192, s[2])
        cmd = "PB"
    else:
        segs = [(rng.choice([0, 64, rng.randint(0, 127)]), rng.choice([127, 0, 64, rng.randint(0, 127), 130]),
                 rng.choice([3, 24, 48, 96, 192, rng.randint(1, 300)])) for _ in range(rng.choice([1, 1, 2, 3]))]
        conv = lambda s: (s[0] * 128, s[1] * 128, s[2])
        cmd = "p"
    lead = rng.choice(["", "r "])
    base = 96 if lead else 0
    ia = ",".join("%d,%d,%d" % s for s in segs)
    src = track_prefix(rng) + "%s%s.%s(%s) c" % (lead, cmd, rng.choice(["onTime", "T"]), ia)

    def check(dec):
        tr = note_track(dec)
        if tr is None:
            return [("notes are not on exactly one track", "", "")]
        got = bends_of(tr)
        # the sampling step of a bend ramp is not configurable: infer it from the first two events
        step = (got[1][0] - got[0][0]) if len(got) >= 2 and segs[0][2] > (got[1][0] - got[0][0]) else TB // 32
        if step < 1:
            return [("bend ramp: two events on one tick", got[:4], "")]
        return check_ramp(got, base, [conv(s) for s in segs], step, 16383, "bend ramp")
    return Case(src, "pb_on_time", check)


def case_v_on_time(rng):
    segs = [(rng.randint(1, 127), rng.randint(1, 127), rng.choice([96, 192, 384, 48, rng.randint(1, 500)])) for _ in range(rng.choice([1, 1, 2, 3]))]
    n = rng.randint(1, 12)
    notes, info = gen_notes(rng, n)
    lead = rng.choice(["", "r "])
    ia = ",".join("%d,%d,%d" % s for s in segs)
    if rng.random() < 0.3:
        segs = [(rng.randint(1, 127), rng.randint(1, 127), 384)]
        ia = "%d,%d,!1" % segs[0][:2]
    src = track_prefix(rng) + "%sv.%s(%s) %s" % (lead, rng.choice(["onTime", "T"]), ia, notes)

    def check(dec):
        tr = note_track(dec)
        if tr is None:
            return [("notes are not on exactly one track", "", "")]
        ns = notes_of(tr)
        if len(ns) != n:
            return [("number of notes", len(ns), n)]
        fails = []
        base = 96 if lead else 0
        total = sum(s[2] for s in segs)
        for i, (st, key, vel, dur, ch) in enumerate(ns):
            c = st - base
            if c >= total:
                if vel != V0:
                    fails.append(("note %d after the end of v.onTime takes the track velocity" % i, vel, V0))
                continue
            b = 0
            for lo, hi, ln in segs:
                if b <= c < b + ln:
                    ex = exact(lo, hi, c - b, ln)
                    if abs(vel - ex) > 1 or not (min(lo, hi) <= vel <= max(lo, hi)):
                        fails.append(("note %d velocity at tick %d" % (i, st), vel, ex))
                    if c == b and vel != lo:
                        fails.append(("note %d at a segment start" % i, vel, lo))
                b += ln
        return fails
    return Case(src, "v_on_time", check, nontrivial=(n >= 2))


def case_v_time_then_list(rng):
    """a v.onNote / v.onCycle list given WHILE a v.onTime ramp is running replaces it (a later reservation replaces the earlier
    one): the list's notes take the list values and, when an onNote list is used up inside the ramp's window, the following notes
    take the track velocity (the one before, or the last applied one) - not the ramp's value for their tick"""
    while True:
        lo, hi = rng.randint(1, 127), rng.randint(1, 127)
        ln = rng.choice([384, 768, 960, 1152])
        k1 = rng.randint(0, 2)
        cyc = rng.random() < 0.3
        vs = distinct_list(rng, rng.choice([1, 2, 3]), 1, 127)
        k2 = len(vs) + rng.randint(1, 4)
        if (k1 + k2) * TB > ln + 2 * TB:
            continue
        # the ramp value at every later tick must be told apart from both accepted track values
        ok = True
        for i in range(k1 + len(vs), k1 + k2):
            if i * TB < ln and min(abs(exact(lo, hi, i * TB, ln) - V0), abs(exact(lo, hi, i * TB, ln) - vs[-1])) < 3:
                ok = False
        if ok:
            break
    n1, _ = gen_notes(rng, k1)
    n2, _ = gen_notes(rng, k2)
    src = track_prefix(rng) + "v.%s(%d,%d,%d) %s v.%s(%s) %s" % (rng.choice(["onTime", "T"]), lo, hi, ln, n1,
                                                               (rng.choice(["onCycle", "C"]) if cyc else rng.choice(["onNote", "N"])), ",".join(map(str, vs)), n2)

    def check(dec):
        tr = note_track(dec)
        if tr is None:
            return [("notes are not on exactly one track", "", "")]
        ns = notes_of(tr)
        if len(ns) != k1 + k2:
            return [("number of notes", len(ns), k1 + k2)]
        vels = [n[2] for n in ns][k1:]
        if cyc:
            want = [vs[i % len(vs)] for i in range(k2)]
            return [] if vels == want else [("velocities under v.onCycle given inside a v.onTime window", vels, want)]
        if vels[:len(vs)] != vs:
            return [("velocities of the notes of a v.onNote list given inside a v.onTime window", vels[:len(vs)], vs)]
        if not tail_ok(vels[len(vs):], vs[-1], V0):
            return [("velocities after a v.onNote list given inside a v.onTime window was used up (the list replaced the ramp)", vels[len(vs):],
                     "all %d or all %d" % (vs[-1], V0))]
        return []
    return Case(src, "v_time_then_list", check)


def case_random(rng):
    w = rng.choice("vqto")
    r = rng.choice([1, 2, 3, 5, 10, 20, 40]) if w != "o" else rng.choice([1, 2, 3, 4])
    n = rng.randint(1, 12)
    notes, info = gen_notes(rng, n, allow_n=(w != "o"))
    form = rng.choice(["%s.Random=%d ", "%s.Random(%d) ", "%s.Random = %d "])
    # a second width of a DIFFERENT parameter and magnitude, set at the same time: each parameter keeps its own width
    w2, r2 = None, 0
    if rng.random() < 0.5:
        w2 = rng.choice([x for x in "vqt" if x != w])
        r2 = rng.choice([60, 80, 100]) if r <= 10 else rng.choice([1, 2])
    src = track_prefix(rng) + "r " + (form % (w, r)) + ((form % (w2, r2)) if w2 else "") + notes
    base_v, base_q = 64, 50
    if w == "v":
        src = src.replace("r ", "r v%d " % base_v, 1)
    if w == "q":
        src = src.replace("r ", "r q%d " % base_q, 1)

    def check(dec):
        tr = note_track(dec)
        if tr is None:
            return [("notes are not on exactly one track", "", "")]
        ns = notes_of(tr)
        if len(ns) != n:
            return [("x.Random must consume only its own argument: number of notes", len(ns), n)]
        fails = []
        h = r // 2
        for i, ((st, key, vel, dur, ch), (letter, want_key)) in enumerate(zip(ns, info)):
            pos = 96 * (i + 1)
            if w == "v" and abs(vel - base_v) > h:
                fails.append(("note %d velocity moved by more than r/2" % i, vel, (base_v, r)))
            if w == "q" and not (gate(TB, base_q - h) <= dur <= gate(TB, base_q + h)):
                fails.append(("note %d gate moved by more than r/2" % i, dur, (gate(TB, base_q), r)))
            if w == "t" and abs(st - pos) > h:
                fails.append(("note %d start moved by more than r/2" % i, st, (pos, r)))
            if w != "t" and abs(st - pos) > (r2 // 2 if w2 == "t" else 0):
                fails.append(("note %d start tick" % i, st, pos))
            if w == "o" and ((key - want_key) % 12 != 0 or abs(key - want_key) // 12 > h):
                fails.append(("note %d octave moved by more than r/2" % i, key, (want_key, r)))
        return fails
    return Case(src, "random_" + w, check, nontrivial=(n >= 2))


GENS = [(case_on_note, 30), (case_sequence, 25), (case_cc_sequence, 6), (case_cancel, 10), (case_other_track, 4), (case_cc_on_note, 10), (case_cc_on_time, 12),
        (case_pb_on_time, 10), (case_v_on_time, 10), (case_v_time_then_list, 6), (case_random, 12)]

FIXED = [  # the sources named in the property's description, with explicit expectations
    {"src": "v.onNote(10,20,30) cdefg", "vel": [10, 20, 30, 30, 30]},
    {"src": "q.onCycle(50,100) cdefg", "dur": [48, 96, 48, 96, 48]},
    {"src": "l.onNote(48,24) c d e f", "start": [0, 48, 72, 168], "dur": [43, 21, 86, 86]},
    {"src": "o.onNote(4,6) c c c", "key": [48, 72, 72]},
    {"src": "r t.onNote(3,6) c d e", "start": [99, 198, 294]},
    {"src": "v.onNote(10,20,30) c v100 d e", "vel": [10, 100, 100]},
    {"src": "M.onNote(1,2,3) c d e f", "cc": [1, [[0, 1], [96, 2], [192, 3]]]},
    {"src": "M.Frequency(24) M.onTime(0,127,96) c", "cc": [1, [[0, 0], [24, 31], [48, 63], [72, 95]]]},
    {"src": "t.Random=5 r cdefgab", "count": 7},
    {"src": "l.onNote(48,24) n60 n61 c", "start": [0, 48, 72], "dur": [43, 21, 86]},
    {"src": "M.onNote(1,2) n60 c", "cc": [1, [[0, 1], [96, 2]]]},
    {"src": "o.onNote(3,4) n60 n62 c e", "key": [60, 62, 48, 52]},
    {"src": "TR(2) v.onCycle(1,2,3) cdefgab", "vel": [1, 2, 3, 1, 2, 3, 1]},
    {"src": "v.onTime(0,127,!1) cdefgab>c", "vel": [0, 31, 63, 95, 100, 100, 100, 100]},
    {"src": "PB.onTime(-8192,8191,96) c", "bend_max": 15871},
    {"src": "p.onTime(0,127,96) c", "bend_max": 15748},
    {"src": "v.Random=10 cccccc", "count": 6},
    {"src": "q.onCycle(50,100) c q80 d e", "dur": [48, 76, 76]},
    {"src": "l.onNote(48,24) c l8 d e", "start": [0, 48, 96], "dur": [43, 43, 43]},
    {"src": "o.onNote(4,6) c o3 c c", "key": [48, 36, 36]},
    {"src": "r t.onCycle(3,6) c t0 d e", "start": [99, 192, 288]},
    {"src": "v.onCycle(10,20) c d e v.onNote(30,40) c d e f", "vel": [10, 20, 10, 30, 40, 40, 40]},
    {"src": "q.onNote(50,60) c q.onCycle(100,30) c d e", "dur": [48, 96, 28, 96]},
    {"src": "y7.onNote(1,2,3) c y7.onNote(9,8) c d e", "cc": [7, [[0, 1], [96, 9], [192, 8]]]},
]


def check_fixed(o, dec):
    fails = []
    tr = note_track(dec)
    if tr is None:
        return [("notes are not on exactly one track", "", "")]
    ns = notes_of(tr)
    for name, idx in (("start", 0), ("key", 1), ("vel", 2), ("dur", 3)):
        if name in o and [x[idx] for x in ns] != o[name]:
            fails.append((name + " of the notes", [x[idx] for x in ns], o[name]))
    if "count" in o and len(ns) != o["count"]:
        fails.append(("number of notes", len(ns), o["count"]))
    if "cc" in o:
        got = [list(x) for x in ccs_of(tr, o["cc"][0])]
        if got != o["cc"][1]:
            fails.append(("controller %d events" % o["cc"][0], got, o["cc"][1]))
    if "bend" in o:
        got = [list(x) for x in bends_of(tr)]
        if got != o["bend"]:
            fails.append(("bend events", got, o["bend"]))
    if "bend_max" in o:
        got = bends_of(tr)
        if not got or max(v for _, v in got) != o["bend_max"]:
            fails.append(("largest bend value", max([v for _, v in got] or [None]), o["bend_max"]))
    return fails


def run_oracle(ctx, cases, origin):
    srcs = [c.src for c in cases]
    decs = decode_all(ctx, srcs)
    # reproducibility: the same source compiled again gives the same bytes
    again = ctx.impl(["compile_ev\t%s" % vlib.enc_text(s) for s in srcs], stall=20)
    for c, d, a in zip(cases, decs, again):
        if d is None or d.get("tracks") is None or any(t is None for t in d["tracks"]):
            ctx.oracle_fail("source with a reservation does not compile to a decodable file (%s)" % (d or {}).get("error"),
                            c.src, (d or {}).get("error"), "a Standard MIDI File", input_text=c.src)
            continue
        if a.split("\t")[0] != d["hex"]:
            ctx.oracle_fail("the same source compiled twice gives different bytes (fixed seed)", c.src, a[:80], d["hex"][:80], input_text=c.src)
        fails = c.check(d)
        for what, obs, exp in fails[:2]:
            ctx.oracle_fail("%s: %s" % (c.clause, what), c.src, str(obs)[:400], str(exp)[:400], input_text=c.src)
        ctx.count(origin + ":" + c.clause, c.src if c.nontrivial else None)
    for c, d in list(zip(cases, decs))[:4]:
        if d and d.get("tracks"):
            ctx.sample({"source": c.src, "clause": c.clause, "notes": str(notes_of(note_track(d) or []))[:200]})


def load_corpus():
    p = os.path.join(vlib.VERIF, "corpus", "C16.jsonl")
    out = []
    if os.path.exists(p):
        for line in open(p, encoding="utf-8"):
            line = line.strip()
            if line:
                out.append(json.loads(line))
    return out


def run(ctx):
    rng = ctx.rng
    scale = 1 if ctx.tier == "quick" else 40
    # corpus first
    corpus = load_corpus()
    units = [o["unit"] for o in corpus if "unit" in o]
    if units:
        got = run_units(ctx, units, "corpus")
        for o, g in zip([o for o in corpus if "unit" in o], got):
            if "expect" in o and g != o["expect"]:
                ctx.oracle_fail("corpus witness: " + o.get("why", ""), o["unit"], g[:400], o["expect"][:400], input_text=o["unit"])
    fixed = [o for o in corpus if "src" in o] + FIXED
    run_oracle(ctx, [Case(o["src"], "witness", (lambda d, o=o: check_fixed(o, d))) for o in fixed], "corpus")
    # (a) unit-level correspondence
    run_units(ctx, unit_cases(rng, scale), "unit")
    run_programs(ctx, [gen_program(rng) for _ in range(600 * scale)], "unit")
    # (b) compile-level oracle
    cases = []
    total = 700 * scale
    weights = sum(w for _, w in GENS)
    for g, w in GENS:
        for _ in range(total * w // weights):
            cases.append(g(rng))
    run_oracle(ctx, cases, "oracle")


def replay(ctx, obj):
    f = obj.get("failure") or {}
    print("replay: input =", repr(f.get("input"))[:500])
    src = f.get("input")
    if isinstance(src, str) and "\t" in src:
        print("implementation:", ctx.impl([src]))
        print("model         :", ctx.model([src]))
    elif isinstance(src, str):
        d = decode_all(ctx, [src])[0]
        tr = note_track(d) if d and d.get("tracks") else None
        print("notes:", notes_of(tr) if tr else d)
        if tr:
            print("cc   :", [(t, a) for t, k, a in tr if k == "CC"][:60])
            print("bend :", bends_of(tr)[:60])
    print("observed:", f.get("observed"), "expected:", f.get("expected"))
    # decide again: the generators are deterministic in (seed, tier), so re-running them re-evaluates the recorded input
    if obj.get("seed") is not None:
        import random
        ctx.seed = obj["seed"]
        ctx.rng = random.Random(obj["seed"])
        ctx.tier = obj.get("tier", ctx.tier)
        run(ctx)
