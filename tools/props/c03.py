"""C03 - the notes in the MIDI file are the notes the MML text denotes.
Theorems: props/C03.v. Correspondence: the Gallina pipeline model (LexCore + RunCore over the generic loop
machine + Writer) vs the implementation's lex/exec/generate on core-language programs (bytes and log).
Oracle: the extracted documented semantics (spec/NoteSem.v) - programs are generated as syntax trees, printed
by the extracted Coq printer, and the notes decoded from the implementation's bytes must be exactly the notes
the specification denotes (track, channel, key, start, duration, velocity)."""
import vlib, astgen, mmlgen, midinotes

COQ_TARGET = "props/C03.v"
THEOREMS = ["C03_defaults", "C03_tuplet_count", "C03_exec", "C03_exec_tokens", "C03_exec_from", "C03_initial", "C03_notes",
            "C03_run_source", "C03_step_note", "C03_octave_once",
            "C03_transp_exact", "C03_transpose", "C03_transpose_sem", "C03_transpose_at", "C03_transpose_track_key",
            "C03_transpose_at_exec", "C03_transpose_track_key_exec", "C03_sem_fuel",
            "C03_transpose_octave", "C03_transpose_octave_exec"]
RULE = ("programs of the core note language generated as syntax trees (nesting depth <= 3, 2..30 commands, several tracks), "
        "parameter values inside and beyond their documented ranges; plus free-form core programs for the correspondence; "
        "non-trivial = distinct program sounding at least 3 notes")
TRUSTED = ["f32 gate arithmetic (len*gate/100) assumed exact in the sampled range", "reading of README/command.md in spec/NoteSem.v",
           "lex (pprog p) = TLineNo 0 :: tokens_of p is tested on every generated tree (kind lex_vs_tokens), not proved"]
ASSUMES = ["explicit per-note gate != 0, velocity >= 0, octave >= 0, timing != isize::MIN (the code's 'unset' sentinels), no empty velocity field before a timing/octave field, "
           "loop counts >= 1, track numbers 0..999, chord items = parameterless notes and > <, chord gate > 0, chord velocity 0..127 (NoteSimDefs.wf_cmd)"]


def decode_notes(ctx, hexbytes):
    c = ctx.model(["container\t%s" % hexbytes])[0].split("\t")
    if c[0] != "OK":
        return None
    bodies = c[5].split("/") if len(c) > 5 else []
    dec = ctx.model(["decode_track\t%s" % b for b in bodies])
    return [midinotes.notes_of_decoded(d) for d in dec]


def decode_many(ctx, hexes):
    cont = ctx.model(["container\t%s" % h for h in hexes])
    lines, owner = [], []
    for i, c in enumerate(cont):
        f = c.split("\t")
        if f[0] != "OK":
            continue
        for b in (f[5].split("/") if len(f) > 5 else []):
            lines.append("decode_track\t%s" % b)
            owner.append(i)
    dec = ctx.model(lines)
    out = [None if not c.startswith("OK") else [] for c in cont]
    for i, d in zip(owner, dec):
        out[i].append(midinotes.onoff_of_decoded(d))
    return out


def spec_notes(field):
    tracks = []
    for t in field.split("/"):
        if t == "-":
            tracks.append([])
            continue
        ns = []
        for n in t.split(","):
            ch, key, st, dur, vel = [int(x) for x in n.split(":")]
            ns.append((ch, key, st, dur, vel))
        tracks.append(sorted(ns, key=lambda n: (n[2], n[0], n[1], n[3], n[4])))
    return tracks


# the documented spellings of the commands the specification's printer writes (command.md: rows with one description)
SPELLINGS = [("TrackKey(", ["TrackKey(", "TR_KEY("]), ("KeyShift(", ["KeyShift(", "Key(", "KEY("]), ("TR(", ["TR(", "Track(", "TRACK("]),
             ("CH(", ["CH(", "Channel("]), ("Sub{", ["Sub{", "SUB{", "S{"]), ("@(", ["@(", "Voice(", "VOICE("]), ("KF+(", ["KF+(", "KeyFlag+("]),
             ("KF-(", ["KF-(", "KeyFlag-("])]


def respell(rng, text):
    """every occurrence of a command name is written with one of its documented spellings (they mean the same)"""
    if rng.random() < 0.5:
        return text
    for name, alts in SPELLINGS:
        if name in text:
            parts = text.split(name)
            text = parts[0] + "".join(rng.choice(alts) + p for p in parts[1:])
    return text


def once_in_chord_law(ctx, rng, n):
    """an octave-once mark inside a chord is for the next chord note only: `'c`eg'` sounds like `'c>e<g'` (away from the
    octave limits), and the first note after the chord is unaffected"""
    pairs = []
    for _ in range(n):
        k = rng.randrange(2, 5)
        notes = [rng.choice("cdefgab") + rng.choice(["", "", "+", "-"]) for _ in range(k)]
        j = rng.randrange(0, k)
        up = rng.random() < 0.5
        mark, go, back = ("`", ">", "<") if up else ('"', "<", ">")
        pre = rng.choice(["o5 ", "o4 l8 ", "o6 v90 ", "TR(2) o3 "])
        post = rng.choice([" a", " c d", " 'ce' g"])
        suffix = rng.choice(["", "4", "2,80"])
        a = pre + "'" + "".join(notes[:j]) + mark + notes[j] + "".join(notes[j + 1:]) + "'" + suffix + post
        b = pre + "'" + "".join(notes[:j]) + go + notes[j] + back + "".join(notes[j + 1:]) + "'" + suffix + post
        pairs.append((a, b))
    pairs += [("o5 'c`eg' a", "o5 'c>e<g' a"), ('o5 \'ce"g\' a', "o5 'ce<g>' a")]
    got = ctx.impl(["compile\t%s\t0" % vlib.enc_text(x) for ab in pairs for x in ab], stall=15)
    for i, (a, b) in enumerate(pairs):
        ga, gb = got[2 * i].split("\t")[0], got[2 * i + 1].split("\t")[0]
        ctx.count("once_in_chord", a)
        if ga != gb:
            ctx.oracle_fail("an octave-once mark inside a chord does not act on the next chord note only", "compile\t%s\t0" % vlib.enc_text(a),
                            "%r -> %s" % (a, ga[-120:]), "%r -> %s" % (b, gb[-120:]), input_text=a)


def keyflag_numeric_law(ctx, rng, n):
    """the numeric key signature KeyFlag=(a,b,c,d,e,f,g): every letter gets ITS OWN entry (sign included), whatever the
    other entries are; a natural-marked note ignores it"""
    letters = "abcdefg"
    base = {"c": 0, "d": 2, "e": 4, "f": 5, "g": 7, "a": 9, "b": 11}
    cases = []
    for _ in range(n):
        vals = [rng.choice([0, 0, 1, -1, 2, -2]) for _ in letters]
        txt = ",".join(("+%d" % v if (v > 0 and rng.random() < 0.5) else str(v)) for v in vals)
        order = [rng.choice(letters) for _ in range(rng.randrange(3, 9))]
        src = "KeyFlag=(%s) o5 l8 %s" % (txt, " ".join(order))
        want = [60 + base[x] + vals[letters.index(x)] for x in order]
        cases.append((src, want))
    cases += [("KeyFlag=(0,-1,1,0,0,0,0) o5 l8 a b c d", [69, 70, 61, 62]), ("KeyFlag=(-1,0,0,2,0,0,0) o5 l8 a d", [68, 64])]
    got = ctx.impl(["compile_ev\t%s" % vlib.enc_text(s) for s, _ in cases], stall=15)
    for (src, want), g in zip(cases, got):
        f = g.split("\t")
        ctx.count("keyflag_numeric", src)
        if len(f) < 3:
            ctx.oracle_fail("a program with a numeric key signature does not compile", src, g[:100], "a MIDI file", input_text=src)
            continue
        keys = [int(ev.split(":")[3]) for ev in f[2].split("/")[0].split(";") if ev.startswith("N:")] if f[2] != "-" else []
        if keys != want:
            ctx.oracle_fail("numeric key signature: a letter does not get its own entry", src, str(keys), str(want), input_text=src)


def run(ctx):
    rng = ctx.rng
    once_in_chord_law(ctx, rng, 60 if ctx.tier == "quick" else 3000)
    keyflag_numeric_law(ctx, rng, 80 if ctx.tier == "quick" else 3000)
    n = 1500 if ctx.tier == "quick" else 40000
    asts = [astgen.program(rng) for _ in range(n)]
    spec = ctx.model(["note_spec\t%s" % a for a in asts])
    progs = []
    for a, r in zip(asts, spec):
        f = r.split("\t")
        if len(f) != 2:
            if len(ctx.notes) < 5:
                ctx.notes.append("generator/driver: %s -> %s" % (a[:80], r[:60]))
            continue
        progs.append((a, respell(rng, vlib.dec_text(f[0])), spec_notes(f[1])))
    lines = ["compile_lex\t%s" % vlib.enc_text(p[1]) for p in progs]
    got = ctx.impl(lines, stall=20)
    mod = ctx.model(["compile_core\t%s" % vlib.enc_text(p[1]) for p in progs])
    dec = decode_many(ctx, [g.split("\t")[0] for g in got])
    for (a, src, want), g, m, d in zip(progs, got, mod, dec):
        nnotes = sum(len(t) for t in want)
        ctx.count("spec_programs", src if nnotes >= 3 else None)
        if len(ctx.samples) < 5 and nnotes >= 3:
            ctx.sample({"source": src[:200], "notes_expected": str(want)[:300]})
        if m.startswith("UNSUPPORTED") or m.startswith("OUTOFFUEL"):
            ctx.unsupported += 1
            ctx.dist[m] = ctx.dist.get(m, 0) + 1
        elif g != m:
            ctx.disagree("compile (lex/exec/generate)", src, g[:300], m[:300])
        if d is None:
            ctx.oracle_fail("output does not decode", src, g[:100], "decodable SMF", input_text=src)
            continue
        # tracks beyond those the spec created are empty in both
        dn = [t for t in d]
        wn = [midinotes.onoff_of_notes(t) for t in want] + [([], []) for _ in range(len(dn) - len(want))]
        if dn != wn:
            ctx.oracle_fail("sounded notes differ from the documented semantics", src, str(dn)[:600], str(wn)[:600], input_text=src)
    # model-internal consistency behind C03_exec (tested, not proved): the model lexer on the printed tree yields
    # exactly TLineNo 0 :: NoteSimDefs.tokens_of tree, for every generated tree inside wf_prog / lexable_prog
    lvt = ctx.model(["lex_vs_tokens\t%s" % p[0] for p in progs])
    for (a, src, want), r in zip(progs, lvt):
        if r.startswith("OK"):
            ctx.dist["lex_vs_tokens_ok"] = ctx.dist.get("lex_vs_tokens_ok", 0) + 1
        elif r.startswith("SKIP"):
            ctx.dist["lex_vs_tokens_skipped_" + r[5:]] = ctx.dist.get("lex_vs_tokens_skipped_" + r[5:], 0) + 1
        else:
            ctx.disagree("lex(pprog p) vs tokens_of p", src, r[:300], "OK")
    # free-form programs: correspondence only (the model answers UNSUPPORTED outside its fragment)
    srcs = [mmlgen.core_program(rng, feats={"tie": False}) for _ in range(n)]
    lines = ["compile_lex\t%s" % vlib.enc_text(s) for s in srcs]
    got = ctx.impl(lines, stall=20)
    mod = ctx.model(["compile_core\t%s" % vlib.enc_text(s) for s in srcs])
    for s, g, m in zip(srcs, got, mod):
        ctx.count("free_programs", None)
        if m.startswith("UNSUPPORTED") or m.startswith("OUTOFFUEL"):
            ctx.unsupported += 1
            ctx.dist[m] = ctx.dist.get(m, 0) + 1
        elif g != m:
            ctx.disagree("compile (lex/exec/generate)", s, g[:300], m[:300])


def replay(ctx, obj):
    f = obj.get("failure") or {}
    src = f.get("input")
    if src:
        print(ctx.impl(["compile_lex\t%s" % vlib.enc_text(src)]), ctx.model(["compile_core\t%s" % vlib.enc_text(src)]))


def still_fails(ctx, src):
    """used by the shrinker: the implementation's notes differ from what the model (proved equal to the documented
    semantics on the fragment) gives, or implementation and model differ in bytes"""
    g = ctx.impl(["compile_lex\t%s" % vlib.enc_text(src)], stall=10)[0]
    m = ctx.model(["compile_core\t%s" % vlib.enc_text(src)])[0]
    if m.startswith("UNSUPPORTED") or m.startswith("OUTOFFUEL") or m in ("PANIC",):
        return False
    return g != m
