"""C15 - every command emits the MIDI message the standard and the command list prescribe.
Theorems: props/C15.v (table theorems re-checked on the regenerated tables; message theorems for all values).
Translator check: the implementation's own tables (init_system_functions / init_variables through the pub
API) equal the generated Coq tables.
Cases: one-command programs `[CH(c)] [r] NAME(args);` for EVERY documented spelling x value pools.
Correspondence: events of the command model (model/Cmd.v through gen/SysFuncTable.v) == events the
implementation hands to the writer (compile_ev).
Oracle: the implementation's track body, decoded with the specification decoder (SmfSpec, core driver), equals
what the standard and the command list prescribe (spec/CmdSpec.v over GmSpec + DocTable, cmd driver) - nothing
of the oracle comes from the implementation or the model.  Aliases: all spellings of a documented alias group
give byte-identical files."""
import json, os
import vlib

COQ_TARGET = "props/C15.v"
THEOREMS = ["C15_cc_numbers", "C15_aliases", "C15_doc_copy_paste_not_aliases", "C15_rows_unique",
            "C15_doc_commands_defined", "C15_voices", "C15_rpn_addresses", "C15_meta_types",
            "C15_cc_bytes", "C15_named_controller", "C15_program", "C15_tempo", "C15_timesig", "C15_bend", "C15_rpn_nrpn",
            "C15_roland_checksum", "C15_roland_checksum_every_group", "C15_resets", "C15_text", "C15_utf8", "C15_model_meets_prescription"]
DRIVERS = ["cmd", "core"]
RULE = ("one-command programs for every spelling of command.md that has a prescription (controllers, CC/y, Voice/@, "
        "Tempo, TimeSignature, text metas, Port, PitchBend/p, RPN/NRPN and their named commands, resets, master volume/"
        "balance, GS effects) x boundary values 0,1,63,64,127 and out-of-domain values (thorough: every 7-bit value, "
        "every 14-bit bend, tempo 10..300), on channels 1..16 at tick 0 or after a rest; every voice.md name through "
        "Voice(Name) and @Name; text payloads of 0..200 characters of 1..4 byte characters; SysEx with Roland checksum "
        "braces; every documented alias group with an argument template; every multi-message command (RPN/NRPN named and "
        "direct, @/Voice with banks, GSScaleTuning) inside tracks of more than 20 events that are not in time order "
        "(chords, Sub, TIME rewinds, other controllers at the same tick): its messages contiguous and in the prescribed "
        "order at its tick. non-trivial = distinct case inside the "
        "documented domain whose decoded track holds at least one message")
TRUSTED = ["MIDI / SMF / GM / GS / XG constants as written by hand in spec/GmSpec.v",
           "command.md / voice.md parsing of tools/gen_tables.py (gen_doc); alias groups = equal descriptions up to `(ex)`"]
ASSUMES = ["argument evaluation (expressions, variables) is not part of the command model: arguments are literals or voice names",
           "documentation rows that share a description without being aliases are excepted by name (props/C15.v doc_copy_paste_groups)"]

DEV = 16
EXCEPT_GROUPS = [["System.q2Add", "q2Add", "System.Include", "Include", "INCLUDE"],
                 ["VibratoRate", "VibratoDepth", "VibratoDelay"], ["Str", "STR", "Array", "ARRAY"],
                 ["BREAK", "Break", "EXIT", "Exit", "CONTINUE", "Continue"]]
OOD7 = [-1, 128, 129, 255, 256, 1000, -200]


def ints_field(a):
    return ",".join(str(x) for x in a) if a else "-"


class Case:
    __slots__ = ("name", "args", "text", "ch", "rest", "form", "origin", "argsrc")

    def __init__(self, name, args, text=None, ch=0, rest=False, form="paren", origin="table", argsrc=None):
        self.name, self.args, self.text, self.ch, self.rest, self.form, self.origin = name, list(args), text, ch, rest, form, origin
        self.argsrc = argsrc   # textual arguments when they are not the decimal values (voice names)

    def time(self):
        return 96 if self.rest else 0

    def source(self):
        pre = ("CH(%d) " % (self.ch + 1) if self.ch else "") + ("r " if self.rest else "")
        a = self.argsrc if self.argsrc is not None else ",".join(str(x) for x in self.args)
        if self.form == "paren":
            body = "%s(%s)" % (self.name, a)
        elif self.form == "eq":
            body = "%s=%s" % (self.name, a)
        elif self.form == "bare":
            body = self.name
        elif self.form == "char":
            body = "%s%s" % (self.name, a)
        elif self.form == "text_q":
            body = '%s="%s"' % (self.name, self.text)
        elif self.form == "text_b":
            body = "%s({%s})" % (self.name, self.text)
        else:
            raise ValueError(self.form)
        return pre + body + ";"

    def fields(self):
        return "%s\t%d\t%d\t%d\t%s\t%s" % (vlib.enc_text(self.name), self.time(), self.ch, DEV, ints_field(self.args),
                                        vlib.enc_text(self.text or ""))

    def key(self):
        return (self.name, tuple(self.args), self.text, self.ch, self.rest, self.form, self.argsrc)


def pool7(ctx):
    return list(range(128)) if ctx.tier == "thorough" else [0, 1, 63, 64, 127]


def where(ctx, i):
    """channel / rest placement: mostly channel 1 at tick 0, regularly another channel after a rest"""
    r = ctx.rng
    if i % 4 == 0:
        return r.randrange(16), (r.random() < 0.5)
    return 0, False


def cases_for(ctx, name, presc, voices):
    """argument tuples by prescription kind: the documented domain exhaustively or at its edges + out-of-domain"""
    kind = presc.split(",")[0]
    p7 = pool7(ctx)
    out = []
    forms = ["paren", "eq"]

    def add(args, form=None, **kw):
        ch, rest = where(ctx, len(out))
        out.append(Case(name, args, ch=ch, rest=rest, form=form or forms[len(out) % 2 if len(args) == 1 else 0], **kw))
    if kind in ("Rpn", "Nrpn"):
        # read_rpn_command / read_nrpn_command take `(v)` only (`NAME=v` is reported as a syntax error)
        for v in p7 + OOD7:
            add([v], form="paren")
    elif kind in ("Controller", "MasterVolume", "GsEffect"):
        for v in p7 + OOD7:
            add([v])
    elif kind == "ControlChange":
        nos = p7 if ctx.tier == "thorough" else [0, 1, 6, 7, 10, 11, 32, 64, 91, 127]
        for no in nos:
            for v in ([0, 64, 127] if ctx.tier == "thorough" else [0, 1, 63, 64, 127]):
                if name == "y":
                    add([no, v], form="char")
                else:
                    add([no, v], form="paren")
        for no, v in [(128, 0), (0, 128), (-1, 5), (5, -1), (300, 300)]:
            add([no, v], form="char" if name == "y" else "paren")
    elif kind == "Program":
        f = "char" if name == "@" else None
        # the whole documented domain also in the quick tier for the one-character spelling (128 cheap cases)
        ns = list(range(1, 129)) if (ctx.tier == "thorough" or name == "@") else [1, 2, 64, 127, 128]
        for n in ns + [0, 129, -3, 1000]:
            add([n], form=f or "paren")
        for n, m, l in [(1, 0, 0), (128, 127, 127), (5, 1, 2), (26, 8, 0), (49, 0, 3), (1, 128, 0), (1, 0, 128), (0, 1, 1), (129, 1, 1)]:
            add([n, m, l], form=f or "paren")
        add([5, 9], form=f or "paren")   # two arguments: outside the documented forms, correspondence only
        for vn, no in voices:
            add([no], form=f or "paren", argsrc=vn, origin="voice")
    elif kind == "Tempo":
        # the whole documented domain also in the quick tier for the main spelling (291 cheap cases): a rounding slip shows at a
        # single value (seeded change C15-7: 151 only)
        ts = list(range(10, 301)) if (ctx.tier == "thorough" or name == "Tempo") else [10, 11, 59, 60, 61, 119, 120, 121, 151, 240, 299, 300]
        for t in ts + [9, 301, 0, -5, 1, 100000]:
            add([t])
    elif kind == "TimeSig":
        for nn in ([2, 3, 4, 6, 7, 12, 63, 64] if ctx.tier == "quick" else list(range(2, 65))):
            for dd in [2, 4, 8, 16]:
                add([nn, dd], form="paren" if (nn + dd) % 3 else "eq")
        for nn, dd in [(1, 4), (0, 4), (65, 4), (4, 1), (4, 3), (4, 32), (4, 64), (4, 0), (-1, -1), (200, 200)]:
            add([nn, dd], form="paren")
    elif kind == "Port":
        for v in [0, 1, 2, 15, 16, 127, 128, 255, 256, -1]:
            add([v])
    elif kind == "Bend":
        vs = list(range(-8192, 8192)) if ctx.tier == "thorough" else [-8192, -8191, -129, -128, -127, -1, 0, 1, 127, 128, 129, 8190, 8191]
        for v in vs + [8192, -8193, 20000, -20000]:
            add([v])
    elif kind == "BendSmall":
        for v in list(range(128)) + [128, 200]:
            add([v], form="char" if v % 2 else "paren")
    elif kind in ("RpnDirect", "NrpnDirect"):
        for m, l in [(0, 0), (0, 1), (0, 2), (1, 8), (1, 33), (127, 127), (63, 64)]:
            for v in [0, 1, 63, 64, 127]:
                add([m, l, v], form="paren")
        for t in [(128, 0, 0), (0, 128, 0), (0, 0, 128), (-1, 0, 0)]:
            add(list(t), form="paren")
    elif kind == "FixedSysEx":
        add([], form="bare")
        out[-1].ch, out[-1].rest = 0, False
        add([], form="bare")
        out[-1].ch, out[-1].rest = 3, True
    elif kind == "MasterBalance":
        for v in [-8192, -8191, -1, 0, 1, 63, 64, 127, 128, 8191, 8192, -8193]:
            add([v])
    elif kind == "GsEffectDirect":
        for a in [48, 49, 56, 64, 0, 127]:
            for v in [0, 1, 64, 127]:
                add([a, v], form="paren")
        add([128, 0], form="paren")
        add([48, 128], form="paren")
    elif kind == "GsRhythm":
        for v in [0, 1, 2, 3]:
            for ch in range(16):
                out.append(Case(name, [v], ch=ch, rest=(ch % 3 == 0), form="paren"))
    elif kind == "GsScaleTuning":
        add([64] * 12, form="paren")
        add([0, 127, 1, 63, 64, 65, 10, 20, 30, 40, 50, 60], form="paren")
        add([64] * 11, form="paren")
        add([64] * 11 + [128], form="paren")
    return out


# characters outside the sutoton vocabulary, 1..4 bytes in UTF-8
CH1, CH2, CH3, CH4 = "a", "é", "€", "\U0001F600"


def text_cases(ctx, text_names):
    rng = ctx.rng
    out = []
    lens = list(range(0, 201)) if ctx.tier == "thorough" else [0, 1, 2, 31, 32, 42, 43, 63, 64, 126, 127, 128, 129, 150, 200]
    for i, n in enumerate(lens):
        for j, c in enumerate([CH1, CH2, CH3, CH4]):
            name = text_names[(i + j) % len(text_names)]
            out.append(Case(name, [], text=c * n, form="text_q" if (i + j) % 2 else "text_b", origin="text"))
    for k in range(60 if ctx.tier == "quick" else 1500):
        n = rng.choice([0, 1, 5, 40, 60, 100, 126, 127, 128, 130, 200]) if rng.random() < 0.5 else rng.randrange(0, 201)
        t = "".join(rng.choice([CH1, CH1, "Z", " ", CH2, CH3, "한", CH4, "0", "-"]) for _ in range(n))
        name = rng.choice(text_names)
        ch, rest = (rng.randrange(16), True) if k % 5 == 0 else (0, False)
        out.append(Case(name, [], text=t, ch=ch, rest=rest, form=rng.choice(["text_q", "text_b"]), origin="text"))
    return out


ALIAS_TEMPLATES = {
    "End": ["c %s d", "c d e %s"],
    "Track": ["%s(2) c", "%s=3 c"], "Channel": ["%s(5) c", "%s(16) c"], "System.TimeBase": ["%s(48) c", "%s=480 c4"],
    "Rhythm": ["%s{ bhsh }", "%s{b4s8}"], "Rythm": ["%s{ bhsh }"], "Div": ["%s{ ceg }", "%s{cd}8"], "Sub": ["%s{c}e", "%s{ceg} d"],
    "System.KeyFlag": ["%s=(f) f", "%s+(c) c"], "KeyShift": ["%s(3) c", "%s=-2 c"], "TrackKey": ["%s(3) c"],
    "Play": ["#A={c} #B={e} %s(A,B)"], "SysEx": ["%s$=f0,7e,7f,09,01,f7;", "%s$=f0,41,10,42,12,{40,00,7f,00},f7;", "%s=$f0,$43,$10,$4c,0,0,$7e,0,$f7;"],
    "PlayFrom": ["c d %s(1:2:0) e", "c d e %s(2:1:0) f"], "PlayFromHere": ["c %s; d", "c d %s"],
    "System.MeasureShift": ["%s(1) Time(1:1:0) c"], "TrackSync": ["TR(1) c TR(2) c c %s; d"], "Slur": ["%s(1) c&d", "%s(0) c&e"],
    "System.vAdd": ["%s(10) c ) c"], "System.qAdd": ["%s(5) c q++ c"],
    "Int": ["%s A=3 @(A)"], "Print": ["%s({hello}) c"], "IF": ["%s(1==1){c}else{d}", "%s(1==2){c}"], "FOR": ["%s(Int I=0;I<3;I++){c}"],
    "WHILE": ["Int I=0 %s(I<3){c I++}"], "FUNCTION": ["%s F(){c} F()"], "RANDOM_SEED": ["%s(5) c"], "RETURN": ["Function F(){ c %s(1) d } F()"],
    "Cresc": ["%s(1) c", "%s=4,10,100 c"], "Decresc": ["%s(1) c"],
}


def decode_bodies(ctx, hexes):
    """first track body of every file, decoded by the specification decoder -> (items string | None, problem)"""
    cont = ctx.model(["container\t%s" % h for h in hexes], driver="core")
    bodies, res = [], []
    for c in cont:
        f = c.split("\t")
        if f[0] != "OK" or len(f) < 6:
            bodies.append(None)
        else:
            bodies.append(f[5].split("/")[0])
    dec = ctx.model(["decode_track\t%s" % b for b in bodies if b is not None], driver="core")
    it = iter(dec)
    for b, c in zip(bodies, cont):
        if b is None:
            res.append((None, "container: " + c[:80]))
            continue
        d = next(it)
        if d.startswith("DECODE-FAIL"):
            res.append((None, "track does not decode"))
        else:
            res.append((d.split("\t")[0], None))
    return res


def strip_eot(items):
    suffix = "0:Meta(47,-)"
    if items == suffix:
        return "-"
    if items.endswith(" " + suffix):
        return items[:-len(suffix) - 1]
    return None


def check_cases(ctx, cases):
    if not cases:
        return
    srcs = [c.source() for c in cases]
    impl = ctx.impl(["compile_ev\t%s" % vlib.enc_text(s) for s in srcs], stall=20)
    model = ctx.model(["cmd\t" + c.fields() for c in cases])
    spec = ctx.model(["spec\t" + c.fields() for c in cases])
    ok_idx = [i for i, g in enumerate(impl) if len(g.split("\t")) >= 4]
    decoded = dict(zip(ok_idx, decode_bodies(ctx, [impl[i].split("\t")[0] for i in ok_idx])))
    for i, (c, s, g, m, sp) in enumerate(zip(cases, srcs, impl, model, spec)):
        f = g.split("\t")
        in_domain = sp not in ("NOSPEC", "NODOMAIN") and not sp.startswith("BAD") and not sp.startswith("UNKNOWN")
        if len(f) < 4:
            # panic / hang of the implementation
            if in_domain:
                ctx.oracle_fail("the implementation does not compile the command (%s)" % g[:20], "spec\t" + c.fields(), g[:40], sp,
                                input_text=s)
            elif not (m.startswith("PANIC") and g.startswith("PANIC")):
                ctx.disagree("cmd", s, g[:100], m[:200])
            ctx.count(c.origin, None)
            continue
        evs = f[2].split("/")[0]
        if m.startswith("UNSUPPORTED"):
            ctx.unsupported += 1
        elif m != evs:
            ctx.disagree("cmd", {"source": s, "case": "cmd\t" + c.fields()}, evs[:400], m[:400])
        d, problem = decoded[i]
        got = strip_eot(d) if d is not None else None
        if in_domain:
            if got is None:
                ctx.oracle_fail("track of a one-command program does not decode (%s)" % problem, "spec\t" + c.fields(), (d or "")[:300], sp[:300],
                                input_text=s)
            elif got != sp:
                ctx.oracle_fail("decoded messages differ from what the standard / command list prescribe for %s" % c.name,
                                "spec\t" + c.fields(), got[:600], sp[:600], input_text=s)
        ctx.count(c.origin, c.key() if (in_domain and got not in (None, "-")) else None)
        if i % 997 == 0:
            ctx.sample({"source": s, "implementation_events": evs[:200], "model_events": m[:200], "decoded": (got or "")[:200], "prescribed": sp[:200]})


def translator_check(ctx):
    gi = ctx.impl(["sysfunc_table", "var_table", "rhythm_table"])
    gm = ctx.model(["sysfunc_table", "voice_table", "doc\tvalues", "doc\trhythm"])
    ctx.count("translator", None)
    if gi[0] != gm[0]:
        a, b = gi[0].split("\t"), gm[0].split("\t")
        ra, rb = set(a[-1].split(";")), set(b[-1].split(";"))
        ctx.disagree("translator:sysfunc_table", "init_system_functions() vs coq/gen/SysFuncTable.v",
                     "count %s only-implementation %s" % (a[0], sorted(ra - rb)[:8]), "count %s only-table %s" % (b[0], sorted(rb - ra)[:8]))
    ivars = dict(x.split(",") for x in gi[1].split(";") if x)
    voices = dict(x.split(",") for x in gm[1].split(";") if x)
    rest = {k: v for k, v in ivars.items() if k not in voices}
    if any(ivars.get(k) != v for k, v in voices.items()) or any(not k.startswith("SLUR_") for k in rest):
        ctx.disagree("translator:voice_table", "init_variables() vs coq/gen/VoiceTable.v",
                     str(sorted(rest.items()))[:300], str([k for k, v in voices.items() if ivars.get(k) != v])[:300])
    # documentation notes (not asserted): rhythm macro letters, code vs command.md
    code_r = {}
    for x in gi[2].split(";"):
        k, v = x.split(",")
        code_r[chr(int(k))] = "".join(chr(int(y)) for y in v.split())
    doc_r = {}
    for x in gm[3].split(";"):
        k, v = x.split(",", 1)
        doc_r[chr(int(k))] = vlib.dec_text(v)
    diff = {k: (code_r.get(k), v) for k, v in doc_r.items() if code_r.get(k) != v}
    if diff:
        ctx.notes.append("doc/code difference (not asserted): rhythm macro letters (code, command.md): %s" % diff)


def alias_checks(ctx, groups, prescs, voices):
    """every spelling of a documented alias group gives the same file (bytes and events) on the same arguments"""
    lines, owner = [], []
    for g in groups:
        if g in EXCEPT_GROUPS:
            ctx.dist["alias_group_excepted_doc_copy_paste"] = ctx.dist.get("alias_group_excepted_doc_copy_paste", 0) + 1
            continue
        members = list(g)
        progs = []
        p = next((prescs[n] for n in g if prescs.get(n, "NONE") != "NONE"), None)
        if p is not None:
            # same argument tuples for every spelling: take the cases of the first member and rename
            base = cases_for(ctx, members[0], p, voices[:6])
            for c in base[:: max(1, len(base) // (400 if ctx.tier == "thorough" else 40))]:
                row = []
                for n in members:
                    c2 = Case(n, c.args, c.text, c.ch, c.rest, c.form, "alias", c.argsrc)
                    row.append(c2.source())
                progs.append(row)
            if p.startswith("Text"):
                for t in ["", "abc", CH3 * 50, CH4 * 40]:
                    progs.append(['%s="%s";' % (n, t) for n in members])
        elif g[0] in ALIAS_TEMPLATES:
            for t in ALIAS_TEMPLATES[g[0]]:
                progs.append([t % n for n in members])
        else:
            ctx.dist["alias_group_without_template"] = ctx.dist.get("alias_group_without_template", 0) + 1
            ctx.notes.append("no argument template for alias group %s" % g) if len(ctx.notes) < 20 else None
            continue
        for row in progs:
            owner.append((g, row, len(lines)))
            lines += ["compile_ev\t%s" % vlib.enc_text(s) for s in row]
    got = ctx.impl(lines, stall=20)
    for g, row, at in owner:
        res = got[at:at + len(row)]
        # bytes, timebase and events must agree (the log may quote the spelling)
        norm = ["\t".join(r.split("\t")[:3]) for r in res]
        ctx.count("alias", (tuple(g), row[0]) if len(res[0].split("\t")) >= 4 and res[0].split("\t")[2] != "-" else None)
        for s, r in zip(row[1:], norm[1:]):
            if r != norm[0]:
                ctx.oracle_fail("spellings of one documented command behave differently: %r vs %r" % (row[0], s),
                                "compile_ev\t%s" % vlib.enc_text(s), r[:300], norm[0][:300], input_text=s)


def sysex_cases(ctx):
    """SysEx$= with checksum braces: correspondence of Event::sysex + the Roland law on the decoded payload"""
    rng = ctx.rng
    n = 60 if ctx.tier == "quick" else 3000
    lines, srcs, mods = [], [], []
    for k in range(n):
        body = [rng.choice([0, 1, 0x40, 0x7f, 0x10, rng.randrange(128)]) for _ in range(rng.choice([1, 2, 4, 4, 6, 16]))]
        pre = [0x41, rng.choice([0x10, 0x11, 0]), 0x42, 0x12]
        lead = rng.random() < 0.7
        trail = rng.random() < 0.7
        toks = (["f0"] if lead else []) + ["%02x" % b for b in pre]
        toks += ["{" + ",".join("%02x" % b for b in body) + "}"]
        toks += (["f7"] if trail else [])
        src = "SysEx$=" + ",".join(toks) + ";"
        args = ([0xF0] if lead else []) + pre + [-1] + body + [-2] + ([0xF7] if trail else [])
        srcs.append((src, pre, body))
        lines.append("compile_ev\t%s" % vlib.enc_text(src))
        mods.append("sysex\t0\t1\t%s" % ints_field(args))
    impl = ctx.impl(lines)
    model = ctx.model(mods)
    dec = decode_bodies(ctx, [g.split("\t")[0] for g in impl if len(g.split("\t")) >= 4])
    it = iter(dec)
    rol = []
    for (src, pre, body), g, m in zip(srcs, impl, model):
        f = g.split("\t")
        ctx.count("sysex", src)
        if len(f) < 4:
            ctx.oracle_fail("SysEx with checksum braces does not compile", src, g[:40], "a file", input_text=src)
            continue
        if f[2].split("/")[0] != m:
            ctx.disagree("sysex", src, f[2][:300], m[:300])
        d, problem = next(it)
        got = strip_eot(d) if d else None
        want_prefix = "0:SysEx(" + "".join("%02x" % b for b in pre + body)
        if got is None or not got.startswith(want_prefix) or not got.endswith("f7)") or len(got) != len(want_prefix) + 2 + 3:
            ctx.oracle_fail("Roland SysEx: decoded message is not F0 <header> <address+data> <checksum> F7", src, (got or problem)[:300],
                            want_prefix + "<cs>f7)", input_text=src)
            continue
        rol.append((src, got[len("0:SysEx(") + 2 * len(pre):-3]))
    oks = ctx.model(["roland_ok\t%s" % h for _, h in rol])
    for (src, h), ok in zip(rol, oks):
        if ok != "1":
            ctx.oracle_fail("Roland checksum: address + data + checksum is not 0 modulo 128", src, h, "sum mod 128 = 0", input_text=src)
    # several {..} groups in one message: EVERY group carries its own checksum (theorem C15_roland_checksum_every_group)
    lines, mods, srcs = [], [], []
    for k in range(30 if ctx.tier == "quick" else 1000):
        groups = [[rng.choice([0, 1, 0x40, 0x7f, rng.randrange(128)]) for _ in range(rng.choice([1, 3, 4, 6]))] for _ in range(rng.choice([2, 2, 3]))]
        mids = [[rng.randrange(128) for _ in range(rng.choice([0, 0, 1, 2]))] for _ in groups]
        toks, args = ["f0", "41", "10", "42", "12"], [0xF0, 0x41, 0x10, 0x42, 0x12]
        for g, m in zip(groups, mids):
            toks += ["%02x" % b for b in m] + ["{" + ",".join("%02x" % b for b in g) + "}"]
            args += m + [-1] + g + [-2]
        toks.append("f7")
        args.append(0xF7)
        src = "SysEx$=" + ",".join(toks) + ";"
        srcs.append((src, groups, mids))
        lines.append("compile_ev\t%s" % vlib.enc_text(src))
        mods.append("sysex\t0\t1\t%s" % ints_field(args))
    srcs.append(("SysEx$=f0,41,10,42,12,{40,00,7f,00},{40,01,30,05},f7;", [[0x40, 0, 0x7f, 0], [0x40, 1, 0x30, 5]], [[], []]))
    lines.append("compile_ev\t%s" % vlib.enc_text(srcs[-1][0]))
    mods.append("sysex\t0\t1\t%s" % ints_field([0xF0, 0x41, 0x10, 0x42, 0x12, -1, 0x40, 0, 0x7f, 0, -2, -1, 0x40, 1, 0x30, 5, -2, 0xF7]))
    impl = ctx.impl(lines)
    model = ctx.model(mods)
    dec = decode_bodies(ctx, [g.split("\t")[0] for g in impl if len(g.split("\t")) >= 4])
    it = iter(dec)
    for (src, groups, mids), g, m in zip(srcs, impl, model):
        f = g.split("\t")
        ctx.count("sysex_groups", src)
        if len(f) < 4:
            ctx.oracle_fail("SysEx with several checksum groups does not compile", src, g[:40], "a file", input_text=src)
            continue
        if f[2].split("/")[0] != m:
            ctx.disagree("sysex", src, f[2][:300], m[:300])
        d, problem = next(it)
        got = strip_eot(d) if d else None
        want = "41104212"
        for gr, mi in zip(groups, mids):
            want += "".join("%02x" % b for b in mi) + "".join("%02x" % b for b in gr) + "%02x" % ((128 - sum(gr) % 128) % 128)
        want = "0:SysEx(" + want + "f7)"
        if got != want:
            ctx.oracle_fail("Roland SysEx with several {..} groups: every group carries the checksum of its own bytes", src, (got or problem)[:300], want, input_text=src)


# ------------------------------------------------------------------------------------------------
# in context: the messages of one multi-message command stay together and in the prescribed order
# when the command sits in a larger track whose event list is NOT already in time order (more than
# 20 events, chords, Sub{}, TIME() rewinds, other controllers at the same tick)
# ------------------------------------------------------------------------------------------------
def decode_with_ticks(ctx, hexes):
    """first track of every file -> list of (abs tick, message string) or None"""
    cont = ctx.model(["container\t%s" % h for h in hexes], driver="core")
    bodies = []
    for c in cont:
        f = c.split("\t")
        bodies.append(f[5].split("/")[0] if (f[0] == "OK" and len(f) >= 6) else None)
    dec = ctx.model(["decode_track\t%s" % b for b in bodies if b is not None], driver="core")
    it = iter(dec)
    res = []
    for b in bodies:
        if b is None:
            res.append(None)
            continue
        d = next(it)
        if d.startswith("DECODE-FAIL") or "\t" not in d:
            res.append(None)
            continue
        items, ticks = d.split("\t")
        msgs = [x.split(":", 1)[1] for x in items.split(" ")]
        res.append(list(zip([int(t) for t in ticks.split(",")], msgs)))
    return res


def cmd_text(name, args, argsrc=None):
    a = argsrc if argsrc is not None else ",".join(str(x) for x in args)
    if name in ("@", "y", "p"):
        return "%s%s" % (name, a)
    return "%s(%s)" % (name, a)


CHORDS = ["'ceg'", "'dfa'", "'egb'", "'ceg'", "'fa>c<'", "'gb>d<'"]


def context_program(rng, ch, cluster_src):
    """a track with well over 20 events whose event list is not in time order, the cluster somewhere in it"""
    def chords(n):
        return " ".join(rng.choice(CHORDS) for _ in range(n))
    shape = rng.randrange(5)
    head = "CH(%d) " % (ch + 1) if ch else ""
    ln = rng.choice(["l4", "l8", "l4", "l16"])
    if shape == 0:      # cluster first, chords after (note-offs are appended out of order)
        body = "%s %s %s" % (cluster_src, ln, chords(rng.randrange(4, 8)))
    elif shape == 1:    # chords, a Sub block, rewind to the start, cluster, more chords
        body = "%s %s Sub{ %s } TIME(1:1:0) %s %s" % (ln, chords(3), chords(2), cluster_src, chords(rng.randrange(3, 6)))
    elif shape == 2:    # cluster in the middle of the track
        body = "%s %s %s %s Sub{ c d e f g a b } %s" % (ln, chords(rng.randrange(2, 5)), cluster_src, chords(3), chords(2))
    elif shape == 3:    # play ahead, jump back before the end and put the cluster there, among sounding notes
        body = "%s %s TIME(1:2:0) %s %s Sub{ %s } %s" % (ln, chords(6), cluster_src, chords(2), chords(2), chords(2))
    else:               # cluster at the very end after a rewind into the middle
        body = "%s %s Sub{ %s } %s TIME(1:3:0) %s" % (ln, chords(4), chords(3), chords(2), cluster_src)
    return head + body


def context_checks(ctx, names, prescs, corpus):
    """cases: (src, ch, cluster [(name, args)], tick or None).  The cluster's prescribed messages (CmdSpec) must be
    found, contiguous and in this order, among the controller / program / SysEx messages of its tick."""
    rng = ctx.rng
    multi = []
    for n in names + ["@"]:
        k = prescs.get(n, "NONE").split(",")[0]
        if k in ("Rpn", "Nrpn"):
            multi.append((n, lambda r: [r.choice([0, 1, 12, 64, 70, 127])]))
        elif k in ("RpnDirect", "NrpnDirect"):
            multi.append((n, lambda r: [r.choice([0, 1, 127]), r.choice([0, 2, 8, 33]), r.choice([0, 64, 127])]))
        elif k == "Program":
            multi.append((n, lambda r: [r.randrange(1, 129), r.randrange(0, 128), r.randrange(0, 128)]))
        elif k == "GsScaleTuning":
            multi.append((n, lambda r: [r.randrange(0, 128) for _ in range(12)]))
    cases = list(corpus)
    per = 3 if ctx.tier == "quick" else 60
    singles = [("M", 10), ("EP", 90), ("V", 101), ("P", 33), ("REV", 40), ("CHO", 41), ("PS", 1), ("PT", 5), ("VAR", 7)]
    for n, gen in multi:
        for k in range(per):
            ch = rng.randrange(16) if k % 2 else 0
            cluster = [("y", [20, 77])]
            if rng.random() < 0.7:
                cluster.append((rng.choice(singles)[0], [rng.randrange(128)]))
            cluster.append((n, gen(rng)))
            if rng.random() < 0.3:
                # a second multi-message command right behind it
                n2, gen2 = rng.choice(multi)
                cluster.append((n2, gen2(rng)))
            if rng.random() < 0.7:
                cluster.append((rng.choice(singles)[0], [rng.randrange(128)]))
            cluster.append(("y", [21, 78]))
            src = context_program(rng, ch, " ".join(cmd_text(a, b) for a, b in cluster))
            cases.append((src, ch, cluster, None))
    if not cases:
        return
    impl = ctx.impl(["compile_ev\t%s" % vlib.enc_text(c[0]) for c in cases], stall=20)
    spec_lines, owner = [], []
    for i, (src, ch, cluster, tick) in enumerate(cases):
        for (n, a) in cluster:
            spec_lines.append("spec\t%s\t0\t%d\t%d\t%s\t-" % (vlib.enc_text(n), ch, DEV, ints_field(a)))
            owner.append(i)
    spec = ctx.model(spec_lines)
    want = {}
    bad_spec = set()
    for i, sp in zip(owner, spec):
        if sp in ("NOSPEC", "NODOMAIN") or sp.startswith("BAD") or sp.startswith("UNKNOWN"):
            bad_spec.add(i)
            continue
        want.setdefault(i, []).extend(x.split(":", 1)[1] for x in sp.split(" "))
    ok_idx = [i for i, g in enumerate(impl) if len(g.split("\t")) >= 4]
    dec = dict(zip(ok_idx, decode_with_ticks(ctx, [impl[i].split("\t")[0] for i in ok_idx])))
    for i, (src, ch, cluster, tick) in enumerate(cases):
        if i in bad_spec:
            ctx.notes.append("context generator left the documented domain: %r" % src[:80]) if len(ctx.notes) < 10 else None
            continue
        d = dec.get(i)
        if d is None:
            ctx.oracle_fail("track with a command in context does not compile / decode", "compile_ev\t" + vlib.enc_text(src),
                            impl[i][:60], "a decodable track", input_text=src)
            continue
        exp = want[i]
        if tick is None:
            ts = [t for t, m in d if m == exp[0]]
            tick = ts[0] if ts else None
        sel = [m for t, m in d if t == tick and (m.startswith("CC(%d," % ch) or m.startswith("Program(%d," % ch) or m.startswith("SysEx("))]
        found = any(sel[k:k + len(exp)] == exp for k in range(0, len(sel) - len(exp) + 1))
        ctx.count("context", src if len(d) > 20 else None)
        ctx.dist["context_events_%s" % ("gt20" if len(d) > 20 else "le20")] = ctx.dist.get("context_events_%s" % ("gt20" if len(d) > 20 else "le20"), 0) + 1
        if not found:
            ctx.oracle_fail("in a larger track the messages of %s do not appear together in the prescribed order "
                            "(select MSB, select LSB, data entry / bank MSB, bank LSB, program) at tick %s"
                            % ("+".join(n for n, _ in cluster if n != "y"), tick),
                            "compile_ev\t" + vlib.enc_text(src), " ".join(sel)[:600], " ".join(exp)[:600], input_text=src)
        if i % 211 == 0:
            ctx.sample({"context_source": src[:200], "tick": tick, "messages_at_tick": " ".join(sel)[:300], "prescribed": " ".join(exp)[:300]})


def corpus_contexts():
    out = []
    p = os.path.join(vlib.VERIF, "corpus", "C15.jsonl")
    if os.path.exists(p):
        for line in open(p, encoding="utf-8"):
            if line.strip():
                o = json.loads(line)
                if "context" in o:
                    out.append((o["context"], o.get("ch", 0), [(c[0], c[1]) for c in o["cluster"]], o.get("tick")))
    return out



def corpus_alias_pairs():
    """corpus lines {"same": [src1, src2]}: two spellings that must give the same file"""
    out = []
    p = os.path.join(vlib.VERIF, "corpus", "C15.jsonl")
    if os.path.exists(p):
        for line in open(p, encoding="utf-8"):
            if line.strip():
                o = json.loads(line)
                if "same" in o:
                    out.append(o["same"])
    return out


def check_same(ctx, rows, origin):
    lines = ["compile_ev\t%s" % vlib.enc_text(s) for row in rows for s in row]
    got = ctx.impl(lines, stall=20)
    at = 0
    for row in rows:
        res = ["\t".join(r.split("\t")[:3]) for r in got[at:at + len(row)]]
        at += len(row)
        ctx.count(origin, tuple(row))
        for s, r in zip(row[1:], res[1:]):
            if r != res[0] or len(got[at - len(row)].split("\t")) < 4:
                ctx.oracle_fail("spellings of one documented command behave differently: %r vs %r" % (row[0], s),
                                "compile_ev\t%s" % vlib.enc_text(s), r[:300], res[0][:300], input_text=s)


def corpus_cases():
    out = []
    p = os.path.join(vlib.VERIF, "corpus", "C15.jsonl")
    if os.path.exists(p):
        for line in open(p, encoding="utf-8"):
            if line.strip():
                o = json.loads(line)
                if "same" in o or "context" in o:
                    continue
                out.append(Case(o["name"], o.get("args", []), o.get("text"), o.get("ch", 0), o.get("rest", False),
                                o.get("form", "paren"), "corpus", o.get("argsrc")))
    return out


def tables(ctx):
    r = ctx.model(["doc\tcommands", "doc\taliases", "doc\tvoices", "doc\tdrumsets"])
    names = r[0].split(";")
    groups = [g.split(",") for g in r[1].split(";")]
    voices = [(x.split(",")[0], int(x.split(",")[1])) for x in (r[2] + ";" + r[3]).split(";")]
    allnames = names + ["p", "y", "@"]
    pr = ctx.model(["presc\t%s" % vlib.enc_text(n) for n in allnames])
    return names, groups, voices, dict(zip(allnames, pr))


def run(ctx):
    translator_check(ctx)
    names, groups, voices, prescs = tables(ctx)
    check_cases(ctx, corpus_cases())
    check_same(ctx, corpus_alias_pairs(), "corpus")
    cases = []
    text_names = []
    for n in names + ["p", "y", "@"]:
        p = prescs[n]
        if p == "NONE":
            continue
        if p.startswith("Text"):
            text_names.append(n)
            continue
        cases += cases_for(ctx, n, p, voices)
    cases += [Case("TempoChange", [v], origin="table") for v in [120, 10, 300, 1, 0, -3, 60000001] + list(range(11, 300))]
    cases += text_cases(ctx, text_names)
    ctx.dist["spellings_with_prescription"] = sum(1 for n in prescs if prescs[n] != "NONE")
    ctx.dist["spellings_without_prescription"] = sum(1 for n in prescs if prescs[n] == "NONE")
    check_cases(ctx, cases)
    alias_checks(ctx, groups, prescs, voices)
    sysex_cases(ctx)
    context_checks(ctx, names, prescs, corpus_contexts())


def replay(ctx, obj):
    f = obj.get("failure") or {}
    src = f.get("input")
    print("replay: input =", repr(src)[:300])
    if isinstance(src, str):
        g = ctx.impl(["compile_ev\t%s" % vlib.enc_text(src)])[0].split("\t")
        print("implementation events:", g[2][:400] if len(g) > 2 else g)
        if len(g) > 2:
            print("decoded:", decode_bodies(ctx, [g[0]])[0][0])
    case = f.get("case")
    if isinstance(case, str) and case.startswith("spec\t"):
        print("prescribed:", ctx.model([case])[0][:400])
        print("model events:", ctx.model(["cmd\t" + case[5:]])[0][:400])
    print("expected:", str(f.get("expected"))[:400])
