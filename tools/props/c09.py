"""C09 - macros, string variables and Rhythm blocks expand to exactly their text.
Theorems: props/C09.v - replace_all is THE left-to-right replacement; subst_args = simultaneous replacement of "#?k" under
stated side conditions (five refuted witnesses outside them); the TValue token executes the tokens of its text (exact at
token level; `_partial`: call sites between balanced token lists, and anywhere inside nested loops of quiet tokens - the
lexer-side compositionality is not a theorem); rhythm_expand = the documented character automaton;
the built-in macro texts / rhythm letters of mml_def.rs equal command.md (H excluded by name, shown to differ).
Correspondence: `compile_core` (model) vs `compile_lex` (implementation) on every source generated here.
Oracle on the implementation = the law itself, byte for byte (`compile_lex`):
  macro     `#M={B with #?i} PRE #M({A1},..) POST`  ==  `PRE <B with the Ai substituted simultaneously> POST`
            at top level, in `[n ... ]` (with and without ':'), in Sub{...}, inside another macro (argument passed through or
            literal), twice in a row, with integer arguments; parameterless `#A={B} .. #A; ..`; upper-case names `Mx={B}`
            (lex-time definition) and `STR Mx={B};` (run-time definition: outside the model, oracle only)
  rhythm    `$x{..} Rhythm{TEXT}` == the MML obtained by expanding TEXT with the documented table + the redefinitions
  builtin   OctaveUnison{..}; Unison5th{..}; Unison3th{..}; Unison{..},n;  == their definitions in command.md inlined
The substitution and the rhythm expansion are re-implemented here from the property text (scanners below)."""
import json, os, re
import vlib, mmlgen

COQ_TARGET = "props/C09.v"
THEOREMS = ["C09_replace_all_spec", "C09_replaced_functional", "C09_contains_occurs", "C09_subst_spec", "C09_subst_int_args_inert",
            "C09_subst_arg_with_placeholder_refuted", "C09_subst_ten_arguments_refuted", "C09_subst_arg_ending_hash_refuted",
            "C09_subst_body_double_hash_refuted", "C09_subst_body_hash_q_hash_refuted",
            "C09_macro_inline", "C09_macro_step_general", "C09_exec_depth_mono", "C09_macro_inline_seq_partial", "C09_macro_inline_loops_partial", "C09_toks_of_flatten",
            "C09_rhythm", "C09_rhythm_redefine", "C09_rhythm_last_wins",
            "C09_builtin_macros", "C09_builtin_macro_names", "C09_builtin_macros_complete",
            "C09_rhythm_letters", "C09_rhythm_letter_H_differs", "C09_rhythm_letters_undocumented"]
DRIVERS = ["core"]
RULE = ("bodies B = 1..4 fragments of the core-language generator (notes with flags, rests, numbered notes, l/o/v/q/t and relative "
        "state commands, octave-once, chords, tuplets, Sub blocks, loops with ':', // and /* */ comments) interleaved with 0..5 "
        "placeholders #?1..#?3; arguments = fragments of the same generator, integers for state commands, sometimes empty, sometimes "
        "containing a call of another macro; call sites: top level, [n ..], [n .. : ..], Sub{..}, body of another macro, twice in a row; "
        "names #M / #Mac_1 / Mx; Rhythm texts over b s h m c H M L o _ r digits dots l (v..) (o..) [n ..] Sub{..} | with 0..3 "
        "redefinitions $x{..}; built-in macros on 1..6 notes. non-trivial = distinct macro source with a placeholder or state-changing body")
TRUSTED = ["the lexer is compositional at command boundaries for the generated fragments (a fragment followed by a blank lexes the "
           "same inside a macro text and inline) - exercised here, not proved (see C09_macro_inline_seq_partial)",
           "reading of command.md (tables 'Macro and Voice List', 'Rhythm macro') by this plugin and by tools/gen_tables.py"]
ASSUMES = ["inserted texts are separated by blanks; a parameterless call is closed by ';' (otherwise a following '(' or '{' is read as its "
           "argument list) and `Name{..},n` by ';' (an unparenthesised argument list absorbs a following ':' ',' or operator character)",
           "arguments: balanced braces, no \"#?\" inside (except the pass-through case, substituted one level up), never ending with '#'; "
           "bodies contain neither \"##\" nor \"#?#\" (so no '#' line comments): the side conditions of C09_subst_spec",
           "fewer than 10 arguments; every placeholder used has an argument",
           "no TimeBase, no definitions (`=`, `$x{}`) inside bodies, arguments or Rhythm texts; every name is defined once, before its "
           "first use (definitions are entered at lex time: `#A={c} #A #A={d} #A` plays d d - reported, not generated)",
           "calls are not placed inside a tuplet {..} or a chord '..' (the tuplet counts its elements at lex time)",
           "Rhythm: a parenthesised span is copied WITHOUT its outer parentheses (the code and Sakura v2), letter H = n50 as in "
           "mml_def.rs (command.md says n44), m M L as in mml_def.rs (command.md does not list them)"]

FEATS = {"loop": True, "chord": True, "tuplet": True, "sub": True, "comments": False, "note_n": True, "tie": False}
SIMPLE = {"loop": False, "chord": True, "tuplet": False, "sub": False, "comments": False, "note_n": True, "tie": False}
COMMENTS = [" /* y */ ", " // x\n", " /* c d e */ ", "\n"]


# ---------------------------------------------------------------------------------------------------------------
# the meaning, from the property text
# ---------------------------------------------------------------------------------------------------------------
def simultaneous(body, args):
    """every "#?k" (k = 1..len(args), longest numeral first) replaced by argument k in ONE pass; the inserted text is not read again"""
    out, i = [], 0
    keys = sorted(((("#?%d" % (k + 1)), a) for k, a in enumerate(args)), key=lambda x: -len(x[0]))
    while i < len(body):
        for key, a in keys:
            if body.startswith(key, i):
                out.append(a)
                i += len(key)
                break
        else:
            out.append(body[i])
            i += 1
    return "".join(out)


def rhythm_expand(defs, text):
    """letters 0x40..0x7F with a non-empty definition are replaced by it, Sub/SUB is kept (as SUB), a parenthesised span is
    copied without its outer parentheses (nesting counted), everything else is unchanged"""
    out, i = [], 0
    while i < len(text):
        if text.startswith("Sub", i) or text.startswith("SUB", i):
            out.append("SUB")
            i += 3
            continue
        ch = text[i]
        if ch == "(":
            depth, j = 1, i + 1
            while j < len(text):
                if text[j] == "(":
                    depth += 1
                elif text[j] == ")":
                    depth -= 1
                    if depth == 0:
                        break
                j += 1
            out.append(text[i + 1:j])
            i = j + 1
            continue
        if 0x40 <= ord(ch) <= 0x7F and defs.get(ch):
            out.append(defs[ch])
        else:
            out.append(ch)
        i += 1
    return "".join(out)


# the letters the program defines and command.md does not list, with the texts theorem C09_rhythm_letters_undocumented pins
# (GM percussion keys: m = open hi-hat 46, M = mid tom 47, L = low tom 43)
PINNED_UNDOCUMENTED = {"m": "n46,", "M": "n47,", "L": "n43,"}


def doc_tables(ctx):
    """command.md: built-in macro texts and rhythm letters; mml_def.rs only for what command.md does not give"""
    cmd = open(os.path.join(vlib.REPO, "command.md"), encoding="utf-8").read()
    macros = dict(re.findall(r'^\| (\w+) \|.*\(値:"(.*)"\) \|\s*$', cmd, re.M))
    m = re.search(r"^## Rhythm macro\s*\n(.*?)(?=^## )", cmd, re.S | re.M)
    rh = dict(re.findall(r'^\| (.) \| "(.*)" \|\s*$', m.group(1) if m else "", re.M))
    code = open(os.path.join(vlib.REPO, "src", "mml_def.rs"), encoding="utf-8").read()
    code_rh = dict(re.findall(r"rhthm_macro\['(.)' as usize - 0x40\] = String::from\(\"([^\"]*)\"\);", code))
    for k, v in sorted(code_rh.items()):
        if k not in rh:
            if k in PINNED_UNDOCUMENTED and v != PINNED_UNDOCUMENTED[k]:
                ctx.notes.append("rhythm letter %s = \"%s\" in mml_def.rs is not documented and differs from the pinned text \"%s\" "
                                 "(oracle uses the pinned text)" % (k, v, PINNED_UNDOCUMENTED[k]))
                rh[k] = PINNED_UNDOCUMENTED[k]
                continue
            ctx.notes.append("rhythm letter %s = \"%s\" in mml_def.rs is not documented in command.md (oracle uses the code's text)" % (k, v))
            rh[k] = v
        elif rh[k] != v:
            if k == "H":
                # the one judged difference (DESIGN 13.3: code n50, command.md n44; Coq: C09_rhythm_letter_H_differs): the code's text
                ctx.notes.append("DOC/CODE: rhythm letter %s is \"%s\" in command.md and \"%s\" in mml_def.rs (oracle uses the code's text; "
                                 "Coq: C09_rhythm_letter_H_differs)" % (k, rh[k], v))
                rh[k] = v
            else:
                # every other letter: the DOCUMENTED definition is the reference (theorem C09_rhythm_letters says code = command.md), so
                # a Rhythm text using the letter shows the difference as a failing input
                ctx.notes.append("DOC/CODE: rhythm letter %s is \"%s\" in command.md and \"%s\" in mml_def.rs (oracle uses command.md)" % (k, rh[k], v))
    for name in ("OctaveUnison", "Unison5th", "Unison3th", "Unison"):
        if name not in macros:
            ctx.notes.append("command.md gives no definition text for %s" % name)
    return macros, rh


# ---------------------------------------------------------------------------------------------------------------
# generators
# ---------------------------------------------------------------------------------------------------------------
def frag(rng, depth=None, n=None, feats=FEATS):
    s = mmlgen.block(rng, rng.choice([0, 1, 1, 2]) if depth is None else depth, n or rng.randrange(1, 4), feats)
    if rng.random() < 0.15:
        s += rng.choice(COMMENTS)
    return s


def gen_arg(rng, others):
    k = rng.random()
    if k < 0.10:
        return ""
    if k < 0.18 and others:
        return " " + rng.choice(others) + " c "       # a call of another (parameterless) macro inside the argument
    if k < 0.30:
        return rng.choice(["c", "e", "g+", "r8", ">", "<", "`", "o6", "v100", "l8"])
    return frag(rng, rng.choice([0, 1, 1]), rng.randrange(1, 4))


INT_SLOTS = [("o", ["3", "4", "5", "6"]), ("v", ["100", "127", "64", "1"]), ("q", ["100", "50", "90"]), ("l", ["4", "8", "16"]),
             ("@", ["1", "40", "128"]), ("t", ["0", "2"])]


def gen_body(rng, nargs):
    """-> (body text, list of (kind, arg)) where some arguments are forced to be integers (used as `o#?2`)"""
    pieces = [frag(rng)]
    forced = {}
    used = set()
    for _ in range(rng.randrange(0, 6) if nargs else 0):
        k = rng.randrange(1, nargs + 1)
        if rng.random() < 0.2 and (k not in used or k in forced):
            cmdc, pool = rng.choice(INT_SLOTS)
            forced.setdefault(k, rng.choice(pool))
            # an integer argument is always followed by ';' so that the command is closed whatever comes next
            pieces.append(" %s#?%d; " % (cmdc, k))
        elif k not in forced:
            pieces.append(" #?%d " % k)
        else:
            continue
        used.add(k)
        pieces.append(frag(rng, n=rng.randrange(1, 3)))
    return "".join(pieces), forced


def call_text(name, args, forced, rng):
    parts = []
    for i, a in enumerate(args):
        if (i + 1) in forced:
            parts.append(a if rng.random() < 0.6 else "{%s}" % a)        # integer literal or a string holding the digits
        else:
            parts.append("{%s}" % a)
    return "%s(%s)" % (name, ",".join(parts))


NAMES = ["#M", "#Mac_1", "#N2", "Mx", "Zq1", "Mid", "Chr", "Rnd", "Replace"]      # the last four: unreserved names that built-in FUNCTIONS also have


def gen_macro_cases(rng, n):
    """-> list of (macro_source, inlined_source, shape, model_supported)"""
    out = []
    while len(out) < n:
        name = rng.choice(NAMES)
        helper = "#H"                                   # a parameterless macro that arguments may call
        helper_body = frag(rng, 0, rng.randrange(1, 3), SIMPLE)
        nargs = rng.choice([0, 1, 1, 2, 2, 3])
        body, forced = gen_body(rng, nargs)
        nargs_eff = nargs
        use_helper = rng.random() < 0.3
        args = [forced[i + 1] if (i + 1) in forced else gen_arg(rng, [helper + ";"] if use_helper else []) for i in range(nargs_eff)]
        pre, post = frag(rng, 1, rng.randrange(0, 3)), frag(rng, 1, rng.randrange(0, 3))
        text = simultaneous(body, args)
        if "##" in body or "#?#" in body or any("#?" in a or a.endswith("#") for a in args):
            continue                                     # outside C09_subst_spec (cannot happen with these generators)
        hdef = "%s={%s}\n" % (helper, helper_body) if use_helper and any(helper in a for a in args) else ""
        hinl = lambda s: s.replace(helper + ";", " " + helper_body + " ")
        define = "%s={%s}\n" % (name, body)
        supported = True
        shape = rng.choice(["top", "top", "loop", "loop_break", "sub", "nested", "nested_pass", "twice", "str"])
        if nargs_eff == 0:
            call = name + ";"
        else:
            call = call_text(name, args, forced, rng)
        if shape == "str":
            if not name[0].isupper():
                shape = "top"
            else:
                define = "%s %s={%s};\n" % (rng.choice(["STR", "Str"]), name, body)
                supported = False
        if shape in ("top", "str"):
            a, b = "%s %s %s" % (pre, call, post), "%s %s %s" % (pre, text, post)
        elif shape == "loop":
            cnt = rng.choice(["2", "3", "1", "4"])
            a, b = "%s [%s %s %s ] %s" % (pre, cnt, call, "", post), "%s [%s %s %s ] %s" % (pre, cnt, text, "", post)
        elif shape == "loop_break":
            cnt = rng.choice(["2", "3", "1"])
            x = frag(rng, 0, 1)
            if rng.random() < 0.5:
                a, b = "%s [%s %s : %s ] %s" % (pre, cnt, call, x, post), "%s [%s %s : %s ] %s" % (pre, cnt, text, x, post)
            else:
                a, b = "%s [%s %s : %s ] %s" % (pre, cnt, x, call, post), "%s [%s %s : %s ] %s" % (pre, cnt, x, text, post)
        elif shape == "sub":
            a, b = "Sub{ %s %s %s } c" % (pre, call, post), "Sub{ %s %s %s } c" % (pre, text, post)
        elif shape == "nested":
            outer = "#Out"
            x, y = frag(rng, 0, 1), frag(rng, 0, 1)
            define += "%s={%s %s %s}\n" % (outer, x, call, y)
            a, b = "%s %s; %s" % (pre, outer, post), "%s %s %s %s %s" % (pre, x, text, y, post)
        elif shape == "nested_pass":
            # the outer macro hands its own parameter on:  #Out={ x #M({#?1},..) y }   #Out({A1})
            if nargs_eff == 0 or 1 in forced:
                continue
            outer = "#Out"
            x, y = frag(rng, 0, 1), frag(rng, 0, 1)
            inner_args = ["#?1"] + args[1:]
            define += "%s={%s %s %s}\n" % (outer, x, call_text(name, inner_args, forced, rng), y)
            a, b = "%s %s({%s}) %s" % (pre, outer, args[0], post), "%s %s %s %s %s" % (pre, x, text, y, post)
        else:
            args2 = [forced[i + 1] if (i + 1) in forced else gen_arg(rng, []) for i in range(nargs_eff)]
            call2 = name + ";" if nargs_eff == 0 else call_text(name, args2, forced, rng)
            a, b = "%s %s %s %s" % (pre, call, call2, post), "%s %s %s %s" % (pre, text, simultaneous(body, args2), post)
        out.append((hdef + define + a, hinl(b), shape, supported, bool(nargs_eff) or bool(re.search(r"[lovqt<>`\"()]", body))))
    return out


RH_LETTERS = list("bshmcHMLo_") + ["b", "s", "h"]
RH_LEN = ["", "", "", "4", "8", "16", "8.", "2"]


def gen_rhythm_text(rng, depth=1):
    parts = []
    for _ in range(rng.randrange(1, 9)):
        k = rng.random()
        if k < 0.60:
            parts.append(rng.choice(RH_LETTERS) + rng.choice(RH_LEN))
        elif k < 0.68:
            parts.append("r" + rng.choice(RH_LEN))
        elif k < 0.76:
            parts.append(rng.choice(["l8", "l16", "l4"]))
        elif k < 0.86:
            parts.append(rng.choice(["(v100)", "(v64)", "(o5)", "(q80)", "(l8)", "(v(127))", "(>)", "(c)", "(be)",
                                    # nested parentheses INSIDE a protected span, followed by letters that have a rhythm definition
                                    "(CH(10) o5c4)", "(v(100) c8 b)", "(KeyShift(1) s4 h)", "(o(4) b(8))", "((c) h m)"]))
        elif k < 0.92 and depth > 0:
            parts.append("[%s %s]" % (rng.choice(["2", "3", ""]), gen_rhythm_text(rng, depth - 1)))
        elif k < 0.96 and depth > 0:
            # (the Sub command accepts blanks before its brace everywhere; the word is protected whatever follows it)
            parts.append("%s%s{%s}" % (rng.choice(["Sub", "SUB"]), rng.choice(["", "", " ", "\t", "  "]), gen_rhythm_text(rng, depth - 1)))
        else:
            parts.append(rng.choice(["|", " ", "\n", "x", "z8", "Q"]))
        if rng.random() < 0.3:
            parts.append(" ")
    return "".join(parts)


def gen_flow_cases(rng, n):
    """a macro whose body holds BREAK / CONTINUE / RETURN, used inside a FOR / WHILE loop or a function: the macro's text
    stands where it is written, so the flow command acts on the loop / call AROUND the use (with and without arguments)"""
    out = []
    for _ in range(n):
        k = rng.choice([3, 4, 5])
        j = rng.randrange(0, k)
        flow = rng.choice(["BREAK", "CONTINUE", "BREAK"])
        note1, note2 = rng.choice("cdefgab"), rng.choice("cdefgab")
        shape = rng.choice(["for_arg", "for_noarg", "while_arg", "func_return"])
        if shape == "for_arg":
            body = "IF(I==#?1){ %s } %s" % (flow, note1)
            macro = "#Fm={ %s } FOR(INT I=0;I<%d;I++){ %s #Fm(%d) } %s" % (body, k, note2, j, note1)
            inline = "FOR(INT I=0;I<%d;I++){ %s IF(I==%d){ %s } %s } %s" % (k, note2, j, flow, note1, note1)
        elif shape == "for_noarg":
            body = "IF(I==%d){ %s } %s" % (j, flow, note1)
            macro = "#Fm={ %s } FOR(INT I=0;I<%d;I++){ %s #Fm } %s" % (body, k, note2, note1)
            inline = "FOR(INT I=0;I<%d;I++){ %s %s } %s" % (k, note2, body, note1)
        elif shape == "while_arg":
            body = "J++ IF(J==#?1){ %s } %s" % (flow, note1)
            macro = "#Fm={ %s } INT J=0 WHILE(J<%d){ #Fm(%d) %s } %s" % (body, k, j + 1, note2, note1)
            inline = "INT J=0 WHILE(J<%d){ J++ IF(J==%d){ %s } %s %s } %s" % (k, j + 1, flow, note1, note2, note1)
        else:
            body = "%s IF(#?1>0){ RETURN(1) } %s" % (note1, note2)
            macro = "#Fm={ %s } FUNCTION FQ(N){ #Fm(N) %s } FQ(%d) FQ(0) %s" % (body, note2, j + 1, note1)
            inline = "FUNCTION FQ(N){ %s IF(N>0){ RETURN(1) } %s %s } FQ(%d) FQ(0) %s" % (note1, note2, note2, j + 1, note1)
        out.append((macro, inline, "flow", False, True))
    return out


def gen_rhythm_cases(rng, n, table):
    out = []
    # every letter of the table directly followed by every length form (the definition text meets what follows it)
    for c in sorted(table):
        if c.isalpha() or c == "_":
            text = " ".join(c + ln for ln in ["", "8", "16", "4.", "2"]) + " " + c + c
            out.append(("CH(10) l4 Rhythm{%s} c" % text, "CH(10) l4 %s c" % rhythm_expand(dict(table), text), "rhythm_letters", True, True))
    for _ in range(n):
        defs = dict(table)
        deftext = ""
        for _ in range(rng.choice([0, 0, 1, 1, 2, 3])):
            c = rng.choice(list("bshxzQ_oM"))
            t = rng.choice(["n35,", "n40,", "n60,", "[2 n45,]", "n37,16", "r", "", "'n36,n42,'"])
            deftext += "$%s%s{%s} " % (c, rng.choice(["", "", "="]), t)
            defs[c] = t
        text = gen_rhythm_text(rng)
        pre, post = frag(rng, 1, rng.randrange(0, 2), SIMPLE), frag(rng, 1, rng.randrange(0, 2), SIMPLE)
        word = rng.choice(["Rhythm", "Rhythm", "RHYTHM", "R", "Rythm"])
        out.append(("%s%s %s{%s} %s" % (deftext, pre, word, text, post), "%s %s %s" % (pre, rhythm_expand(defs, text), post), "rhythm", True, True))
    # a macro is expanded to its TEXT at every use, under the definitions in force at that moment: the same macro used before
    # and after a rhythm letter was redefined at run time (by another macro) plays the old and then the new letter
    for _ in range(max(4, n // 12)):
        c = rng.choice(list("bshm"))
        t1, t2 = rng.sample(["n35,", "n40,", "n60,", "n37,16", "n45,8", "r"], 2)
        x = " ".join(rng.choice([c, c + "4", c + "8", "r8", "(v100)"]) for _ in range(rng.randrange(1, 5))) + " " + c
        k = rng.choice([2, 3])
        uses = " ".join(["#Rm"] + ["#Df #Rm"] * (k - 1))
        macro = "#Rm={Rhythm{%s}} #Df={$%s{%s}} $%s{%s} %s" % (x, c, t2, c, t1, uses)
        inline = "$%s{%s} Rhythm{%s} " % (c, t1, x) + " ".join(["$%s{%s} Rhythm{%s}" % (c, t2, x)] * (k - 1))
        out.append((macro, inline, "rhythm_runtime", True, True))
    return out


def gen_builtin_cases(rng, n, macros):
    out = []
    for _ in range(n):
        notes = "".join(rng.choice("cdefgab") + rng.choice(["", "", "4", "8", "+"]) for _ in range(rng.randrange(1, 7)))
        name = rng.choice(["OctaveUnison", "Unison5th", "Unison3th", "Unison"])
        if name not in macros:
            continue
        pre, post = frag(rng, 1, rng.randrange(0, 2), SIMPLE), frag(rng, 1, rng.randrange(0, 2), SIMPLE)
        if rng.random() < 0.5:
            # a song key / track key already in force: the documented texts set and reset the SONG key
            # (closed with `;` or `)`: an open argument would absorb a following `|` or `(` - the proviso of C18)
            pre = rng.choice(["Key=2; ", "KeyShift(3) ", "TrackKey=-2; ", "TrackKey(5) ", "Key=-1; TrackKey=4; "]) + pre
        if name == "Unison":
            k = str(rng.choice([7, 4, 12, 3, 5, -12, 0]))
            call = rng.choice(["Unison{%s},%s;", "Unison({%s},%s)"]) % (notes, k)
            text = simultaneous(macros[name], [notes, k])
        else:
            call = rng.choice(["%s{%s};", "%s({%s})"]) % (name, notes)
            text = simultaneous(macros[name], [notes])
        out.append(("%s %s %s" % (pre, call, post), "%s %s %s" % (pre, text, post), "builtin", True, True))
    return out


# ---------------------------------------------------------------------------------------------------------------
def compare(ctx, cases, origin):
    """cases: (source with the macro / Rhythm block, source with the text written out, shape, model supports it, non-trivial)"""
    lines = []
    for a, b, _, _, _ in cases:
        lines.append("compile_lex\t%s" % vlib.enc_text(a))
        lines.append("compile_lex\t%s" % vlib.enc_text(b))
    got = ctx.impl(lines, stall=20)
    mod = ctx.model([l.replace("compile_lex", "compile_core", 1) for l in lines])
    for i, (a, b, shape, supported, nt) in enumerate(cases):
        ga, gb = got[2 * i].split("\t")[0], got[2 * i + 1].split("\t")[0]
        ctx.count(origin + ":" + shape, a if nt else None)
        ctx.sample({"shape": shape, "with_macro": a[:240], "inlined": b[:240], "bytes_equal": ga == gb, "bytes": len(ga) // 2})
        # correspondence, both sources
        for src, g, m in ((a, got[2 * i], mod[2 * i]), (b, got[2 * i + 1], mod[2 * i + 1])):
            if m.startswith("UNSUPPORTED") or m.startswith("OUTOFFUEL"):
                ctx.unsupported += 1
                ctx.dist["model:" + m.split("\t")[0]] = ctx.dist.get("model:" + m.split("\t")[0], 0) + 1
            elif g != m:
                ctx.disagree("compile (lex/exec/generate) on a macro source", src, g[:300], m[:300])
        # the law
        if gb in ("PANIC", "HANG", "ABORT"):
            ctx.dist["inlined_" + gb] = ctx.dist.get("inlined_" + gb, 0) + 1
            if ga == gb:
                continue
        if ga != gb:
            ctx.oracle_fail("%s: the source using the macro and the source with its text written out compile to different bytes" % shape,
                            lines[2 * i], ga[:600], gb[:600], input_text=a)


def run(ctx):
    rng = ctx.rng
    quick = ctx.tier == "quick"
    macros, table = doc_tables(ctx)
    # corpus first
    cases = []
    p = os.path.join(vlib.VERIF, "corpus", "C09.jsonl")
    if os.path.exists(p):
        for line in open(p, encoding="utf-8"):
            if line.strip():
                o = json.loads(line)
                if "equals" in o:
                    cases.append((o["src"], o["equals"], "corpus", o.get("model", True), True))
                elif "plays_like" in o:
                    # documented behaviour that is NOT the law (reported only)
                    g = ctx.impl(["compile_lex\t%s" % vlib.enc_text(o["src"]), "compile_lex\t%s" % vlib.enc_text(o["plays_like"])])
                    ctx.notes.append("%s: `%s` %s `%s`" % (o.get("why", "behaviour"), o["src"],
                                     "compiles like" if g[0].split("\t")[0] == g[1].split("\t")[0] else "does NOT compile like", o["plays_like"]))
    compare(ctx, cases, "corpus")
    compare(ctx, gen_macro_cases(rng, 1400 if quick else 30000), "generated")
    compare(ctx, gen_flow_cases(rng, 40 if quick else 1500), "generated")
    compare(ctx, gen_rhythm_cases(rng, 500 if quick else 8000, table), "generated")
    compare(ctx, gen_builtin_cases(rng, 200 if quick else 2000, macros), "generated")


def replay(ctx, obj):
    f = obj.get("failure") or {}
    src = f.get("input")
    print("replay: input =", repr(src)[:800])
    if src:
        print("implementation:", ctx.impl(["compile_lex\t%s" % vlib.enc_text(src)])[0][:400])
        print("model:         ", ctx.model(["compile_core\t%s" % vlib.enc_text(src)])[0][:400])
        print("expected bytes:", str(f.get("expected"))[:400])
