"""C02 - each track is a legal MIDI event stream reproducing the song's events exactly.
Theorems: props/C02.v. Correspondence: model generate vs midi::generate on constructed songs (every event
kind, out-of-range values, the whole VLQ range, long SysEx, same-tick runs). Oracle: the extracted
specification decoder (SmfSpec.decode_track) applied to the implementation's track bodies and compared
with what the event list - snapshot taken before generate() - denotes (TrackSpec.wire)."""
import vlib, evgen, mmlgen

COQ_TARGET = "props/C02.v"
THEOREMS = ["C02_vlq_roundtrip", "C02_track_decodes", "C02_abs_ticks", "C02_normalize", "C02_stable_sort_unique", "C02_compile_decodes", "C02_events_wf_from_source"]
RULE = ("constructed songs: 1..40 tracks of 0..30 events of every kind, channels -1..20, values in and out of the 7-bit / "
        "14-bit range, deltas over the whole 0..2^28-1 VLQ range, SysEx/meta payloads 0..400 bytes, shuffled times; plus "
        "compiled MML sources (core-language programs, sample songs and mutations). non-trivial = distinct case whose "
        "tracks decode to at least 3 messages")
TRUSTED = ["slice::sort_by is stable (the model's insertion sort is proved to be THE stable sort: C02_stable_sort_unique)",
           "SMF 1.0 grammar as written in spec/SmfSpec.v"]
ASSUMES = ["DirectSMF payloads and hand-built Meta events whose length byte disagrees with the payload are excluded, as the property says"]


def split_chunks(ctx, hexbytes):
    r = ctx.model(["container\t%s" % hexbytes])[0].split("\t")
    return r


def check_songs(ctx, cases, origin, with_model):
    """cases: list of (label, hexbytes, tracks_field) - decode every chunk against its event list"""
    cont = ctx.model(["container\t%s" % c[1] for c in cases])
    lines, owner = [], []
    for (label, hx, tracks), c in zip(cases, cont):
        f = c.split("\t")
        if f[0] != "OK":
            ctx.oracle_fail("container does not parse, so no track can be decoded", label, c[:200], "OK", input_text=label)
            continue
        bodies = f[5].split("/") if len(f) > 5 else []
        trs = tracks.split("/")
        if len(bodies) != len(trs):
            ctx.oracle_fail("chunk count differs from the number of tracks", label, len(bodies), len(trs), input_text=label)
            continue
        for i, (b, t) in enumerate(zip(bodies, trs)):
            lines.append("track_oracle\t%s\t%s" % (t, b))
            owner.append((label, i))
    res = ctx.model(lines)
    per = {}
    for (label, i), r, line in zip(owner, res, lines):
        f = r.split("\t")
        per.setdefault(label, 0)
        if f[0] == "OK":
            per[label] += int(f[1])
        elif f[0].startswith("EXCLUDED"):
            ctx.dist["excluded_tracks:" + origin] = ctx.dist.get("excluded_tracks:" + origin, 0) + 1
            if origin == "compiled":
                # songs built by hand may hold events the writer's one-byte meta length cannot carry; the COMPILER must not
                ctx.oracle_fail("the compiler handed the writer an event outside what the writer can encode (%s)" % r[:80], line[:2000],
                                r[:200], "text metas are cut to 127 bytes", input_text=label)
        else:
            ctx.oracle_fail("track %d does not decode to its event list (%s)" % (i, f[0]), line[:2000],
                            f[2][:600] if len(f) > 2 else f[0], f[1][:600] if len(f) > 1 else "", input_text=label)
    for label, n in per.items():
        ctx.count(origin, label if n >= 3 else None)


def run(ctx):
    rng = ctx.rng
    n = 400 if ctx.tier == "quick" else 12000
    # constructed songs: correspondence + oracle
    songs = [evgen.song(rng, wild=(rng.random() < 0.6)) for _ in range(n)]
    lines = ["generate\t%d\t%s" % s for s in songs]
    got = ctx.impl(lines)
    mod = ctx.model(lines)
    cases = []
    for s, g, m, line in zip(songs, got, mod, lines):
        if m.startswith("PANIC") or m.startswith("UNSUPPORTED"):
            ctx.unsupported += 1
        elif g != m:
            ctx.disagree("generate", line[:3000], g[:400], m[:400])
        if not g.startswith("PANIC") and g not in ("HANG", "ABORT"):
            cases.append((line[:4000], g, s[1]))
    for c in cases[:3]:
        ctx.sample({"constructed_song": c[0][:300], "bytes": c[1][:200]})
    check_songs(ctx, cases, "constructed", True)
    # compiled sources: oracle on the event snapshot
    srcs = [mmlgen.core_program(rng) for _ in range(n)]
    srcs += mmlgen.samples()
    srcs += [mmlgen.mutate(rng, s) for s in mmlgen.samples() for _ in range(3 if ctx.tier == "quick" else 40)]
    # text metas around the 127-byte limit of their one-byte length (1-, 2-, 3-, 4-byte characters; the text is cut, the
    # track must still decode event by event)
    for ch in ["a", "é", "あ", "😀"]:
        for k in [126, 127, 128, 129, 300]:
            n = max(1, k // len(ch.encode("utf-8")))
            for pad in ["", "x", "xy"]:
                srcs.append("%s={%s%s} l4 cde" % (rng.choice(["TrackName", "Copyright", "Lyric", "MetaText", "Marker"]), pad, ch * n))
    srcs += ["y1,200 c", "o10 b", "t-10 c d", "SysEx$=F0,41,10,42,12," + ",".join(["01"] * 130) + ",F7 c", "q100 l%127 c d",
             "v200 c", "PB(20000) c", "p(200) c", "CH(20) c", "@300 c"]
    lines = ["compile_ev\t%s" % vlib.enc_text(s) for s in srcs]
    got = ctx.impl(lines, stall=20)
    cases = []
    for s, g in zip(srcs, got):
        f = g.split("\t")
        if len(f) < 4:
            ctx.dist["compile_" + g[:12]] = ctx.dist.get("compile_" + g[:12], 0) + 1
            continue
        cases.append((s, f[0], f[2]))
    for c in cases[:3]:
        ctx.sample({"source": c[0][:200], "events": c[2][:300]})
    check_songs(ctx, cases, "compiled", False)


def replay(ctx, obj):
    f = obj.get("failure") or {}
    print("replay: input =", repr(f.get("input"))[:500])
    line = f.get("case")
    if isinstance(line, str) and line.startswith("track_oracle"):
        print(ctx.model([line]))
