"""C11 - IF / FOR / WHILE / BREAK / CONTINUE and user functions behave like the unrolled program.
Theorems: props/C11.v (the model's exec() on script tokens = the big-step semantics of spec/ScriptSem.v, for any nesting;
corollaries on branches, unrolling, BREAK / CONTINUE, the iteration limit, calls, defaults, RETURN, scopes).
Correspondence: the extracted script-layer model `compile_script` vs the implementation `compile_lex` (lib.rs compile without
sutoton), MIDI bytes and the whole log text, on every generated script and on its straight-line expansion.
Oracle on the implementation = the law itself: this plugin generates a structured program (Python syntax tree) TOGETHER with
its meaning computed here from the property text (integer expressions, one branch of an IF, loops while the condition holds,
BREAK / CONTINUE of the innermost loop, the iteration limit, calls in a fresh scope with positional binding and declared
defaults, RETURN / Result) as the sequence of leaf commands executed and values printed.  The implementation must give, for
the structured text, the same MIDI bytes as for the straight-line text (the executed leaves written one after the other, PRINTs
with literal values), the same printed values in the same order, and no other log line than one limit error per loop cut off."""
import json, os, re
import vlib

COQ_TARGET = "props/C11.v"
THEOREMS = ["C11_exec_vs_sem", "C11_run_script", "C11_machine_is_fold", "C11_fuel_mono", "C11_if_one_branch", "C11_if_one_branch_tokens",
            "C11_loop_unroll", "C11_loop_unroll_text", "C11_for_unroll", "C11_break_exits_loop", "C11_break_innermost",
            "C11_continue", "C11_continue_for", "C11_limit", "C11_limit_for", "C11_call_named", "C11_call_named_tokens",
            "C11_statement_call", "C11_statement_call_tokens", "C11_signals_stop_at_call", "C11_defaults", "C11_return_immediate",
            "C11_return_from_loops", "C11_return_keeps_result", "C11_scope", "C11_scope_statement_call", "C11_local_writes_only",
            "C11_args_in_caller_scope", "C11_call_in_caller_scope", "C11_statement_call_in_caller_scope",
            "C11_call_value_from_callee_frame", "C11_call_without_result",
            "C11_for_unroll_text", "C11_loop_unroll_exec", "C11_loop_unroll_exec_text", "C11_for_unroll_exec",
            "C11_for_unroll_exec_text", "C11_break_innermost_block", "C11_break_innermost_for_block",
            "C11_continue_innermost", "C11_continue_innermost_for", "C11_loop_signals_stay_inside", "C11_for_signals",
            "C11_for_plain_signals", "C11_break_innermost_nested", "C11_continue_skips_text", "C11_continue_skips_text_for",
            "C11_break_innermost_exec", "C11_break_innermost_for_exec", "C11_continue_skips_exec",
            "C11_continue_skips_for_exec", "C11_for_increment_break_innermost", "C11_for_increment_continue_innermost",
            "C11_for_increment_break_exec", "C11_for_increment_break_stays", "C11_for_increment_break_outer_goes_on",
            "C11_for_increment_continue_outer_goes_on",
            "C11_limit_never_ends", "C11_limit_never_ends_for", "C11_limit_constant", "C11_limit_exec",
            "C11_limit_for_exec", "C11_defaults_fill", "C11_defaults_given", "C11_defaults_missing",
            "C11_defaults_valueless", "C11_extra_args_ignored", "C11_defaults_exec", "C11_defaults_entry_exec",
            "C11_extra_args_exec", "C11_return_anywhere", "C11_return_value", "C11_return_from_for", "C11_return_exec",
            "C11_scope_reads", "C11_scope_call_exec", "C11_scope_value_exec", "C11_scope_block_exec"]
DRIVERS = ["script", "core"]
RULE = ("programs of 2..7 statements over: leaf commands (notes c d e f g a b with lengths, rests, o/l/v/q state commands), PRINT of 1..3 "
        "integer expressions, INT declarations with and without initialiser, assignments, X++ / X--, IF with and without ELSE (conditions = "
        "comparisons in all spellings joined by & and |, or an integer expression), FOR(INT I=a; I<b; I++/I=I+k) - a quarter of them with a bare or "
        "guarded BREAK / CONTINUE written in the increment slot, which belong to that FOR - and WHILE with a counter "
        "(test first or WHILE(1) with a guarded BREAK), BREAK / CONTINUE guarded or bare at nesting depth 1..3, 0..3 user functions with "
        "0..3 parameters (some with declared defaults) defined before or after their use, called as statements and inside expressions "
        "(initialisers, PRINT arguments, conditions, arguments of other calls) with omitted trailing and empty arguments, RETURN(value) from "
        "inside nested loops, RETURN without a value, Result = value, locals and parameters that shadow globals, assignment to a global name "
        "inside a function, functions whose parameters carry the NAMES of the caller's variables, called with those variables swapped / shifted / "
        "used twice / inside nested calls F(G(B),A) as statements and inside expressions, functions that yield a value only on some paths "
        "(RETURN under a condition) or never, called inside expressions from functions that have already assigned their own Result, next to a "
        "GLOBAL named Result, and as arguments F(G(x)) (an argument without a value takes the default); fixed families: recursion (factorial, Fibonacci, a countdown that plays notes) of depth <= 8, loops that never end "
        "(WHILE(1) and FOR(;1;) with X++ / CONTINUE / guarded RETURN bodies) cut at 10000; layout: blanks / line breaks / ';' between "
        "statements, line breaks inside blocks, ELSE on the same or the next line; plus a damaged stream for the correspondence only "
        "(loop-free programs with one character deleted / doubled / inserted or a span removed).  non-trivial = distinct source whose expansion has >= 2 "
        "leaves or prints and that contains a loop or a call")
TRUSTED = ["log line formats `[PRINT](line) text` and `[ERROR](line) Loop too many times WHILE(>10000)` of runner.rs",
           "the integer semantics re-implemented in this plugin (truncating / and %, division by zero = 0, comparisons = 1 / 0)",
           "Flags::new() max_loop = 10000 (anchored: the plugin reads src/song.rs and stops the run if the constant moved)"]
ASSUMES = ["every value stays below 2^31 - 1 in magnitude (the expansion writes values as numerals, which get_int saturates at i32::MAX; 64-bit overflow is not modelled)",
           "variables are declared or assigned before they are read; names do not collide with commands (Xa, Ia, Fa, Pa, ...)",
           "function bodies read only their own parameters / locals and globals that no caller shadows (the code looks names up through "
           "the callers' scopes - dynamic scoping; the property does not say which scoping applies, so the generator stays where both agree)",
           "a call that yields no value is used in arithmetic (counts as 0), as an argument (takes the default) or printed (empty), not as an "
           "operand of a comparison (svalue.rs compares 'no value' specially; the property does not say)",
           "BREAK / CONTINUE only inside loops of the same function body; a leaf after an expression is separated so that it cannot be "
           "absorbed as an operand (an expression argument not closed by ')' or ';' continues over blanks: the proviso of C18)",
           "at most about 300 executed leaves per case; loops that hit the limit have bodies without notes"]

LIMIT = 10000
BIG = 2 ** 31 - 1      # numerals in the source saturate at i32::MAX (get_int); the expansion writes values as numerals
GLOBALS = ["Xa", "Xb", "Xc", "Yn", "Ym"]
COUNTERS = ["Ka", "Kb", "Kc", "Kd", "Ke", "Kf"]
FORVARS = ["Ia", "Ib", "Ic", "Id", "Ie", "If2"]
FUNCS = ["Fa", "Fb", "Gq"]
NOTES = ["c", "d", "e", "f", "g", "a", "b", "r", "c8", "d4", "e16", "g2", "a8", "r8", "c4.", "e-", "f+", "b8"]
STATE = ["o4", "o5", "o6", "l8", "l4", "l16", "v100", "v64", "q80", "q100"]
CMP = ["==", "=", "!=", "<>", "<", "<=", ">", ">="]


class Skip(Exception):
    pass


# ---------------------------------------------------------------------------------------------------------------
# the meaning of a program, from the property text
# ---------------------------------------------------------------------------------------------------------------
def tdiv(a, b):
    if b == 0:
        return 0
    q = abs(a) // abs(b)
    return q if (a >= 0) == (b >= 0) else -q


def tmod(a, b):
    if b == 0:
        return 0
    return a - b * tdiv(a, b)


class Interp:
    def __init__(self, funcs):
        self.funcs = {f["name"]: f for f in funcs}
        self.out = []          # ("leaf", text) | ("print", [values]) | ("limit", "WHILE"/"FOR")
        self.work = 0

    def tick(self):
        self.work += 1
        if self.work > 200000:
            raise Skip("too much work")

    def lookup(self, name, fr):
        g, l = fr
        if l is not None and name in l:
            return l[name]
        if name in g:
            return g[name]
        raise Skip("read of an unset variable " + name)

    def assign(self, name, v, fr):
        if v is not None and abs(v) >= BIG:
            raise Skip("big value")
        g, l = fr
        (l if l is not None else g)[name] = v

    def num(self, v):
        return 0 if v is None else v

    def eval(self, e, fr):
        self.tick()
        k = e[0]
        if k == "lit":
            return e[1]
        if k == "var":
            return self.lookup(e[1], fr)
        if k == "call":
            return self.call(e[1], [self.eval(a, fr) if a is not None else None for a in e[2]], fr)
        if k == "bin":
            a, b = self.num(self.eval(e[2], fr)), self.num(self.eval(e[3], fr))
            o = e[1]
            v = a + b if o == "+" else a - b if o == "-" else a * b if o == "*" else tdiv(a, b) if o == "/" else tmod(a, b)
            if abs(v) >= BIG:
                raise Skip("big value")
            return v
        raise Skip("expr " + k)

    def cond(self, c, fr):
        k = c[0]
        if k == "cmp":
            ra, rb = self.eval(c[2], fr), self.eval(c[3], fr)
            if ra is None or rb is None:
                # "no value" is 0 in arithmetic, but comparisons treat it specially (ordering is false, == needs both empty);
                # the property does not say, the generator stays away
                raise Skip("comparison with no value")
            a, b = ra, rb
            o = c[1]
            return {"==": a == b, "=": a == b, "!=": a != b, "<>": a != b, "<": a < b, "<=": a <= b, ">": a > b, ">=": a >= b}[o]
        if k == "and":
            x = self.cond(c[1], fr)
            y = self.cond(c[2], fr)       # both sides are evaluated (no short circuit in the language)
            return x and y
        if k == "or":
            x = self.cond(c[1], fr)
            y = self.cond(c[2], fr)
            return x or y
        if k == "truth":
            return self.num(self.eval(c[1], fr)) != 0
        raise Skip("cond " + k)

    def call(self, name, args, fr):
        f = self.funcs[name]
        g, _ = fr
        loc = {}
        for i, (pn, dflt) in enumerate(f["params"]):
            v = args[i] if i < len(args) else None
            if v is None:
                v = dflt if dflt is not None else 0
            loc[pn] = v
        self.block(f["body"], (g, loc))      # BREAK / CONTINUE / RETURN end at the call
        return loc.get("Result")

    def block(self, stmts, fr):
        for s in stmts:
            sig = self.stmt(s, fr)
            if sig is not None:
                return sig
        return None

    def loop(self, kind, c, body, inc, fr):
        counter = 0
        while True:
            if not self.cond(c, fr):
                return None
            sig = self.block(body, fr)
            counter += 1
            if counter > LIMIT:
                self.out.append(("limit", kind))
                return "ret" if sig == "ret" else None
            if sig == "brk":
                return None
            if sig == "ret":
                return "ret"
            if inc is not None:
                # the increment part stands inside the FOR: the innermost loop enclosing a BREAK / CONTINUE written there is
                # this FOR (BREAK ends it, CONTINUE ends the increment and the loop goes on with its next test)
                s2 = self.block(inc, fr) if isinstance(inc, list) else self.stmt(inc, fr)
                if s2 == "brk":
                    return None
                if s2 == "ret":
                    return "ret"

    def stmt(self, s, fr):
        self.tick()
        k = s[0]
        if k == "leaf":
            self.out.append(("leaf", s[1]))
            if len(self.out) > 400:
                raise Skip("too long")
        elif k == "print":
            self.out.append(("print", [self.eval(e, fr) for e in s[1]]))
            if len(self.out) > 400:
                raise Skip("too long")
        elif k == "decl":
            self.assign(s[1], self.eval(s[2], fr) if s[2] is not None else 0, fr)
        elif k == "assign":
            self.assign(s[1], self.eval(s[2], fr), fr)
        elif k == "incr":
            self.assign(s[1], self.num(self.lookup(s[1], fr)) + s[2], fr)
        elif k == "if":
            return self.block(s[2] if self.cond(s[1], fr) else (s[3] or []), fr)
        elif k == "while":
            return self.loop("WHILE", s[1], s[2], None, fr)
        elif k == "for":
            self.assign(s[1], self.eval(s[2], fr), fr)
            return self.loop("FOR", s[3], s[5], s[4], fr)
        elif k == "break":
            return "brk"
        elif k == "continue":
            return "cont"
        elif k == "return":
            if s[1] is not None:
                self.assign("Result", self.eval(s[1], fr), fr)
            return "ret"
        elif k == "callstmt":
            self.call(s[1], [self.eval(a, fr) if a is not None else None for a in s[2]], fr)
        else:
            raise Skip("stmt " + k)
        return None


# ---------------------------------------------------------------------------------------------------------------
# printing
# ---------------------------------------------------------------------------------------------------------------
def p_expr(e, rng, top=True):
    k = e[0]
    if k == "lit":
        return str(e[1]) if e[1] >= 0 or top else "(%d)" % e[1]
    if k == "var":
        return e[1]
    if k == "call":
        return "%s(%s)" % (e[1], p_args(e[2], rng))
    sp = rng.choice(["", " "])
    s = "%s%s%s%s%s" % (p_expr(e[2], rng, False), sp, e[1], sp, p_expr(e[3], rng, False))
    return s if top else "(" + s + ")"


def p_args(args, rng):
    return rng.choice([",", ", "]).join("" if a is None else p_expr(a, rng) for a in args)


def p_cond(c, rng, top=True):
    k = c[0]
    if k == "cmp":
        sp = rng.choice(["", " "])
        s = "%s%s%s%s%s" % (p_expr(c[2], rng, False), sp, c[1], sp, p_expr(c[3], rng, False))
    elif k == "truth":
        return p_expr(c[1], rng, top)
    else:
        s = "%s %s %s" % (p_cond(c[1], rng, False), "&" if k == "and" else "|", p_cond(c[2], rng, False))
    return s if top else "(" + s + ")"


def sep(rng, nl=0.3):
    return "\n" if rng.random() < nl else rng.choice([" ", " ", "  ", " ; ", "; "])


def p_block(stmts, rng, nl=0.3):
    return "".join(p_stmt(s, rng, nl) + sep(rng, nl) for s in stmts)


def p_stmt(s, rng, nl=0.3):
    k = s[0]
    if k == "leaf":
        return s[1]
    if k == "print":
        return "%s(%s)" % (rng.choice(["PRINT", "PRINT", "Print"]), p_args(s[1], rng))
    if k == "decl":
        if s[2] is None:
            return "%s %s" % (rng.choice(["INT", "Int"]), s[1])
        return "%s %s%s%s;" % (rng.choice(["INT", "Int"]), s[1], rng.choice(["=", " = "]), p_expr(s[2], rng))
    if k == "assign":
        return "%s%s%s;" % (s[1], rng.choice(["=", " = "]), p_expr(s[2], rng))
    if k == "incr":
        return s[1] + ("++" if s[2] > 0 else "--")
    if k == "if":
        bl = lambda b: "{" + rng.choice([" ", "\n", ""]) + p_block(b, rng, nl) + "}"
        # the opening brace may stand on a later line (IF / ELSE / FOR / WHILE / FUNCTION alike)
        t = "%s%s(%s)%s%s" % (rng.choice(["IF", "If"]), rng.choice(["", " "]), p_cond(s[1], rng), rng.choice(["", " ", "", " ", "\n", " \n  "]), bl(s[2]))
        if s[3] is not None:
            t += rng.choice([" ", "", "\n", " \n "]) + rng.choice(["ELSE", "Else"]) + rng.choice(["", " ", "", " ", "\n", " \n  "]) + bl(s[3])
        return t
    if k == "while":
        return "%s%s(%s)%s{%s%s}" % (rng.choice(["WHILE", "While"]), rng.choice(["", " "]), p_cond(s[1], rng), rng.choice(["", " ", "", " ", "\n", " \n  "]),
                                     rng.choice([" ", "\n"]), p_block(s[2], rng, nl))
    if k == "for":
        # the increment part: one statement, or several separated by blanks (no ';': that would be read as a header separator)
        inc = " ".join(p_stmt(x, rng, 0).rstrip(";") for x in s[4]) if isinstance(s[4], list) else p_stmt(s[4], rng).rstrip(";")
        return "%s(%s %s=%s; %s; %s)%s{%s%s}" % (rng.choice(["FOR", "For"]), rng.choice(["INT", "Int"]), s[1], p_expr(s[2], rng), p_cond(s[3], rng),
                                               inc, rng.choice(["", " ", "", " ", "\n", " \n  "]), rng.choice([" ", "\n"]), p_block(s[5], rng, nl))
    if k == "break":
        return rng.choice(["BREAK", "Break", "EXIT"])
    if k == "continue":
        return rng.choice(["CONTINUE", "Continue"])
    if k == "return":
        if s[1] is None:
            return rng.choice(["RETURN", "RETURN()", "Return"])
        return "%s(%s)" % (rng.choice(["RETURN", "Return"]), p_expr(s[1], rng))
    if k == "callstmt":
        return "%s(%s)" % (s[1], p_args(s[2], rng))
    raise ValueError(k)


def p_func(f, rng):
    ps = []
    for pn, d in f["params"]:
        t = rng.choice(["", "", "Int ", "INT "]) + pn
        if d is not None:
            t += rng.choice(["=", "= "]) + str(d)      # a blank BEFORE '=' makes read_def_user_function take the name for a type
        ps.append(t)
    return "%s %s(%s)%s{%s%s}" % (rng.choice(["FUNCTION", "Function"]), f["name"], rng.choice([",", ", "]).join(ps),
                                  rng.choice(["", " ", "\n"]), rng.choice([" ", "\n"]), p_block(f["body"], rng))


def expansion(out):
    parts = []
    for o in out:
        if o[0] == "leaf":
            parts.append(o[1])
        elif o[0] == "print":
            parts.append("PRINT(%s)" % ",".join("{}" if v is None else str(v) for v in o[1]))
    return " ".join(parts)


def printed_text(vals):
    return " ".join("" if v is None else str(v) for v in vals)


# ---------------------------------------------------------------------------------------------------------------
# generation
# ---------------------------------------------------------------------------------------------------------------
class Gen:
    def __init__(self, rng, funcs_sig, gp=None):
        self.rng = rng
        self.sigs = funcs_sig          # name -> (nparams, kind) kind in "value" / "proc"
        self.gp = gp or {}             # name -> parameter names, for functions whose parameters carry the names of globals
        self.nk = 0
        self.ni = 0

    def lit(self):
        return ("lit", self.rng.choice([0, 1, 1, 2, 2, 3, 4, 5, 7, 10, 12, -1, -3]))

    def expr(self, vars_, depth, calls=True):
        rng = self.rng
        r = rng.random()
        if depth <= 0 or r < 0.3:
            if vars_ and rng.random() < 0.6:
                return ("var", rng.choice(vars_))
            return self.lit()
        # functions that always yield a value, that yield one only on some paths, and (less often) that never do
        vfs = [n for n, (k, kind) in self.sigs.items() if kind in ("value", "maybe") or (kind == "proc" and rng.random() < 0.3)]
        if calls and vfs and r < 0.5:
            n = rng.choice(vfs)
            return ("call", n, self.args(n, vars_, depth - 1, in_expr=True))
        o = rng.choice(["+", "+", "-", "-", "*", "/", "%"])
        a = self.expr(vars_, depth - 1, calls)
        b = self.lit() if o in "*/%" else self.expr(vars_, depth - 1, calls)
        return ("bin", o, a, b)

    def args(self, name, vars_, depth, in_expr):
        rng = self.rng
        n = self.sigs[name][0]
        k = n if rng.random() < 0.6 else rng.randrange(0, n + 1)      # trailing arguments omitted
        if name in self.gp:
            # the callee's parameters have the names of the caller's variables: arguments name them swapped, shifted, twice,
            # inside nested calls - every argument must be evaluated in the CALLER's frames, before any parameter is bound
            k = n if rng.random() < 0.85 else k
            ps = self.gp[name]
            out = []
            for i in range(k):
                cand = [v for v in vars_ if v in GLOBALS[:3]]
                other = [v for v in cand if v != ps[i]] or cand
                r = rng.random()
                if cand and r < 0.55:
                    e = ("var", rng.choice(other))
                elif cand and r < 0.75:
                    e = ("bin", rng.choice(["+", "-"]), ("var", rng.choice(other)), ("var", rng.choice(cand)))
                else:
                    e = self.expr(vars_, depth, calls=False)
                inner = [f for f in self.gp if self.sigs[f][1] in ("value", "maybe") and f != name]
                if inner and depth >= 0 and rng.random() < 0.25:
                    f = rng.choice(inner)
                    e = ("call", f, [("var", rng.choice(cand)) if cand else self.lit() for _ in range(self.sigs[f][0])])
                out.append(e)
            return out
        out = [self.expr(vars_, depth, calls=rng.random() < 0.3) for _ in range(k)]
        if not in_expr and k >= 2 and rng.random() < 0.15:
            out[rng.randrange(0, k - 1)] = None                      # an empty argument takes the default (statement calls keep the position)
        return out

    def cond(self, vars_, depth=1):
        rng = self.rng
        r = rng.random()
        if depth > 0 and r < 0.2:
            return (rng.choice(["and", "or"]), self.cond(vars_, depth - 1), self.cond(vars_, depth - 1))
        if r < 0.3:
            return ("truth", self.expr(vars_, 1))
        return ("cmp", rng.choice(CMP), self.expr(vars_, 1), self.expr(vars_, 1))

    def leaf(self):
        rng = self.rng
        return ("leaf", rng.choice(NOTES) if rng.random() < 0.85 else rng.choice(STATE))

    def block(self, vars_, depth, n, in_loop, in_func, written):
        """vars_: readable names; written: names this block may assign (not loop counters)"""
        rng = self.rng
        out = []
        vars_ = list(vars_)
        for _ in range(n):
            r = rng.random()
            if r < 0.30:
                out.append(self.leaf())
            elif r < 0.42:
                out.append(("print", [self.expr(vars_, 2) for _ in range(rng.choice([1, 1, 1, 2, 3]))]))
            elif r < 0.50 and written:
                x = rng.choice(written)
                if x in vars_:
                    if rng.random() < 0.4:
                        out.append(("incr", x, rng.choice([1, 1, -1])))
                    else:
                        out.append(("assign", x, ("bin", rng.choice(["+", "-"]), ("var", x), self.expr(vars_, 1))
                                    if rng.random() < 0.6 else self.expr(vars_, 2)))
                else:
                    if in_func and x in GLOBALS and rng.random() < 0.5:
                        out.append(("assign", x, self.expr(vars_, 2)))      # assignment to a global's name inside a function: a local
                    else:
                        out.append(("decl", x, self.expr(vars_, 2) if rng.random() < 0.8 else None))
                    vars_.append(x)
            elif r < 0.62 and depth > 0:
                th = self.block(vars_, depth - 1, rng.randrange(1, 4), in_loop, in_func, written)
                el = self.block(vars_, depth - 1, rng.randrange(1, 3), in_loop, in_func, written) if rng.random() < 0.5 else None
                out.append(("if", self.cond(vars_), th, el))
            elif r < 0.72 and depth > 0:
                out += self.while_loop(vars_, depth, in_func, written)
            elif r < 0.82 and depth > 0:
                out.append(self.for_loop(vars_, depth, in_func, written))
            elif r < 0.88 and in_loop:
                sig = ("break",) if rng.random() < 0.5 else ("continue",)
                if rng.random() < 0.75:
                    out.append(("if", self.cond(vars_), [sig], None))
                else:
                    out.append(sig)
                    break
            elif r < 0.92 and in_func == "value":
                rv = ("return", self.expr(vars_, 2))
                if rng.random() < 0.8:
                    out.append(("if", self.cond(vars_), [rv], None))
                else:
                    out.append(rv)
                    break
            elif r < 0.96 and in_func == "proc" and rng.random() < 0.5:
                out.append(("if", self.cond(vars_), [("return", None)], None))
            else:
                procs = [n for n, (k, kind) in self.sigs.items()]
                if procs:
                    nme = rng.choice(procs)
                    out.append(("callstmt", nme, self.args(nme, vars_, 1, in_expr=False)))
                else:
                    out.append(self.leaf())
        return out

    def while_loop(self, vars_, depth, in_func, written):
        rng = self.rng
        k = COUNTERS[self.nk % len(COUNTERS)] + (str(self.nk // len(COUNTERS)) if self.nk >= len(COUNTERS) else "")
        self.nk += 1
        n = rng.choice([0, 1, 2, 2, 3, 3, 4, 5])
        body = self.block(vars_ + [k], depth - 1, rng.randrange(1, 4), True, in_func, written)
        pre = ("decl", k, ("lit", 0))
        if rng.random() < 0.6:
            return [pre, ("while", ("cmp", "<", ("var", k), ("lit", n)), [("incr", k, 1)] + body)]
        guard = ("if", ("cmp", rng.choice([">", ">="]), ("var", k), ("lit", n)), [("break",)], None)
        return [pre, ("while", ("truth", ("lit", 1)), [("incr", k, 1), guard] + body)]

    def for_loop(self, vars_, depth, in_func, written):
        rng = self.rng
        i = FORVARS[self.ni % len(FORVARS)] + (str(self.ni // len(FORVARS)) if self.ni >= len(FORVARS) else "")
        self.ni += 1
        a, n = rng.choice([0, 0, 1, -1]), rng.choice([0, 1, 2, 3, 3, 4, 5])
        step = rng.choice([1, 1, 1, 2])
        inc = ("incr", i, 1) if step == 1 else ("assign", i, ("bin", "+", ("var", i), ("lit", step)))
        if rng.random() < 0.3:
            # parentheses inside the increment: the header ends at the ')' that closes it, not at the first one
            inc = ("assign", i, ("bin", "+", ("var", i), ("bin", "*", ("lit", step), ("lit", 1))))
        body = self.block(vars_ + [i], depth - 1, rng.randrange(1, 4), True, in_func, written)
        if rng.random() < 0.25:
            # BREAK / CONTINUE written in the increment slot (bare or guarded, before or behind the step): they belong to THIS loop
            m = rng.choice([0, 1, 2, 3])
            g = lambda sig: ("if", ("cmp", rng.choice([">", ">=", "="]), ("var", i), ("lit", a + m)), [(sig,)], None)
            inc = rng.choice([lambda: [("incr", i, 1), ("break",)], lambda: [("incr", i, 1), ("continue",)], lambda: [("break",)],
                              lambda: [("incr", i, 1), g("break")], lambda: [("incr", i, 1), g("continue")],
                              lambda: [g("break"), inc], lambda: [g("continue"), inc],
                              lambda: [("incr", i, 1), g("continue"), ("incr", i, 1)]])()
        return ("for", i, ("lit", a), ("cmp", rng.choice(["<", "<="]), ("var", i), ("lit", n)), inc, body)


def gen_program(rng, depth):
    """returns dict(funcs, main); function f may call only functions defined with a smaller index (no accidental recursion)"""
    nf = rng.choice([0, 0, 1, 1, 2, 2, 3])
    names = FUNCS[:nf]
    sigs, funcs, gps = {}, [], {}
    for idx, name in enumerate(names):
        kind = rng.choice(["value", "value", "proc", "maybe"])
        if rng.random() < 0.4:
            # parameters named like the caller's variables; the body reads only its own parameters and locals and calls only
            # functions of the same kind (so that dynamic and lexical scoping agree)
            pn = rng.choice([["Xa", "Xb"], ["Xb", "Xa"], ["Xa", "Xb", "Xc"], ["Xb", "Xc", "Xa"], ["Xa"], ["Xb"]])
            params = [(x, rng.choice([None, None, 3, -2]) if j > 0 else None) for j, x in enumerate(pn)]
            g = Gen(rng, {f: sigs[f] for f in gps}, dict(gps))
            locs = ["L%s%d" % (name[1], j) for j in range(2)]
            body = g.block(list(pn), min(depth, 2), rng.randrange(1, 5), False, "value" if kind == "maybe" else kind, locs + list(pn))
            body.insert(0, ("print", [("var", x) for x in pn]))
            if kind == "maybe":
                body.append(("if", g.cond(list(pn)), [("return", g.expr(list(pn), 1, calls=False))], None))
            if kind == "value":
                e = ("var", pn[0])
                for j, x in enumerate(pn[1:]):
                    e = ("bin", "+", ("bin", "*", e, ("lit", 10)), ("var", x))
                body.append(("return", e) if rng.random() < 0.6 else ("return", g.expr(list(pn), 2, calls=False)))
            funcs.append({"name": name, "params": params, "body": body, "kind": kind})
            sigs[name] = (len(pn), kind)
            gps[name] = pn
            continue
        np_ = rng.randrange(0, 4)
        params = []
        for j in range(np_):
            params.append(("P%s%d" % (name[1], j), rng.choice([None, None, 3, 7, 0, -2]) if j > 0 or rng.random() < 0.3 else None))
        g = Gen(rng, dict(sigs), dict(gps))
        local_names = [p for p, _ in params]
        locs = ["L%s%d" % (name[1], j) for j in range(2)]
        shadow = rng.random() < 0.25
        if shadow:
            locs.append(rng.choice(GLOBALS))     # a local (declared or just assigned) with the name of a global
        body = g.block(local_names + [x for x in GLOBALS[:2] if not shadow], min(depth, 2), rng.randrange(1, 5), False,
                       "value" if kind == "maybe" else kind, locs + local_names)
        if shadow and g.sigs:
            # a function with a shadowing local must not call others (they would see it: dynamic scoping)
            body = strip_calls(body)
        if kind == "maybe":
            # a value only on some paths: RETURN under a condition, nothing otherwise
            body.append(("if", g.cond(local_names or ["Xa"] if not shadow else local_names), [("return", g.expr(local_names, 1, calls=False))], None)
                        if (local_names or not shadow) else ("if", ("truth", ("lit", 0)), [("return", ("lit", 1))], None))
        callees = [n for n in g.sigs] if not shadow else []
        if kind == "value" and callees and rng.random() < 0.35:
            # the caller has ALREADY assigned its own Result when it uses a call that may yield nothing
            nme = rng.choice(callees)
            call = ("call", nme, g.args(nme, local_names + ([] if shadow else GLOBALS[:2]), 1, in_expr=True))
            body.append(("assign", "Result", g.expr(local_names, 1, calls=False)))
            if rng.random() < 0.5:
                body.append(("assign", "Result", ("bin", "+", ("var", "Result"), call)))
            else:
                body.append(("return", ("bin", rng.choice(["+", "-"]), ("bin", "*", ("var", "Result"), ("lit", 2)), call)))
        elif kind == "value":
            if rng.random() < 0.25:
                body.append(("assign", "Result", g.expr(local_names, 2, calls=not shadow)))
            else:
                body.append(("return", g.expr(local_names, 2, calls=not shadow)))
        funcs.append({"name": name, "params": params, "body": body, "kind": kind})
        sigs[name] = (np_, kind)
    g = Gen(rng, sigs, gps)
    main = [("decl", GLOBALS[0], ("lit", rng.choice([0, 1, 5]))), ("decl", GLOBALS[1], ("lit", rng.choice([2, 3, -4])))]
    if rng.random() < 0.3:
        main.append(("decl", "Result", ("lit", rng.choice([5, 9, -7]))))      # a GLOBAL named Result: no call may yield it
    main += g.block(GLOBALS[:2], depth, rng.randrange(2, 8), False, None, GLOBALS)
    main.append(("print", [("var", GLOBALS[0]), ("var", GLOBALS[1])]))
    return {"funcs": funcs, "main": main}


def strip_calls(x):
    if isinstance(x, list):
        return [strip_calls(y) for y in x if not (isinstance(y, tuple) and y and y[0] == "callstmt")]
    if isinstance(x, tuple):
        if x and x[0] == "call":
            return ("lit", 1)
        return tuple(strip_calls(y) for y in x)
    return x


def render(prog, rng):
    """function definitions before, after or between the statements of the main program"""
    parts = [p_func(f, rng) for f in prog["funcs"]]
    main = p_block(prog["main"], rng)
    r = rng.random()
    if r < 0.5:
        return sep(rng).join(parts + [main])
    if r < 0.8:
        return sep(rng).join([main] + parts)
    return sep(rng).join(parts[:1] + [main] + parts[1:])


def meaning(prog):
    it = Interp(prog["funcs"])
    sig = it.block(prog["main"], ({}, None))
    # the log is bounded (SAKURA_MAX_LOGS lines, SAKURA_MAX_LOGS_CHARS characters: C19); stay inside the bounds
    lines = [o for o in it.out if o[0] != "leaf"]
    if len(lines) > 90 or sum(len(printed_text(o[1])) + 14 for o in lines if o[0] == "print") > 3500:
        raise Skip("log bound")
    return it.out


def has_control(x):
    if isinstance(x, (list, tuple)):
        if isinstance(x, tuple) and x and x[0] in ("while", "for", "call", "callstmt"):
            return True
        return any(has_control(y) for y in x)
    return False


# fixed families ---------------------------------------------------------------------------------------------------
def families(rng):
    out = []
    for n in range(0, 8):
        out.append(("recursion", "FUNCTION Fact(N){ IF(N<=1){ RETURN(1) } RETURN(N*Fact(N-1)) } PRINT(Fact(%d))" % n,
                    [("print", [1 if n <= 1 else __import__("math").factorial(n)])]))
        fib = [0, 1]
        for _ in range(10):
            fib.append(fib[-1] + fib[-2])
        out.append(("recursion", "FUNCTION Fib(N){ IF(N<2){ RETURN(N) }\n RETURN(Fib(N-1)+Fib(N-2)) }\nINT Xa=Fib(%d) PRINT(Xa)" % n,
                    [("print", [fib[n]])]))
        out.append(("recursion", "FUNCTION Down(N){ IF(N>0){ c8 PRINT(N) Down(N-1) e8 } } Down(%d) g" % n,
                    [x for k in range(n, 0, -1) for x in (("leaf", "c8"), ("print", [k]))] + [("leaf", "e8")] * n + [("leaf", "g")]))
    lim = [
        ("INT Xa=0 WHILE(1){Xa++} c PRINT(Xa)", [("limit", "WHILE"), ("leaf", "c"), ("print", [LIMIT + 1])]),
        ("WHILE(1){CONTINUE} c PRINT(1)", [("limit", "WHILE"), ("leaf", "c"), ("print", [1])]),
        ("FOR(INT Ia=0;1;Ia++){CONTINUE} c PRINT(Ia)", [("limit", "FOR"), ("leaf", "c"), ("print", [LIMIT])]),
        ("INT Xa=0 FOR(INT Ia=0; Ia>=0; Ia++){ Xa=Xa+2 } d PRINT(Xa,Ia)", [("limit", "FOR"), ("leaf", "d"), ("print", [2 * (LIMIT + 1), LIMIT])]),
        ("INT Ka=0 WHILE(Ka<2){ Ka++ WHILE(1){CONTINUE} PRINT(Ka) } PRINT(9)",
         [("limit", "WHILE"), ("print", [1]), ("limit", "WHILE"), ("print", [2]), ("print", [9])]),
        ("FUNCTION Fa(){ WHILE(1){CONTINUE} PRINT(5) RETURN(3) } PRINT(Fa()) c", [("limit", "WHILE"), ("print", [5]), ("print", [3]), ("leaf", "c")]),
        ("FUNCTION Fa(){ INT Xa=0 WHILE(1){ Xa++ IF(Xa>%d){ RETURN(Xa) } } RETURN(-1) } PRINT(Fa()) e" % LIMIT,
         [("limit", "WHILE"), ("print", [LIMIT + 1]), ("leaf", "e")]),
        ("INT Xa=0 WHILE(1){ Xa++ IF(Xa==%d){ BREAK } } PRINT(Xa) WHILE(1){ Xa++ IF(Xa>%d){ BREAK } } PRINT(Xa)" % (LIMIT, 2 * LIMIT),
         [("print", [LIMIT]), ("limit", "WHILE"), ("print", [2 * LIMIT + 1])]),
    ]
    for src, exp in lim:
        out.append(("limit", src, exp))
    fixed = [
        ("FUNCTION A(){c} FUNCTION B(){d} B() A()", [("leaf", "d"), ("leaf", "c")]),
        ("B() A() FUNCTION A(){c} FUNCTION B(){d}", [("leaf", "d"), ("leaf", "c")]),
        ("FUNCTION A(X){RETURN(X+1)} FUNCTION B(X){RETURN(X*2)} PRINT(B(5),A(5),B(A(1)))", [("print", [10, 6, 4])]),
        ("INT X=0 WHILE(1){X++ IF(X>3){BREAK}} PRINT(X)", [("print", [4])]),
        ("FUNCTION F(A,B=7,C=9){ RETURN(A*100+B*10+C) } PRINT(F(1),F(1,2),F(1,2,3),F())", [("print", [179, 129, 123, 79])]),
        ("FUNCTION F(A,B=7){ PRINT(A,B) } F(1) F(,2) F(3,4) F()", [("print", [1, 7]), ("print", [0, 2]), ("print", [3, 4]), ("print", [0, 7])]),
        ("FUNCTION F(){ Result = 5 RETURN } PRINT(F())", [("print", [5])]),
        ("FUNCTION F(){ Result = 5 RETURN() } PRINT(F())", [("print", [5])]),
        ("FUNCTION F(){ Result = 5 IF(1){RETURN} Result = 6 } PRINT(F())", [("print", [5])]),
        ("FUNCTION G(){ RETURN(7) } FUNCTION H(){ G() INT X RETURN(X) } PRINT(H())", [("print", [0])]),
        ("FUNCTION F(N){ FOR(INT I=0;I<5;I++){ FOR(INT J=0;J<5;J++){ c IF(J==N){ RETURN(I*10+J) } } } RETURN(-1) } PRINT(F(2)) d",
         [("leaf", "c")] * 3 + [("print", [2]), ("leaf", "d")]),
        ("INT A=1; INT B=2; FUNCTION SHOW(INT A, INT B){ PRINT(A); PRINT(B) }; SHOW(B, A)", [("print", [2]), ("print", [1])]),
        ("INT A=1; INT B=2; FUNCTION SUBT(INT A, INT B){ RETURN(A*10+B) }; PRINT(SUBT(B, A))", [("print", [21])]),
        ("INT A=1 INT B=2 INT C=3 FUNCTION F(A,B,C){ RETURN(A*100+B*10+C) } FUNCTION G(B){ RETURN(B+5) } PRINT(F(C,A,B),F(B,B,A),F(G(B),A,G(A)))",
         [("print", [312, 221, 716])]),
        ("Function Beep(N){ IF(N>0){ RETURN(N) } } Function Total(){ Result=100; Result=Result+Beep(0); } PRINT(Total())", [("print", [100])]),
        ("Int Result=5; Function Proc(){ c } PRINT(1+Proc())", [("leaf", "c"), ("print", [1])]),
        ("Int Result=5; Function Proc(){ c } Function Twice(A=3){ RETURN(A*2) } PRINT(Twice(Proc()),Proc()) PRINT(Result)",
         [("leaf", "c"), ("leaf", "c"), ("print", [6, None]), ("print", [5])]),
        ("Function Skip(N){ IF(N>100){ RETURN(N) } } Function Sum(N){ Result=N; IF(N>0){ Result=Result+Skip(N)+Sum(N-1) } } PRINT(Sum(3),Sum(0))",
         [("print", [6, 0])]),
        ("Function Down(N){ IF(N>1){ RETURN(N+Down(N-1)) } } Int Result=50 PRINT(Down(3),Down(1)) PRINT(Result)", [("print", [5, None]), ("print", [50])]),
        ("INT X=1 FUNCTION F(){ X=5 PRINT(X) } F() PRINT(X)", [("print", [5]), ("print", [1])]),
        ("INT X=1 FUNCTION F(){ INT X=8 X++ PRINT(X) } F() PRINT(X)", [("print", [9]), ("print", [1])]),
        ("INT X=1 FUNCTION F(X){ X=X+1 RETURN(X) } PRINT(F(10),X)", [("print", [11, 1])]),
        ("FOR(INT I=0;I<3;I++){ FOR(INT J=0;J<3;J++){ IF(J==1){CONTINUE} IF(I==1){BREAK} PRINT(I,J) } c }",
         [("print", [0, 0]), ("print", [0, 2]), ("leaf", "c"), ("leaf", "c"), ("print", [2, 0]), ("print", [2, 2]), ("leaf", "c")]),
        ("INT A=3\nINT B=5\nIF (A == B) { PRINT(1) } ELSE { PRINT(2) }\nFOR (INT N=1; N < 5; N++) {\n  PRINT(N)\n}",
         [("print", [2])] + [("print", [n]) for n in range(1, 5)]),
    ]
    for src, exp in fixed:
        out.append(("fixed", src, exp))
    return out


# ---------------------------------------------------------------------------------------------------------------
# running
# ---------------------------------------------------------------------------------------------------------------
PRINT_RE = re.compile(r"^\[PRINT\]\(-?\d+\) (.*)$")
LIMIT_RE = re.compile(r"^\[ERROR\]\(-?\d+\) Loop too many times (WHILE|FOR)\(>%d\)$" % LIMIT)


def split_result(r):
    f = r.split("\t")
    if len(f) != 2:
        return r, None
    return f[0], vlib.dec_text(f[1])


def log_events(log):
    """printed texts, limit kinds and other lines of a log, in order"""
    ev, other = [], []
    for line in (log.split("\n") if log else []):
        m = PRINT_RE.match(line)
        if m:
            ev.append(("print", m.group(1)))
            continue
        m = LIMIT_RE.match(line)
        if m:
            ev.append(("limit", m.group(1)))
            continue
        other.append(line)
    return ev, other


def expected_events(out):
    return [("print", printed_text(o[1])) if o[0] == "print" else ("limit", o[1]) for o in out if o[0] != "leaf"]


def check_cases(ctx, cases, origin):
    """cases: (label, structured source, meaning, nontrivial?)"""
    lines_i, lines_m = [], []
    for label, src, out, nt in cases:
        exp = expansion(out)
        lines_i += ["compile_lex\t%s" % vlib.enc_text(src), "compile_lex\t%s" % vlib.enc_text(exp)]
        lines_m += ["compile_script\t%s" % vlib.enc_text(src), "compile_script\t%s" % vlib.enc_text(exp)]
    impl = ctx.impl(lines_i, stall=40)
    model = ctx.model(lines_m, stall=120)
    for i, (label, src, out, nt) in enumerate(cases):
        exp = expansion(out)
        ri, re_, rm, rme = impl[2 * i], impl[2 * i + 1], model[2 * i], model[2 * i + 1]
        ctx.count(origin if label is None else label, src if nt else None)
        bs, logs = split_result(ri)
        be, loge = split_result(re_)
        ctx.sample({"source": src[:400], "expansion": exp[:300], "implementation_log": (logs or "")[:300], "model": rm[:80],
                    "bytes_equal": bs == be})
        # correspondence
        for what, a, b, text in (("compile_script", ri, rm, src), ("compile_script(expansion)", re_, rme, exp)):
            if b.startswith("UNSUPPORTED"):
                ctx.unsupported += 1
            elif a != b:
                ctx.disagree(what, {"source": text}, a[:1500], b[:1500])
        # oracle: the law
        if logs is None or ri in ("PANIC", "HANG", "ABORT"):
            ctx.oracle_fail("the script makes the compiler %s" % ri[:20], src, ri[:200], "a MIDI file", input_text=src)
            continue
        if loge is None:
            ctx.dist["expansion_" + re_[:8]] = ctx.dist.get("expansion_" + re_[:8], 0) + 1
            continue
        ev, other = log_events(logs)
        want = expected_events(out)
        if other:
            ctx.oracle_fail("the structured program logs something else than PRINT lines and limit errors", src, "\n".join(other)[:600], "", input_text=src)
        elif ev != want:
            ctx.oracle_fail("printed values / limit errors differ from the meaning of the program", src, repr(ev)[:800], repr(want)[:800], input_text=src)
        elif bs != be:
            ctx.oracle_fail("the structured program and its straight-line expansion compile to different bytes", src, bs[:800], be[:800], input_text=src)


def run_corpus(ctx):
    p = os.path.join(vlib.VERIF, "corpus", "C11.jsonl")
    if not os.path.exists(p):
        return
    cases = []
    for line in open(p, encoding="utf-8"):
        if line.strip():
            o = json.loads(line)
            out = [tuple(x) if x[0] != "print" else ("print", x[1]) for x in o["meaning"]]
            cases.append(("corpus", o["src"], out, True))
    check_cases(ctx, cases, "corpus")


def anchor_max_loop(ctx):
    txt = open(os.path.join(vlib.REPO, "src", "song.rs"), encoding="utf-8").read()
    if not re.search(r"max_loop:\s*%d\s*," % LIMIT, txt):
        ctx.proof_problems.append("anchor moved: Flags::new() max_loop is no longer %d (model constant Script.MAX_LOOP)" % LIMIT)


def run(ctx):
    rng = ctx.rng
    quick = ctx.tier == "quick"
    anchor_max_loop(ctx)
    run_corpus(ctx)
    fam = families(rng)
    if quick:
        fam = [f for f in fam if f[0] != "limit"] + [f for f in fam if f[0] == "limit"][:4]
    check_cases(ctx, [(lab, src, out, True) for lab, src, out in fam], "family")
    n = 3000 if quick else 40000
    cases = []
    tries = 0
    while len(cases) < n and tries < 20 * n:
        tries += 1
        prog = gen_program(rng, rng.choice([1, 2, 2, 3]))
        try:
            out = meaning(prog)
        except Skip:
            ctx.dist["generator-skip"] = ctx.dist.get("generator-skip", 0) + 1
            continue
        except RecursionError:
            continue
        src = render(prog, rng)
        nt = has_control(prog["main"]) and len(out) >= 2
        cases.append((None, src, out, nt))
        if len(cases) % 2000 == 0:
            check_cases(ctx, cases[-2000:], "generated")
    rest = len(cases) % 2000
    if rest:
        check_cases(ctx, cases[-rest:], "generated")
    run_mutations(ctx, 500 if quick else 6000)


def run_mutations(ctx, n):
    """correspondence off the grammar: generated programs WITHOUT loops (a damaged loop may run 10000 x 10000 passes) with one
    character deleted / doubled / inserted or a span removed; model (when it does not answer Unsupported) and implementation
    must agree on bytes and log"""
    rng = ctx.rng
    srcs = []
    tries = 0
    while len(srcs) < n and tries < 50 * n:
        tries += 1
        prog = gen_program(rng, rng.choice([1, 2]))
        try:
            meaning(prog)
        except (Skip, RecursionError):
            continue
        s = render(prog, rng)
        if re.search(r"WHILE|While|FOR|For", s):
            continue
        k, i = rng.random(), rng.randrange(len(s))
        if k < 0.4:
            s = s[:i] + s[i + 1:]
        elif k < 0.6:
            s = s[:i] + s[i] + s[i:]
        elif k < 0.8:
            s = s[:i] + rng.choice("(){};=+-,c \n") + s[i:]
        else:
            j = rng.randrange(len(s))
            i, j = min(i, j), max(i, j)
            s = s[:i] + s[j:]
        srcs.append(s)
    impl = ctx.impl(["compile_lex\t%s" % vlib.enc_text(s) for s in srcs], stall=40)
    model = ctx.model(["compile_script\t%s" % vlib.enc_text(s) for s in srcs], stall=120)
    for s, a, b in zip(srcs, impl, model):
        ctx.count("mutated", None)
        if a in ("PANIC", "HANG", "ABORT"):
            # unbounded recursion (a damaged function that calls itself) exhausts the native stack: C07's subject, not a
            # statement of C11; counted, not judged here
            ctx.dist["mutated_" + a] = ctx.dist.get("mutated_" + a, 0) + 1
        elif b.startswith("UNSUPPORTED"):
            ctx.unsupported += 1
        elif a != b:
            ctx.disagree("compile_script(mutated)", {"source": s}, a[:1500], b[:1500])


def still_fails(ctx, src):
    """shrinker hook: implementation and model disagree, or the implementation crashes"""
    g = ctx.impl(["compile_lex\t%s" % vlib.enc_text(src)], stall=20)[0]
    m = ctx.model(["compile_script\t%s" % vlib.enc_text(src)])[0]
    if g in ("PANIC", "HANG", "ABORT"):
        return True
    if m.startswith("UNSUPPORTED") or m.startswith("OUTOFFUEL") or m.startswith("PANIC"):
        return False
    return g != m


def replay(ctx, obj):
    f = obj.get("failure") or {}
    src = f.get("input")
    if isinstance(src, str):
        r = ctx.impl(["compile_lex\t%s" % vlib.enc_text(src)])[0]
        m = ctx.model(["compile_script\t%s" % vlib.enc_text(src)])[0]
        print("replay input:", repr(src)[:600])
        print("implementation:", split_result(r))
        print("model         :", split_result(m) if "\t" in m else m)
        print("expected      :", f.get("expected"))
    for d in obj.get("broken_correspondence", [])[:3]:
        print("correspondence:", d)
