"""C19 - errors carry the right line, never derail the music, and the log stays bounded.
Theorems: props/C19.v (log bounds of add_log / lex_error / get_logs_str / the whole lexer; the exact effect of an
unknown character, an unknown word and End at a command boundary; the line counter over separators, comments and
unknown characters).
Correspondence: Gallina pipeline model (compile_core) vs lexer::lex + runner::exec + midi::generate (compile_lex),
bytes AND log text, on sources with injected errors.
Oracles on the implementation (public `compile`, and `compile_lex` = the same pipeline without sutoton::convert):
 (1) a valid program with offending characters / unknown words inserted at top-level command boundaries compiles to the
     bytes of the program without them;
 (2) the log gains exactly one [ERROR] entry per offender, in source order, naming the offending text, with the 0-based
     line = number of LF before it; the remaining entries are those of the clean program;
 (3) [PRINT](line) entries carry the line of their statement, also after notes / rests / lengths followed by blank lines; also
     from inside user functions (FUNCTION F(params) with the '{' on the same or a later line, after blanks and comments; bodies
     over several lines with nested IF / ELSE / FOR blocks; several functions, several calls) - with a correspondence against the
     script model (driver `script`, kind compile_script) on those sources; and after statements whose EXPRESSIONS span lines
     (INT definitions, assignments, PRINT, IF / WHILE / FOR conditions, function and command arguments written over several lines
     with /* */ comments containing line breaks between operands and operators of different precedence): the log must be that of
     the same source with those line breaks removed, every line number mapped to the statement's line in the multi-line text;
 (4) bounds: <= 100 entries, <= 30 + 1 unknown-character entries, log text <= 4096 + 3 characters - on every output; at the
     limit (k PRINT lines sized so that the joined log text has exactly 4095, 4096, 4097, ... 4096+99, ... characters) the log is
     the joined text when that has <= 4096 characters and its first 4096 characters + "..." otherwise;
 (5) everything after End / END is ignored (bytes and log of the prefix program);
 (6) silence: with debug 0 the harness process prints nothing on stdout for any of these cases."""
import json, os, re
import vlib
from props import c18 as lay

COQ_TARGET = "props/C19.v"
THEOREMS = ["C19_constants", "C19_log_bound", "C19_lex_log_bound", "C19_lex_error_cap", "C19_log_chars", "C19_unknown_char_step",
            "C19_unknown_ascii", "C19_unknown_word_step", "C19_syntax_error_entry", "C19_end", "C19_line_counter",
            "C19_only_layout_and_errors", "C19_unguarded_prints",
            "C19_compile_log_entries", "C19_exec_log_bound", "C19_compile_log_chars", "C19_after_end_loop", "C19_after_end_partial", "C19_after_end_compile"]
DRIVERS = ["core", "script"]
RULE = ("valid programs (the command trees and random layouts of the C18 generator, 2..14 top-level commands over several lines) with "
        "0..8 offenders (every unknown ASCII character, some non-ASCII ones, unknown words Foo / XYZ1 / Abc_d / Zz) and 0..6 PRINT probes "
        "inserted at random top-level boundaries; End/END followed by arbitrary text; stress sources for the bounds (200 unknown "
        "characters, 150 PRINTs, long strings); script sources for silence. non-trivial = distinct source with >= 1 offender on a "
        "line > 0 and >= 3 commands")
TRUSTED = ["stdout of the harness process is what the library printed (the harness itself writes its results to a file)",
           "line counting inside command readers and [PRINT] entries are outside the Coq model: oracle and correspondence only"]
ASSUMES = ["offenders are inserted at top-level command boundaries, separated from the neighbouring commands by ';' (directly after a note "
           "'^' '.' '-' digits ... belong to the note; after an unknown word blanks + '=' would be a definition)",
           "'~' is an offender only below sutoton::convert (compile_lex): for the public compile it introduces a user definition",
           "at most 25 offenders per source in oracle (2) so that the 30-entry cap of the lexer is not reached; the cap itself is oracle (4)",
           "inside blocks offenders and PRINT probes are placed at the command boundaries directly inside top-level Sub{...} and tuplet "
           "{...} blocks (there '}' is the block's closer, not an offender); IF / FOR / WHILE / FUNCTION bodies and macro bodies are "
           "covered by the corpus witnesses only"]

UNKNOWN_ASCII = list("!%*+,-.0123456789=\\^hijkmsuwxz}~")
UNKNOWN_OTHER = ["é", "Ω", "€", "あ", "\u00a0", "\u0001", "☃", "…", "—", "“", "”", "•", "†", "‐", "‰", "※"]   # incl. the punctuation block next to the Unicode spaces zen2han folds
WORDS = ["Foo", "XYZ1", "Abc_d", "Zz", "Hello", "Q_", "NoSuchCommand"]
ERR_CH = re.compile(r'^\[ERROR\]\((-?\d+)\) Unknown Character: "(.*)" near ".*"$', re.S)
ERR_WORD = re.compile(r'^\[ERROR\]\((-?\d+)\) Syntax Error "(.*)" near ".*"$', re.S)
PROBE = re.compile(r'^\[PRINT\]\((-?\d+)\) (1\d\d\d)$')


def top_slots(items):
    """indices (into the layout list) of the slots that are top-level command boundaries"""
    out, pos = [], 0
    for it in items:
        out.append(pos)
        pos += 1 if it[0] == "leaf" else 2 + lay.boundaries(it[2])
    out.append(pos)
    return out


def block_slots(items):
    """slots directly inside a top-level Sub{...} or tuplet {...} block (before each of its commands and before its closer):
    command boundaries of the block's own lexer run, whose line numbers must be those of the whole source"""
    out, pos = [], 0
    for it in items:
        if it[0] == "block" and it[1] in ("Sub{", "{"):
            q = pos + 1
            for ch in it[2]:
                out.append(q)
                q += 1 if ch[0] == "leaf" else 2 + lay.boundaries(ch[2])
            out.append(q)
        pos += 1 if it[0] == "leaf" else 2 + lay.boundaries(it[2])
    return out


def split_log(text):
    """log entries: joined by LF; an entry never contains LF (near-text shows it as U+21B5)"""
    return text.split("\n") if text else []


def check_bounds(ctx, src, out, kind):
    f = out.split("\t")
    if len(f) < 2:
        return
    log = vlib.dec_text(f[1])
    entries = split_log(log)
    nerr = sum(1 for e in entries if "Unknown Character" in e or "Too many errors in Lexer" in e)
    if len(log) > 4096 + 3:
        ctx.oracle_fail("log text longer than 4096 + 3 characters", "%s\t%s" % (kind, vlib.enc_text(src)), len(log), "<= 4099", input_text=src)
    if len(entries) > 100 and len(log) <= 4096:
        ctx.oracle_fail("more than 100 log entries", "%s\t%s" % (kind, vlib.enc_text(src)), len(entries), "<= 100", input_text=src)
    if nerr > 31:
        ctx.oracle_fail("more than 30 + 1 unknown-character entries", "%s\t%s" % (kind, vlib.enc_text(src)), nerr, "<= 31", input_text=src)


def case_line(kind, src):
    return "compile\t%s\t0" % vlib.enc_text(src) if kind == "compile" else "compile_lex\t%s" % vlib.enc_text(src)


def silent(ctx, lines, buf, what):
    if buf and buf[0]:
        culprit = None
        for l in lines[:400]:
            b = []
            ctx.impl([l], capture_stdout=b)
            if b and b[0]:
                culprit = (l, b[0])
                break
        l, txt = culprit if culprit else (lines[0], buf[0])
        src = vlib.dec_text(l.split("\t")[1]) if "\t" in l else l
        ctx.oracle_fail("the library writes to standard output with debug off (%s)" % what, l, txt[:200].decode("utf-8", "replace"), "nothing",
                        input_text=src)


def gen_case(rng):
    friendly = rng.random() < 0.5      # inside the fragment of the Coq model: core commands, no PRINT probes
    items = lay.gen_items(rng, rng.choice([0, 1, 1, 2]), rng.randrange(2, 14), friendly or rng.random() < 0.3)
    lays = lay.make_layout(rng, items, True)
    # spread the program over several lines
    slots = top_slots(items)
    for s in slots:
        if rng.random() < 0.5:
            lays[s] = lays[s] + rng.choice(["\n", "\n\n", " \n", "\r\n", "\n// x\n", "\n\n\n"])
    inner = block_slots(items)
    for s in inner:
        if rng.random() < 0.5:
            lays[s] = lays[s] + rng.choice(["\n", "\n\n", " \n", "\n// x\n"])
    n_off = rng.choice([0, 1, 1, 2, 3, 5, 8])
    n_probe = 0 if friendly else rng.choice([0, 1, 2, 4, 6])
    ins = {}   # slot -> list of (kind, text)
    anywhere = slots + inner
    for _ in range(n_off):
        s = rng.choice(anywhere)
        k = rng.random()
        if k < 0.6:
            # inside a block '}' is not an offender: it closes the block
            ins.setdefault(s, []).append(("ch", rng.choice([c for c in UNKNOWN_ASCII if c != "}" or s in slots])))
        elif k < 0.7:
            ins.setdefault(s, []).append(("ch", rng.choice(UNKNOWN_OTHER)))
        else:
            ins.setdefault(s, []).append(("word", rng.choice(WORDS)))
    for i in range(n_probe):
        ins.setdefault(rng.choice(anywhere), []).append(("probe", "PRINT(%d)" % (1000 + rng.randrange(0, 1000))))
    return items, lays, ins


def build(items, lays, ins, with_offenders, lex_only):
    """source text; expected offender entries [(kind, text, line)] and probe entries [(line, number)] in source order"""
    lays2 = list(lays)
    marks = {}
    for s, lst in ins.items():
        t = lays2[s]
        pieces = [t]
        for kind, text in lst:
            if kind == "probe":
                pieces.append(";" + text + ";")
            elif with_offenders and (lex_only or (text != "~" and ord(text[0]) < 128)):
                pieces.append(";" + text + ";")
            else:
                pieces.append(";;")
        marks[s] = pieces
        lays2[s] = "".join(pieces)
    src = lay.to_text(items, lays2)
    # positions: recompute by scanning the rendering
    return src, lays2, marks


def expected_entries(items, marks, lays2, ins, with_offenders, lex_only):
    """walk the rendering and compute the line of every inserted piece"""
    # render with sentinels: split the text at the inserted pieces
    offs, probes = [], []
    # text before each slot
    prefix_len = {}
    it = iter(range(len(lays2)))
    # rebuild the text incrementally to know the offset of every slot
    out = []
    pos = [0]

    def emit(s):
        out.append(s)
        pos[0] += len(s)

    def walk(its, counter):
        for x in its:
            idx = counter[0]
            counter[0] += 1
            prefix_len[idx] = pos[0]
            emit(lays2[idx])
            emit(x[1])
            if x[0] == "block":
                walk(x[2], counter)
                idx2 = counter[0]
                counter[0] += 1
                prefix_len[idx2] = pos[0]
                emit(lays2[idx2])
                emit(x[3])
    c = [0]
    walk(items, c)
    prefix_len[c[0]] = pos[0]
    emit(lays2[c[0]])
    text = "".join(out)
    for s in sorted(ins):
        p = prefix_len[s]
        pieces = marks[s]
        p += len(pieces[0])
        for (kind, t), piece in zip(ins[s], pieces[1:]):
            line = text.count("\n", 0, p + 1)   # the piece starts with ';'
            if piece != ";;":
                if kind == "probe":
                    probes.append((line, int(t[6:-1])))
                else:
                    offs.append((kind, t, line))
            p += len(piece)
    return text, offs, probes


def run_generated(ctx, n):
    rng = ctx.rng
    cases = []
    for _ in range(n):
        items, lays, ins = gen_case(rng)
        if lay.size(items) > 40:
            continue
        cases.append((items, lays, ins))
    lines, meta = [], []
    for ci, (items, lays, ins) in enumerate(cases):
        for kind in ("lex", "compile"):
            lex_only = kind == "lex"
            src_d, lays_d, marks_d = build(items, lays, ins, True, lex_only)
            text_d, offs, probes = expected_entries(items, marks_d, lays_d, ins, True, lex_only)
            assert text_d == src_d
            src_c, lays_c, marks_c = build(items, lays, ins, False, lex_only)
            lines.append(case_line(kind, src_d))
            lines.append(case_line(kind, src_c))
            meta.append((ci, kind, src_d, src_c, offs, probes))
    buf = []
    got = ctx.impl(lines, stall=20, capture_stdout=buf)
    silent(ctx, lines, buf, "programs with injected errors")
    for i, (ci, kind, src_d, src_c, offs, probes) in enumerate(meta):
        gd, gc = got[2 * i], got[2 * i + 1]
        fd, fc = gd.split("\t"), gc.split("\t")
        nt = len(offs) >= 1 and any(l > 0 for _, _, l in offs) and lay.size(cases[ci][0]) >= 3
        ctx.count("generated:" + kind, src_d if nt else None)
        check_bounds(ctx, src_d, gd, kind)
        if len(fd) < 2 or len(fc) < 2:
            if fd[0] != fc[0]:
                ctx.oracle_fail("offending characters change the outcome of the compilation", case_line(kind, src_d), gd[:100], gc[:100], input_text=src_d)
            continue
        # (1) bytes
        if fd[0] != fc[0]:
            ctx.oracle_fail("offending characters / words at command boundaries change the MIDI bytes (%s)" % kind, case_line(kind, src_d),
                            "%r -> %s" % (src_d[:300], fd[0][-200:]), "%r -> %s" % (src_c[:300], fc[0][-200:]), input_text=src_d)
            continue
        logd, logc = split_log(vlib.dec_text(fd[1])), split_log(vlib.dec_text(fc[1]))
        if len(logd) >= 100 or len(vlib.dec_text(fd[1])) >= 4096:
            ctx.dist["saturated_log"] = ctx.dist.get("saturated_log", 0) + 1
            continue
        # (2) one entry per offender, in source order, then the clean program's log
        k = len(offs)
        head, tail = logd[:k], logd[k:]
        ok = len(logd) == k + len(logc) and tail == logc
        want = []
        for (okind, t, line), e in zip(offs, head):
            m = (ERR_CH if okind == "ch" else ERR_WORD).match(e)
            want.append('[ERROR](%d) %s "%s" near ...' % (line, "Unknown Character:" if okind == "ch" else "Syntax Error", t))
            if not m or int(m.group(1)) != line or m.group(2) != t:
                ok = False
        if not ok:
            ctx.oracle_fail("the log does not carry exactly one [ERROR] entry per offender with its text and 0-based line (%s)" % kind,
                            case_line(kind, src_d), "\n".join(logd)[:600], "\n".join(want + logc)[:600], input_text=src_d)
            continue
        # (3) PRINT probes carry their line
        seen = [(int(m.group(1)), int(m.group(2))) for m in (PROBE.match(e) for e in logc) if m]
        if sorted(seen) != sorted(probes) or [p for p in seen if p in probes] != [p for p in probes]:
            ctx.oracle_fail("[PRINT](line) entries do not carry the line of their statement (%s)" % kind, case_line(kind, src_c),
                            str(seen)[:300], str(probes)[:300], input_text=src_c)
        if len(ctx.samples) < 6 and k >= 2:
            ctx.sample({"source": src_d[:300], "log": "\n".join(logd)[:400], "bytes_equal_clean": True})
    # correspondence on the dirty sources (lexer level): bytes and log
    sub = [(m[2], got[2 * i]) for i, m in enumerate(meta) if m[1] == "lex" and len(m[2]) < 400]
    mod = ctx.model(["compile_core\t%s" % vlib.enc_text(s) for s, _ in sub])
    for (s, g), m in zip(sub, mod):
        if m.startswith("UNSUPPORTED") or m.startswith("OUTOFFUEL"):
            ctx.unsupported += 1
        elif m != g:
            ctx.disagree("compile (lex/exec/generate) with injected errors: bytes and log", s, g[-300:], m[-300:])
        else:
            ctx.dist["model_agrees"] = ctx.dist.get("model_agrees", 0) + 1


def boundary_program(rng, k, total, tail="c d e"):
    """k lines `PRINT({aaa..})` (line i gives the entry `[PRINT](i) aaa..`) whose payload lengths are chosen so that the JOINED
    log text (entries + k-1 line breaks) has exactly `total` characters; returns (source, joined log text) or None"""
    fixed = sum(10 + len(str(i)) for i in range(k)) + (k - 1)      # "[PRINT](" i ") " per entry, and the separators
    pay = total - fixed
    if pay < k:
        return None
    cuts = sorted(rng.sample(range(1, pay), k - 1)) if k > 1 else []
    sizes = [b - a for a, b in zip([0] + cuts, cuts + [pay])]
    letters = "abcdefgxyz"
    texts = [rng.choice(letters) * n for n in sizes]
    src = "".join("PRINT({%s})\n" % t for t in texts) + tail
    joined = "\n".join("[PRINT](%d) %s" % (i, t) for i, t in enumerate(texts))
    assert len(joined) == total
    return src, joined


def expected_log_text(joined):
    return joined if len(joined) <= 4096 else joined[:4096] + "..."


def run_boundary(ctx):
    """(4b) get_logs_str at its limit: joined log text of exactly 4096-1, 4096, 4096+1, ... characters"""
    rng = ctx.rng
    cases = []
    ks = [2, 3, 10, 50, 99, 100] + [rng.randrange(2, 101) for _ in range(6 if ctx.tier == "quick" else 60)]
    for k in ks:
        totals = [4095, 4096, 4097, 4096 + 50, 4096 + 99, 4096 + 100, 4096 + k - 1, 4096 + k] + \
                 [rng.randrange(4000, 4300) for _ in range(3)] + [rng.randrange(4097, 4196) for _ in range(3)]
        for t in totals:
            bp = boundary_program(rng, k, t, rng.choice(["c d e", "", "c"]))
            if bp:
                cases.append(bp)
    lines = [case_line(kind, src) for src, _ in cases for kind in ("compile", "lex")]
    buf = []
    got = ctx.impl(lines, stall=30, capture_stdout=buf)
    silent(ctx, lines, buf, "log-limit sources")
    for j, (src, joined) in enumerate(cases):
        want = expected_log_text(joined)
        for d, kind in ((0, "compile"), (1, "lex")):
            g = got[2 * j + d].split("\t")
            ctx.count("log_limit", src if d == 0 else None)
            check_bounds(ctx, src, got[2 * j + d], kind)
            have = vlib.dec_text(g[1]) if len(g) > 1 else got[2 * j + d]
            if have != want:
                ctx.oracle_fail("get_logs_str at its limit: a joined log text of %d characters must come back %s (%s)" % (
                                    len(joined), "unchanged" if len(joined) <= 4096 else "as its first 4096 characters + '...'", kind),
                                lines[2 * j + d], "%d characters, ends with %r" % (len(have), have[-12:]),
                                "%d characters, ends with %r" % (len(want), want[-12:]), input_text=src)


S0, S1 = "\ue000", "\ue001"      # private-use sentinels around an offender while a source is being built


class FuncSrc:
    """builds a source with user functions; records, at generation time, the 0-based line of every offender and of every
    PRINT statement, and the order in which the PRINT statements execute"""
    def __init__(self, rng):
        self.rng, self.parts, self.line, self.errs, self.uid = rng, [], 0, [], 1000
        self.vars = ["I", "J", "K", "L", "N", "II", "JJ", "KK", "Cnt", "Idx"]     # not M: reserved

    def add(self, x):
        self.parts.append(x)
        self.line += x.count("\n")

    def sep(self):
        self.add(self.rng.choice(["\n", "\n", "\n\n", " ", ";\n", "\n  ", "\n// x\n", "\r\n"]))

    def offender(self, allow_brace):
        rng = self.rng
        if rng.random() < 0.7:
            t = rng.choice([c for c in UNKNOWN_ASCII if c != "~" and (allow_brace or c != "}")])
            kind = "ch"
        else:
            t, kind = rng.choice(WORDS), "word"
        self.add(";")
        self.errs.append((kind, t, self.line))
        self.add(S0 + t + S1 + ";")

    def stmts(self, depth, has_a, top):
        rng, ops = self.rng, []
        for _ in range(rng.randrange(1, 5)):
            k = rng.random()
            gap = rng.choice(["", "", " ", "  "])
            if k < 0.30:
                ops.append(("p", self.line, str(self.uid)))
                self.add("PRINT(%d)" % self.uid)
                self.uid += 1
            elif k < 0.38 and has_a:
                ops.append(("pa", self.line))
                self.add("PRINT(A)")
            elif k < 0.55:
                self.offender(top)
            elif k < 0.70 or depth == 0 or not self.vars:
                self.add(rng.choice(["c", "d4", "r8", "e", "l8", "o5", "c d e"]))
            elif k < 0.80:
                self.add("IF(1==1)" + gap + "{")
                self.sep()
                ops += self.stmts(depth - 1, has_a, False)
                self.add("}")
            elif k < 0.90:
                self.add("IF(1==0)" + gap + "{")
                self.sep()
                self.stmts(depth - 1, has_a, False)        # never executed; its offenders are still reported by the lexer
                self.add("}" + rng.choice(["", " ", "\n", "\n\n  "]) + "ELSE" + gap + "{")
                self.sep()
                ops += self.stmts(depth - 1, has_a, False)
                self.add("}")
            else:
                v = self.vars.pop()
                self.add("FOR(INT %s=0;%s<2;%s++)%s{" % (v, v, v, gap))
                self.sep()
                ops.append(("loop", 2, self.stmts(depth - 1, has_a, False)))
                self.add("}")
            self.sep()
        return ops

    def texts(self):
        t = "".join(self.parts)
        return t.replace(S0, "").replace(S1, ""), re.sub(S0 + ".*?" + S1, "", t, flags=re.S)


def run_ops(ops, a, out):
    for op in ops:
        if op[0] == "p":
            out.append("[PRINT](%d) %s" % (op[1], op[2]))
        elif op[0] == "pa":
            out.append("[PRINT](%d) %s" % (op[1], a))
        else:
            for _ in range(op[1]):
                run_ops(op[2], a, out)


GAPS_F = ["", " ", "\n", "\n", "\n\n", " \n  ", "\n\n\n", "\n// x\n", " /* y\n */ ", "\n\n /* a */ // b\n  ", "\r\n", "\t\n\t"]


def gen_function_case(rng):
    fb = FuncSrc(rng)
    fb.add(rng.choice(["", "", "\n", "\n\n// top\n", "c d\n", "/* x\n y */\n", "l8 o5 // z\n"]))
    funcs = []
    for name in rng.sample(["FOO", "BAR", "Fnc", "MyFunc", "Riff2"], rng.choice([1, 1, 2])):
        params = rng.choice(["()", "(A)", "(A)", "(A,B)", "(A, B)"])
        fb.add("FUNCTION %s%s" % (name, params))
        fb.add(rng.choice(GAPS_F))
        fb.add("{")
        fb.add(rng.choice(["\n", "\n", " ", "\n  ", "\n\n", ""]))
        ops = fb.stmts(rng.choice([0, 1, 1, 2]), "A" in params, False)
        fb.add("}")
        fb.add(rng.choice(["\n", "\n\n", " ", "\n// e\n"]))
        funcs.append((name, params, ops))
    prints, arg = [], 7000
    for _ in range(rng.randrange(1, 6)):
        k = rng.random()
        if k < 0.6:
            name, params, ops = rng.choice(funcs)
            arg += 1
            n_par = 0 if params == "()" else params.count(",") + 1
            fb.add("%s(%s)" % (name, ",".join([str(arg), "1"][:n_par])))
            run_ops(ops, str(arg), prints)
        elif k < 0.75:
            prints.append("[PRINT](%d) %d" % (fb.line, fb.uid))
            fb.add("PRINT(%d)" % fb.uid)
            fb.uid += 1
        elif k < 0.88:
            fb.offender(True)
        else:
            fb.add(rng.choice(["c", "d4", "r8"]))
        fb.add(rng.choice(["\n", "\n\n", ";", " ", ";\n"]))
    dirty, clean = fb.texts()
    return dirty, clean, fb.errs, prints


def run_functions(ctx, n):
    """(3b) line numbers inside user functions: FUNCTION F(params) with the '{' on the same line, on a later line, after blanks
    and comments; bodies over several lines with PRINT statements, offenders, notes and nested IF / ELSE / FOR blocks; one or two
    functions, called several times.  Expected line = 0-based source line of the statement / offender."""
    rng = ctx.rng
    cases = []
    while len(cases) < n:
        c = gen_function_case(rng)
        if len(c[2]) <= 25 and len(c[2]) + len(c[3]) < 90:
            cases.append(c)
    lines = []
    for dirty, clean, errs, prints in cases:
        for kind in ("compile", "lex"):
            lines.append(case_line(kind, dirty))
            lines.append(case_line(kind, clean))
    buf = []
    got = ctx.impl(lines, stall=20, capture_stdout=buf)
    silent(ctx, lines, buf, "user functions")
    for j, (dirty, clean, errs, prints) in enumerate(cases):
        for d, kind in ((0, "compile"), (2, "lex")):
            gd, gc = got[4 * j + d].split("\t"), got[4 * j + d + 1].split("\t")
            ctx.count("functions:" + kind, dirty if d == 0 and dirty.count("\n") >= 3 and prints else None)
            check_bounds(ctx, dirty, got[4 * j + d], kind)
            if len(gd) < 2 or len(gc) < 2:
                ctx.oracle_fail("a source with user functions does not compile (%s)" % kind, lines[4 * j + d], got[4 * j + d][:80], "bytes and a log", input_text=dirty)
                continue
            if gd[0] != gc[0]:
                ctx.oracle_fail("offenders inside / around user functions change the MIDI bytes (%s)" % kind, lines[4 * j + d],
                                gd[0][-160:], gc[0][-160:], input_text=dirty)
                continue
            logd, logc = split_log(vlib.dec_text(gd[1])), split_log(vlib.dec_text(gc[1]))
            k = len(errs)
            ok = logd[k:] == prints and logc == prints and len(logd) == k + len(prints)
            want = []
            for (okind, t, line), e in zip(errs, logd[:k]):
                m = (ERR_CH if okind == "ch" else ERR_WORD).match(e)
                if not m or int(m.group(1)) != line or m.group(2) != t:
                    ok = False
            for okind, t, line in errs:
                want.append('[ERROR](%d) %s "%s" near ...' % (line, "Unknown Character:" if okind == "ch" else "Syntax Error", t))
            if not ok:
                ctx.oracle_fail("line numbers of [ERROR] / [PRINT] entries from user function bodies (%s): the line of the statement in the "
                                "source is expected" % kind, lines[4 * j + d], "\n".join(logd)[:700], "\n".join(want + prints)[:700], input_text=dirty)
        if len(ctx.samples) < 9 and prints and errs:
            ctx.sample({"source": dirty[:400], "log": vlib.dec_text(got[4 * j].split("\t")[1])[:400] if "\t" in got[4 * j] else ""})
    # correspondence with the script model (coq/model/Script.v lexes FUNCTION): bytes and the whole log
    sub = [(c[0], got[4 * j + 2]) for j, c in enumerate(cases) if len(c[0]) < 500]
    mod = ctx.model(["compile_script\t%s" % vlib.enc_text(s) for s, _ in sub], driver="script")
    for (s, g), m in zip(sub, mod):
        if m.startswith("UNSUPPORTED") or m.startswith("OUTOFFUEL"):
            ctx.unsupported += 1
        elif m != g:
            ctx.disagree("compile_script (script model) on a source with user functions: bytes and log", s, g[-400:], m[-400:])
        else:
            ctx.dist["script_model_agrees"] = ctx.dist.get("script_model_agrees", 0) + 1


NLP = "\ue002"      # placeholder of a line break inside a /* */ comment of an expression


class ExprSrc:
    """statements whose expressions span lines by means of /* */ comments containing line breaks, placed between operands and
    operators of different precedence levels.  Every statement is one logical line; the multi-line source S and the flat source
    S' (the same comments without their line breaks) have the same statements in the same order, so the expected log of S is the
    log of S' with every line number mapped through (statement index in S') -> (line of that statement in S)."""
    def __init__(self, rng, p_nl):
        self.rng, self.p_nl, self.stmts, self.vars = rng, p_nl, [], []
        self.with_cmds = rng.random() < 0.5      # TR / Tempo / @ ... arguments: outside the fragment of the script model

    def gap(self):
        r = self.rng.random()
        if r < self.p_nl:
            return self.rng.choice([" /*" + NLP + "*/ ", " /* note:" + NLP + "   six */ ", " /* a" + NLP + NLP + " b */ ", " /* x */ /*" + NLP + "*/ "])
        return self.rng.choice([" ", " ", "  ", " /* k */ ", ""]) if r < 0.9 else " "

    def atom(self, depth, small):
        rng = self.rng
        r = rng.random()
        if depth > 0 and r < 0.2:
            return "(" + self.gap() + self.level(depth - 1, rng.choice([2, 2, 3, 4]) if not small else 2, small) + self.gap() + ")"
        if self.vars and not small and r < 0.55:
            return rng.choice(self.vars)
        return str(rng.randrange(1, 4 if small else 10))

    def level(self, depth, lv, small=False):
        """lv 1: * / %   2: + -   3: comparison   4: & |"""
        rng = self.rng
        if lv == 0:
            return self.atom(depth, small)
        n = rng.choice([1, 1, 2, 2, 3]) if lv in (1, 2) else (rng.choice([1, 2]) if lv == 3 else rng.choice([1, 1, 2]))
        out = self.level(depth, lv - 1, small)
        for _ in range(n - 1):
            if lv == 1:
                op = rng.choice(["*", "*", "/", "%"]) if not small else "*"
                rhs = str(rng.randrange(1, 4 if small else 10)) if op != "*" else self.level(depth, 0, small)
            elif lv == 2:
                op, rhs = rng.choice(["+", "-"] if not small else ["+"]), self.level(depth, 1, small)
            elif lv == 3:
                op, rhs = rng.choice(["==", "!=", "<", ">", "<=", ">="]), self.level(depth, 2, small)
            else:
                op, rhs = rng.choice(["&", "|"]), self.level(depth, 3, small)
            g1, g2 = self.gap(), self.gap()
            if op == "/" or op == "*":
                g1, g2 = " " + g1.strip(" ") + " " if g1.strip(" ") else " ", " " + g2.strip(" ") + " " if g2.strip(" ") else " "
            out = out + g1 + op + g2 + rhs
        return out

    def expr(self, lv=None, small=False):
        return self.level(self.rng.choice([0, 1, 1, 2]), lv or self.rng.choice([1, 2, 2, 2]), small)

    def emit(self, text):
        self.stmts.append(text)

    def const_expr(self):
        """an expression without variables: values assigned to variables stay small (V = V * V * V in a loop leaves 64 bits,
        which is outside the models and outside this property)"""
        saved, self.vars = self.vars, []
        e = self.expr()
        self.vars = saved
        return e

    def block(self, depth, in_func):
        rng = self.rng
        for _ in range(rng.randrange(1, 5)):
            k = rng.random()
            if k < 0.22:
                self.emit(rng.choice(["PRINT(", "Print("]) + self.gap() + self.expr() + self.gap() + ")")
            elif k < 0.36:
                if len(self.vars) < 4 and rng.random() < 0.6:
                    v = ["VA", "VB", "VC", "VD"][len(self.vars)]
                    self.emit(rng.choice(["INT ", "Int "]) + v + rng.choice([" = ", "=", " =" + self.gap()]) + self.const_expr())
                    self.vars.append(v)
                elif [v for v in self.vars if v != "A"]:
                    self.emit(rng.choice([v for v in self.vars if v != "A"]) + rng.choice([" = ", "="]) + self.const_expr())
                else:
                    self.emit("c")
            elif k < 0.46:
                self.emit(";" + rng.choice([c for c in UNKNOWN_ASCII if c not in "~}"] + ["※"]) + ";" if rng.random() < 0.7 else ";" + rng.choice(WORDS) + ";")
            elif k < 0.56 and self.with_cmds:
                self.emit(rng.choice(["TR(%s)", "Tempo(100 + %s)", "@(%s)", "CH(%s)", "KeyShift(%s)", "M(60 + %s)"]) % (self.gap() + self.expr(2, True) + self.gap())
                          + rng.choice([" c", " d e", ""]))
            elif k < 0.64:
                self.emit(rng.choice(["c", "d4 e", "r8 c", "l8 o5 c"]))
            elif k < 0.70 and self.funcs:
                self.emit(rng.choice(self.funcs) + "(" + self.gap() + self.expr() + self.gap() + ")")
            elif depth > 0 and k < 0.80:
                self.emit("IF(" + self.gap() + self.expr(rng.choice([3, 4, 4])) + self.gap() + "){")
                self.block(depth - 1, in_func)
                if rng.random() < 0.5:
                    self.emit("}ELSE{")
                    self.block(depth - 1, in_func)
                self.emit("}")
            elif depth > 0 and k < 0.90 and self.loopvars:
                v = self.loopvars.pop()
                self.emit("FOR(INT %s = %s;%s%s < %s; %s++){" % (v, self.expr(2, True), self.gap() or " ", v, self.expr(2, True), v))
                self.block(depth - 1, in_func)
                self.emit("}")
            elif depth > 0 and self.loopvars:
                v = self.loopvars.pop()
                self.emit("INT %s = 0" % v)
                self.emit("WHILE(" + self.gap() + v + " * 1" + self.gap() + "<" + self.gap() + self.expr(2, True) + "){")
                self.block(depth - 1, in_func)
                self.emit("%s = %s + 1" % (v, v))
                self.emit("}")
            else:
                self.emit("PRINT(" + self.expr() + ")")

    def build(self):
        rng = self.rng
        self.funcs, self.loopvars = [], ["I", "J", "K", "L", "W", "II", "JJ"]
        if rng.random() < 0.5:
            self.emit("FUNCTION FN(A){")
            saved, self.vars = self.vars, ["A"]
            self.block(1, True)
            self.vars = saved
            self.emit("}")
            self.funcs.append("FN")
        self.block(rng.choice([1, 2, 2]), False)
        self.emit("PRINT(%d)" % rng.randrange(100, 1000))
        self.emit(";" + rng.choice(["!", "※", "Foo", "%"]) + ";")
        multi = "\n".join(self.stmts).replace(NLP, "\n") + rng.choice(["", "\n"])
        flat = "\n".join(self.stmts).replace(NLP, " ")
        line_of, ln = [], 0
        for st in self.stmts:
            line_of.append(ln)
            ln += 1 + st.count(NLP)
        return multi, flat, line_of


ENTRY = re.compile(r'^\[(PRINT|ERROR)\]\((-?\d+)\) (.*)$', re.S)


def norm_entries(log_text, line_map=None):
    """entries as (kind, line, text); the `near "..."` tail of lexer errors is dropped (it shows the following source text)"""
    out = []
    for e in split_log(log_text):
        m = ENTRY.match(e)
        if not m:
            out.append(("?", -1, e))
            continue
        line = int(m.group(2))
        if line_map is not None:
            line = line_map[line] if 0 <= line < len(line_map) else -1000 - line
        text = m.group(3)
        if m.group(1) == "ERROR" and ' near "' in text:
            text = text[:text.index(' near "')]
        out.append((m.group(1), line, text))
    return out


def run_expressions(ctx, n):
    """(3c) line numbers after statements whose expressions span several lines"""
    rng = ctx.rng
    cases = []
    for _ in range(n):
        multi, flat, line_of = ExprSrc(rng, rng.choice([0.1, 0.2, 0.35])).build()
        if multi != flat:
            cases.append((multi, flat, line_of))
    lines = []
    for multi, flat, _ in cases:
        for kind in ("compile", "lex"):
            lines.append(case_line(kind, multi))
            lines.append(case_line(kind, flat))
    buf = []
    got = ctx.impl(lines, stall=20, capture_stdout=buf)
    silent(ctx, lines, buf, "multi-line expressions")
    for j, (multi, flat, line_of) in enumerate(cases):
        for d, kind in ((0, "compile"), (2, "lex")):
            gm, gf = got[4 * j + d].split("\t"), got[4 * j + d + 1].split("\t")
            check_bounds(ctx, multi, got[4 * j + d], kind)
            if len(gm) < 2 or len(gf) < 2:
                ctx.count("expressions:" + kind, None)
                if gm[0] != gf[0]:
                    ctx.oracle_fail("a comment with a line break inside an expression changes the outcome (%s)" % kind, lines[4 * j + d],
                                    got[4 * j + d][:80], got[4 * j + d + 1][:80], input_text=multi)
                continue
            logf = vlib.dec_text(gf[1])
            ef = norm_entries(logf, line_of)
            if len(ef) >= 95 or len(logf) >= 4000 or any(k == "?" or (k == "ERROR" and not t.startswith(("Unknown Character", "Syntax Error"))) for k, _, t in ef):
                ctx.dist["expressions_skipped"] = ctx.dist.get("expressions_skipped", 0) + 1
                continue
            ctx.count("expressions:" + kind, multi if d == 0 and len(ef) >= 3 else None)
            if gm[0] != gf[0]:
                ctx.oracle_fail("a comment with a line break inside an expression changes the MIDI bytes (%s)" % kind, lines[4 * j + d],
                                gm[0][-160:], gf[0][-160:], input_text=multi)
                continue
            em = norm_entries(vlib.dec_text(gm[1]))
            if em != ef:
                show = lambda es: "\n".join("[%s](%d) %s" % e for e in es)[:700]
                ctx.oracle_fail("line numbers after a statement whose expression spans several lines (%s): every [PRINT] / [ERROR] entry must "
                                "carry the 0-based source line of its statement" % kind, lines[4 * j + d], show(em), show(ef), input_text=multi)
        if len(ctx.samples) < 12 and multi.count("\n") > flat.count("\n") + 2:
            ctx.sample({"source": multi[:400], "log": vlib.dec_text(got[4 * j].split("\t")[1])[:300] if "\t" in got[4 * j] else ""})
    sub = [(c[0], got[4 * j + 2]) for j, c in enumerate(cases) if len(c[0]) < 600]
    mod = ctx.model(["compile_script\t%s" % vlib.enc_text(s) for s, _ in sub], driver="script", stall=15)
    for (s, g), m in zip(sub, mod):
        if m.startswith("UNSUPPORTED") or m.startswith("OUTOFFUEL") or m in ("HANG", "ABORT"):
            ctx.unsupported += 1
            ctx.dist["script_unsupported_expr"] = ctx.dist.get("script_unsupported_expr", 0) + 1
        elif m != g:
            ctx.disagree("compile_script (script model) on a source with multi-line expressions: bytes and log", s, g[-400:], m[-400:])
        else:
            ctx.dist["script_model_agrees_expr"] = ctx.dist.get("script_model_agrees_expr", 0) + 1


def run_corpus(ctx):
    p = os.path.join(vlib.VERIF, "corpus", "C19.jsonl")
    if not os.path.exists(p):
        return
    objs = [json.loads(l) for l in open(p, encoding="utf-8") if l.strip()]
    lines = []
    for o in objs:
        lines.append("compile\t%s\t0" % vlib.enc_text(o["src"]))
        lines.append("compile\t%s\t0" % vlib.enc_text(o.get("same_bytes_as", o["src"])))
    buf = []
    got = ctx.impl(lines, stall=15, capture_stdout=buf)
    silent(ctx, lines, buf, "corpus")
    for i, o in enumerate(objs):
        g, gc = got[2 * i].split("\t"), got[2 * i + 1].split("\t")
        ctx.count("corpus", o["src"])
        check_bounds(ctx, o["src"], got[2 * i], "compile")
        if o.get("pending") and not any(k.get("input") == o["src"] for k in ctx.known):
            # reported to the lead, not yet repaired nor registered in known_findings.json: recorded in the evidence notes; removing
            # the "pending" flag makes the entry strict
            have = split_log(vlib.dec_text(g[1])) if len(g) > 1 else []
            key = "pending_finding_still_fails" if have != o.get("log") else "pending_finding_now_passes"
            ctx.dist[key] = ctx.dist.get(key, 0) + 1
            ctx.notes.append("REPORTED, PENDING: %r logs %r, expected %r - %s" % (o["src"], have, o.get("log"), o.get("why", "")))
            continue
        if "same_bytes_as" in o and g[0] != gc[0]:
            ctx.oracle_fail("the offender changes the music: %s" % o.get("why", ""), lines[2 * i], "%r -> %s" % (o["src"], g[0][-160:]),
                            "%r -> %s" % (o["same_bytes_as"], gc[0][-160:]), input_text=o["src"])
        if "log_text" in o and len(g) > 1 and vlib.dec_text(g[1]) != o["log_text"]:
            have = vlib.dec_text(g[1])
            ctx.oracle_fail("log text: %s" % o.get("why", ""), lines[2 * i], "%d characters, ends with %r" % (len(have), have[-12:]),
                            "%d characters, ends with %r" % (len(o["log_text"]), o["log_text"][-12:]), input_text=o["src"])
        if "log" in o and len(g) > 1:
            log = split_log(vlib.dec_text(g[1]))
            if log != o["log"]:
                ctx.oracle_fail("log entries / line numbers: %s" % o.get("why", ""), lines[2 * i], "\n".join(log)[:400], "\n".join(o["log"])[:400],
                                input_text=o["src"])
    srcs = [o["src"] for o in objs]
    imp = ctx.impl(["compile_lex\t%s" % vlib.enc_text(s) for s in srcs], stall=15)
    mod = ctx.model(["compile_core\t%s" % vlib.enc_text(s) for s in srcs])
    for s, g, m in zip(srcs, imp, mod):
        if m.startswith("UNSUPPORTED") or m.startswith("OUTOFFUEL"):
            ctx.unsupported += 1
        elif m != g:
            ctx.disagree("compile (lex/exec/generate) on a corpus source: bytes and log", s, g[-300:], m[-300:])


def run_fixed(ctx):
    rng = ctx.rng
    # every unknown ASCII character alone on line 2 between two notes; each really is unknown at command position
    lines, meta = [], []
    for ch in UNKNOWN_ASCII + UNKNOWN_OTHER + WORDS:
        for kind in ("lex", "compile"):
            if kind == "compile" and (ch == "~" or ord(ch[0]) >= 128):
                continue
            src = "c\n\n;%s;d" % ch
            lines.append(case_line(kind, src))
            lines.append(case_line(kind, "c\n\n;;d"))
            meta.append((ch, kind, src))
    # command characters are NOT reported (']' and ':' are commands)
    for ch in ["]", ":", "'", "?", "&", "`", '"', "<", ">", "(", ")", "|", ";"]:
        src = "c\n%s\nd" % ch
        lines.append(case_line("lex", src))
        lines.append(case_line("lex", src))
        meta.append((None, "lex", src))
    buf = []
    got = ctx.impl(lines, stall=15, capture_stdout=buf)
    silent(ctx, lines, buf, "single offenders")
    for i, (ch, kind, src) in enumerate(meta):
        g, gc = got[2 * i].split("\t"), got[2 * i + 1].split("\t")
        ctx.count("single_offender", src)
        if len(g) < 2:
            ctx.oracle_fail("compilation fails on an offender", lines[2 * i], got[2 * i], "bytes and a log", input_text=src)
            continue
        log = split_log(vlib.dec_text(g[1]))
        if ch is None:
            if any("Unknown Character" in e for e in log):
                ctx.oracle_fail("a command character is reported as unknown", lines[2 * i], "\n".join(log), "no Unknown Character entry", input_text=src)
            continue
        word = len(ch) > 1
        m = (ERR_WORD if word else ERR_CH).match(log[0]) if len(log) == 1 else None
        if g[0] != gc[0] or not m or int(m.group(1)) != 2 or m.group(2) != ch:
            ctx.oracle_fail("an offender on line 2 between two notes: bytes of 'c d' and one [ERROR](2) entry naming it expected (%s)" % kind,
                            lines[2 * i], "%s | %s" % (g[0][-60:], "\n".join(log)[:300]),
                            "%s | [ERROR](2) %s \"%s\" near ..." % (gc[0][-60:], "Syntax Error" if word else "Unknown Character:", ch), input_text=src)
    # a digit that STARTS A LINE after a command that takes a length is not part of that length (only '^' continues a length over
    # a line break): it is an unknown character like any other, reported on its own line, and the music is that of the clean text
    lines, meta = [], []
    for prev in ["c", "c4", "r", "r2", "l4 c", "l8", "'ce'", "c4.", "c,50", "e-", "n60,4", "[2 c"]:
        for dg in "0123456789":
            for sep in ["\n", "\n\n  ", "\r\n", " \n\t"]:
                tail = "d e" + ("]" if prev.startswith("[") else "")
                src, clean = prev + sep + dg + tail, prev + sep + tail
                for kind in ("lex", "compile"):
                    lines.append(case_line(kind, src))
                    lines.append(case_line(kind, clean))
                    meta.append((dg, kind, src, src.count("\n")))
    buf = []
    got = ctx.impl(lines, stall=15, capture_stdout=buf)
    silent(ctx, lines, buf, "digits at the start of a line")
    for i, (dg, kind, src, line) in enumerate(meta):
        g, gc = got[2 * i].split("\t"), got[2 * i + 1].split("\t")
        ctx.count("digit_line_start", src)
        log = split_log(vlib.dec_text(g[1])) if len(g) > 1 else []
        m = ERR_CH.match(log[0]) if len(log) == 1 else None
        if len(g) < 2 or g[0] != gc[0] or not m or int(m.group(1)) != line or m.group(2) != dg:
            ctx.oracle_fail("a digit at the start of a line after a length-taking command: the clean text's bytes and one [ERROR](%d) entry naming it expected (%s)" % (line, kind),
                            lines[2 * i], "%s | %s" % (g[0][-60:], "\n".join(log)[:300]), "%s | [ERROR](%d) Unknown Character: \"%s\" near ..." % (gc[0][-60:], line, dg),
                            input_text=src)
    # (4) bounds under stress
    stress = ["c" + "!" * 200 + "d", "".join("PRINT(%d)\n" % i for i in range(150)), "!" * 40 + "".join("PRINT(%d)\n" % i for i in range(150)),
              "".join("PRINT({%s})\n" % ("x" * 100) for _ in range(150)), "".join("Foo%d;\n" % i for i in range(150)),
              "".join("%s\n" % rng.choice(UNKNOWN_ASCII) for _ in range(200)), "[100 PRINT(1)]", "[50 [50 PRINT({abcdefghijklmnopqrstuvwxyz})]]",
              "".join("c%s" % rng.choice(UNKNOWN_ASCII[:2]) for _ in range(100)), "PRINT({" + "y" * 5000 + "})", "!" * 29 + "Foo;" * 5 + "!" * 10,
              "TimeSignature(3,5)" * 120, "INT A=0; WHILE(A<200){A=A+1; PRINT(A)}"]
    lines = [case_line(k, s) for s in stress for k in ("compile", "lex")]
    buf = []
    got = ctx.impl(lines, stall=30, capture_stdout=buf)
    silent(ctx, lines, buf, "stress sources")
    for j, s in enumerate(stress):
        for d, kind in ((0, "compile"), (1, "lex")):
            ctx.count("bounds", s[:40])
            g = got[2 * j + d]
            if g in ("PANIC", "HANG", "ABORT", "MISSING"):
                ctx.oracle_fail("a log-heavy source makes the compiler %s" % g, lines[2 * j + d], g, "bytes and a bounded log", input_text=s)
            check_bounds(ctx, s, g, kind)
    g = got[0].split("\t")
    log = split_log(vlib.dec_text(g[1])) if len(g) > 1 else []
    if len(log) != 31 or "Too many errors in Lexer" not in log[-1] or g[0] != ctx.impl([case_line("compile", "cd")])[0].split("\t")[0]:
        ctx.oracle_fail("200 unknown characters: 30 entries + the notice, music unchanged", lines[0], "%d entries, last %r" % (len(log), log[-1:] and log[-1]),
                        "31 entries, bytes of 'cd'", input_text=stress[0])
    g = got[4].split("\t")
    log = split_log(vlib.dec_text(g[1])) if len(g) > 1 else []
    if len(log) != 100 or sum(1 for e in log if "Unknown Character" in e or "Too many" in e) != 31:
        ctx.oracle_fail("40 unknown characters + 150 PRINTs: 31 lexer entries, 100 in total", lines[4], "%d entries" % len(log), "100 entries", input_text=stress[2])
    # (5) End / END
    ends = []
    for _ in range(60 if ctx.tier == "quick" else 2000):
        items = lay.gen_items(rng, 1, rng.randrange(1, 8), rng.random() < 0.6)
        pre = lay.to_text(items, lay.make_layout(rng, items, rng.random() < 0.5))
        junk = rng.choice(["c d e", "!!! ~~", "{ [ ' (", "TR(5) c", "PRINT(1)", "Foo Bar", "\n\n\nc", "/* open", "#A={", "FUNCTION F(){c}", "ドレミ", "End c", ""])
        word = rng.choice(["End", "END"])
        sep = rng.choice([" ", "\n", ";", "|"])
        post = rng.choice([" ", "\n", ";", ""])
        # the prefix program ends with ';' so that sutoton::convert's trim_end cannot cut into a final `# ` comment
        ends.append((pre + sep + word + post + junk, pre + sep + ";"))
    # definitions in the ignored tail: the pre-scan for FUNCTION stops at the word End / END like the lexer does - a reserved
    # name or a redefinition must leave no trace (an unknown word BEFORE End is left out: its error entry quotes the text that follows)
    for word in ("End", "END"):
        for pre, tail in [("c d", "FUNCTION PRINT(){}"), ("c d", "FUNCTION TR(){ c }"), ("FUNCTION Foo(){ c }\nFoo d", "old version:\nFUNCTION Foo(){ e }\n"),
                          ("c", "FUNCTION Int(){}")]:
            ends.append((pre + "\n" + word + "\n" + tail, pre + "\n;"))
    lines = []
    for a, b in ends:
        for k in ("compile", "lex"):
            lines.append(case_line(k, a))
            lines.append(case_line(k, b))
    buf = []
    got = ctx.impl(lines, stall=20, capture_stdout=buf)
    silent(ctx, lines, buf, "End / END")
    for j, (a, b) in enumerate(ends):
        for d, kind in ((0, "compile"), (2, "lex")):
            ga, gb = got[4 * j + d], got[4 * j + d + 1]
            ctx.count("end", a)
            if ga != gb:
                ctx.oracle_fail("text after End / END is not ignored (%s: bytes or log differ from the prefix program)" % kind, lines[4 * j + d],
                                "%r -> %s" % (a[-200:], ga[-200:]), "%r -> %s" % (b[-200:], gb[-200:]), input_text=a)
    srcs = [a for a, _ in ends if len(a) < 300]
    imp = ctx.impl(["compile_lex\t%s" % vlib.enc_text(s) for s in srcs], stall=15)
    mod = ctx.model(["compile_core\t%s" % vlib.enc_text(s) for s in srcs])
    for s, g, m in zip(srcs, imp, mod):
        if m.startswith("UNSUPPORTED") or m.startswith("OUTOFFUEL"):
            ctx.unsupported += 1
        elif m != g:
            ctx.disagree("compile (lex/exec/generate) with End: bytes and log", s, g[-300:], m[-300:])
    # (6) silence on script sources (FOR loops, expressions, functions, errors inside expressions)
    scripts = ["FOR(INT I=0;I<2;I++){c}", "FOR(INT I=0;I<3;I++){ PRINT(I) }", "PRINT(1+2*3)", "INT A=5; WHILE(A>0){A=A-1; c}", "IF(1==2){c}ELSE{d}",
               "FUNCTION F(X){ RETURN(X+1) } PRINT(F(3))", "PRINT(MID({abc},1,2))", "Rhythm{bhsh}", "#A={c} #A;", "PLAY({c},{d})",
               "INT A=RandomSelect(1,2,3); c", "PRINT(SizeOf(R))", "PRINT(Random(3))", "PRINT(1 ! 2)", "PRINT(1 + )", "PRINT(( 1 + 2)", "INT B=(1+2)*(3-1); PRINT(B)",
               "PRINT(1 @ 2)", "INT C = 1 ? 2; c", "PRINT(3 ~ 4)", "FOR(INT I=0;I<2;I++){ FOR(INT J=0;J<2;J++){ PRINT(I*J) } }", "FOR(;;){ BREAK }",
               "WHILE(0){c}", "IF(1){ PRINT({yes}) }", "STR T={abc}; PRINT(T)", "PRINT(CHR(65))", "PRINT(REPLACE({abc},{b},{x}))", "INT A=3 A++ PRINT(A)",
               "FOR(INT I=0;I<2;I++){c} !", "System.TimeBase(96) c", "Key(2) c", "TrackSync c", "Include(abc) c", "SetRandomSeed(5) PRINT(Random(9))"]
    lines = [case_line("compile", s) for s in scripts]
    buf = []
    got = ctx.impl(lines, stall=20, capture_stdout=buf)
    silent(ctx, lines, buf, "script sources")
    for s, g in zip(scripts, got):
        ctx.count("silence", s)
        check_bounds(ctx, s, g, "compile")
        if g in ("HANG", "ABORT", "MISSING"):
            ctx.dist["script_" + g] = ctx.dist.get("script_" + g, 0) + 1


def run(ctx):
    run_corpus(ctx)
    run_fixed(ctx)
    run_boundary(ctx)
    run_functions(ctx, 250 if ctx.tier == "quick" else 8000)
    run_expressions(ctx, 400 if ctx.tier == "quick" else 10000)
    run_generated(ctx, 700 if ctx.tier == "quick" else 15000)


def replay(ctx, obj):
    f = obj.get("failure") or {}
    print("replay: input =", repr(f.get("input"))[:800])
    if f.get("input") is not None:
        buf = []
        r = ctx.impl(["compile\t%s\t0" % vlib.enc_text(f["input"])], capture_stdout=buf)[0].split("\t")
        print("bytes   :", r[0][-200:])
        print("log     :", vlib.dec_text(r[1])[:600] if len(r) > 1 else "-")
        print("stdout  :", buf[0][:200] if buf else b"")
        print("expected:", str(f.get("expected"))[:600])
