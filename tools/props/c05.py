"""C05 - loop brackets mean repetition, ':' leaves the loop on the last pass.
Theorems: props/C05.v (generic flat-machine-vs-structure theorem, any nesting, counts, bodies).
Oracle on the implementation = the law itself: a source with loops and the same source with every loop
(or only the outermost loops) textually unrolled - `[n a]` -> a written n times, `[n a : b]` -> (a b) written
n-1 times then a - must compile to the same bytes.  Loops are placed at top level, inside other loops (with
and without ':'), inside Sub{...}; bodies contain notes, rests, state commands, chords, tuplets, Sub blocks
and comments.  (Loops are not put inside a tuplet: `{[2 c]}` and `{c c}` legitimately differ, the tuplet
divides its length by the number of counted elements.)
Unbalanced brackets: the simplest cases are theorems (a lone `]` / `:` is passed over, an unclosed `[n` runs what follows once)
and are checked as byte equalities on the implementation; other unbalanced shapes are compared with the model (bytes and log)."""
import json, os
import vlib, mmlgen

COQ_TARGET = "props/C05.v"
THEOREMS = ["C05_flat_vs_structured", "C05_fuel_bound", "C05_fuel_mono", "C05_all_counts_pos", "C05_segment",
            "C05_count_zero_runs_once", "C05_halted_fixed", "C05_exec_app", "C05_flatten_app", "C05_repeat",
            "C05_repeat_text", "C05_break", "C05_break_text",
            "C05_parse_sound", "C05_parse_complete", "C05_balanced_iff", "C05_run_parsed", "C05_run_parsed_pos", "C05_exec_lexed",
            "C05_repeat_tokens", "C05_break_tokens", "C05_lone_end", "C05_lone_break", "C05_unclosed_begin", "C05_exec_fuel_mono"]
DRIVERS = ["core"]
RULE = ("programs = pre [n body] post with n in 1..6 or omitted (=2), bodies of 1..4 items from the core-language generator "
        "(notes with flags, rests, n-notes, l/o/v/q/t and relative state commands, chords, tuplets, Sub blocks, comments, all "
        "separator forms; track / channel / voice / tempo / controller commands), optional ':' part, loops nested up to depth 3 inside loop bodies, ':' parts and Sub{...}; each "
        "compared with its fully unrolled text and with the text where only the outermost loops are unrolled. "
        "non-trivial = distinct source with a loop of count >= 2 or a ':'")
TRUSTED = ["the lexer is compositional at command boundaries (a body followed by a space lexes the same before ']' and "
           "before its own next copy) - this is C03's printer lemma, here exercised but not proved"]
ASSUMES = ["counts are literals 1..6 or omitted (plus a fixed list of large counts 100..5000 on short bodies); an omitted count is never followed (after blanks and /* */ comments) by '(', "
           "'=' or a digit (read_loop would take it as the count)",
           "commands are closed in the sense of DESIGN 6.0: an unparenthesised expression argument (@40, TEMPO=90) is ended by "
           "';' - otherwise it absorbs a following ':' as an argument separator and there is no loop break in the token list",
           "TimeBase(...) is not generated inside bodies: it is a parse-time directive (applied once per occurrence in the "
           "TEXT, also in a ':' part that is never executed), not a command that is executed"]

LEAF_FEATS = {"loop": False, "chord": True, "tuplet": True, "sub": True, "comments": True, "note_n": True}
COUNTS = ["1", "2", "3", "4", "5", "6", "", "2", "3", "1"]


# commands that switch track / channel / voice or write controllers, all CLOSED (see ASSUMES): state that must be
# carried from pass to pass exactly as in the unrolled text
TRACK_POOL = ["TR(1)", "TR(2)", "TR(3)", "Track(5)", "TRACK(0)", "TR(10)", "TR(16)", "CH(1)", "CH(2)", "CH(10)", "Channel(16)",
              "@1;", "@5;", "@40;", "@128;", "@(25)", "Tempo(120)", "TEMPO=90;", "Tempo(500)", "y7,100;", "y10,20;", "M(64)", "V(100)",
              "P(32)", "EP(90)", "REV(40)", "PB(100)", "p(64)", "BR(12)", "TimeSignature(3,4)", "KeyShift(2)", "TrackKey(-1)",
              "KF+(fc)", "KF-(b)", "KeyFlag=(0,0,0,0,0,0,0)", "TrackSync;", "TIME(2:1:0)", "TIME(96)", "MeasureShift(1)"]


def leaf(rng, depth=None, n=None):
    s = mmlgen.block(rng, rng.choice([0, 1, 1, 2]) if depth is None else depth, n or rng.randrange(1, 4), LEAF_FEATS)
    if rng.random() < 0.25:
        t = rng.choice(TRACK_POOL)
        s = s + " " + t + " " if rng.random() < 0.5 else t + " " + s
    return s


def gen_items(rng, depth, n_items):
    """a small structured program: list of ('text', s) | ('loop', n, a, b|None) | ('sub', items)"""
    out = []
    for _ in range(n_items):
        k = rng.random()
        if depth > 0 and k < 0.40:
            a = gen_items(rng, depth - 1, rng.randrange(1, 4))
            b = gen_items(rng, depth - 1, rng.randrange(1, 3)) if rng.random() < 0.45 else None
            out.append(("loop", rng.choice(COUNTS), a, b))
        elif depth > 0 and k < 0.50:
            out.append(("sub", gen_items(rng, depth - 1, rng.randrange(1, 3))))
        else:
            out.append(("text", leaf(rng)))
    return out


def count_of(n):
    return 2 if n == "" else int(n)


def first_after_space(s):
    """the character read_loop looks at: SourceCursor::skip_space skips blanks, tabs and /* */ comments"""
    while True:
        s = s.lstrip(" \t")
        if s.startswith("/*") and "*/" in s:
            s = s[s.index("*/") + 2:]
        else:
            return s[:1]


def render(items, mode):
    """mode: 'loop' = as written, 'full' = every loop unrolled, 'outer' = only the outermost loops unrolled"""
    parts = []
    for it in items:
        if it[0] == "text":
            parts.append(it[1])
        elif it[0] == "sub":
            parts.append("Sub{ " + render(it[1], mode) + " }")
        else:
            _, n, a, b = it
            if mode == "loop":
                sa = render(a, "loop")
                head = n
                if n == "" and first_after_space(sa) in set("(=0123456789-$!{") | {""}:
                    head = "2"      # read_loop would read the body's first character as the count
                s = "[" + head + " " + sa
                if b is not None:
                    s += " : " + render(b, "loop")
                parts.append(s + " ]")
            else:
                inner = "full" if mode == "full" else "loop"
                sa = render(a, inner)
                sb = render(b, inner) if b is not None else ""
                k = count_of(n)
                reps = []
                for i in range(k):
                    reps.append(sa)
                    if i < k - 1 and b is not None:
                        reps.append(sb)
                parts.append(" " + "  ".join(reps) + " ")
    return " ".join(parts)


def nontrivial(items):
    for it in items:
        if it[0] == "loop":
            if count_of(it[1]) >= 2 or it[3] is not None:
                return True
            if nontrivial(it[2]):
                return True
        elif it[0] == "sub" and nontrivial(it[1]):
            return True
    return False


def size(items):
    """number of leaf copies after full unrolling (to keep cases small)"""
    t = 0
    for it in items:
        if it[0] == "text":
            t += 1
        elif it[0] == "sub":
            t += size(it[1])
        else:
            k = count_of(it[1])
            t += k * size(it[2]) + (max(k - 1, 0) * size(it[3]) if it[3] is not None else 0)
    return t


def compare(ctx, pairs, origin):
    """pairs: list of (looped_source, unrolled_source, what, nontrivial?)"""
    lines = []
    for a, b, _, _ in pairs:
        lines.append("compile\t%s\t0" % vlib.enc_text(a))
        lines.append("compile\t%s\t0" % vlib.enc_text(b))
    got = ctx.impl(lines, stall=20)
    for i, (a, b, what, nt) in enumerate(pairs):
        ga, gb = got[2 * i].split("\t")[0], got[2 * i + 1].split("\t")[0]
        ctx.count(origin, a if nt else None)
        ctx.sample({"with_loops": a[:200], "unrolled": b[:300], "bytes_equal": ga == gb, "bytes": len(ga) // 2})
        if gb in ("PANIC", "HANG", "ABORT"):
            # the unrolled text itself does not compile: not a statement about loops
            ctx.dist["unrolled_" + gb] = ctx.dist.get("unrolled_" + gb, 0) + 1
            if ga == gb:
                continue
        if ga != gb:
            ctx.oracle_fail("%s: the source with loops and its unrolled text compile to different bytes" % what,
                            lines[2 * i], ga[:600], gb[:600], input_text=a)


def run(ctx):
    rng = ctx.rng
    n = 400 if ctx.tier == "quick" else 12000
    # corpus first
    pairs, nopanic = [], []
    p = os.path.join(vlib.VERIF, "corpus", "C05.jsonl")
    if os.path.exists(p):
        for line in open(p, encoding="utf-8"):
            if line.strip():
                o = json.loads(line)
                if "equals" in o:
                    pairs.append((o["src"], o["equals"], "corpus", True))
                else:
                    nopanic.append(o["src"])
    compare(ctx, pairs, "corpus")
    got = ctx.impl(["compile\t%s\t0" % vlib.enc_text(s) for s in nopanic], stall=20)
    for s, g in zip(nopanic, got):
        ctx.count("corpus", s)
        if g.split("\t")[0] in ("PANIC", "HANG", "ABORT"):
            ctx.oracle_fail("a loop makes the compiler %s" % g, s, g, "a MIDI file", input_text=s)
    # generated programs
    pairs = []
    while len(pairs) < 2 * n:
        depth = rng.choice([1, 1, 2, 2, 3])
        items = gen_items(rng, depth, rng.randrange(1, 4))
        # always at least one loop at top level or inside a Sub
        if not any(it[0] != "text" for it in items):
            a = gen_items(rng, depth - 1, rng.randrange(1, 4))
            b = gen_items(rng, depth - 1, rng.randrange(1, 3)) if rng.random() < 0.45 else None
            items.insert(rng.randrange(0, len(items) + 1), ("loop", rng.choice(COUNTS), a, b))
        if size(items) > 400:
            continue
        pre = mmlgen.block(rng, 1, rng.randrange(0, 3), LEAF_FEATS)
        post = mmlgen.block(rng, 1, rng.randrange(0, 3), LEAF_FEATS)
        wrap = lambda s: pre + " " + s + " " + post
        nt = nontrivial(items)
        looped = wrap(render(items, "loop"))
        pairs.append((looped, wrap(render(items, "full")), "fully unrolled", nt))
        pairs.append((looped, wrap(render(items, "outer")), "outermost loops unrolled", nt))
    compare(ctx, pairs, "generated")
    # the two shapes of the property, literally, for every count: [n body] = body^n, [n a : b] = (a b)^(n-1) a
    pairs = []
    for _ in range(n // 4):
        a = leaf(rng, 2, rng.randrange(1, 5))
        b = leaf(rng, 2, rng.randrange(1, 4))
        k = rng.randrange(1, 7)
        if rng.random() < 0.3:
            # state carries from pass to pass: a tie left open by the last note of the body joins the next pass
            a = a + " " + rng.choice(["c&", "d8&", "c4&c8&", "e&"])
        pairs.append(("[%d %s ] c" % (k, a), " ".join([a] * k) + "  c", "[n body]", True))
        pairs.append(("[%d %s : %s ] c" % (k, a, b), " ".join([a + " " + b] * (k - 1) + [a]) + "  c", "[n a : b]", True))
    # the same two shapes written INSIDE a chord and inside Sub{}: the ':' between chord quotes is a loop break like any other
    # (not inside tuplets: a tuplet counts its elements in the text, so a loop there is not its unrolled text - observed, not claimed)
    for _ in range(n // 8):
        k = rng.randrange(1, 6)
        a = " ".join(rng.choice("cdefgab") for _ in range(rng.randrange(1, 3)))
        b = " ".join(rng.choice("cdefgab") for _ in range(rng.randrange(1, 3)))
        tail = rng.choice("cdefgab")
        ln = rng.choice(["", "4", "2", "8"])
        pairs.append(("l4 '[%d %s : %s] %s'%s c" % (k, a, b, tail, ln), "l4 '%s %s'%s c" % (" ".join([a + " " + b] * (k - 1) + [a]), tail, ln), "[n a : b] inside a chord", True))
        pairs.append(("l4 '[%d %s] %s'%s c" % (k, a, tail, ln), "l4 '%s %s'%s c" % (" ".join([a] * k), tail, ln), "[n body] inside a chord", True))
        pairs.append(("l4 Sub{ [%d %s : %s] %s } c" % (k, a, b, tail), "l4 Sub{ %s %s } c" % (" ".join([a + " " + b] * (k - 1) + [a]), tail), "[n a : b] inside Sub", True))
    # a count given by a VARIABLE is the variable's value when the loop is entered: a body that changes the variable does not change
    # the number of passes
    for _ in range(n // 10):
        k = rng.randrange(1, 6)
        a = " ".join(rng.choice("cdefgab") for _ in range(rng.randrange(1, 3)))
        upd = rng.choice(["NN=NN-1", "NN=NN+2", "NN=0", "NN=9", "NN++", "NN--"])
        pairs.append(("INT NN=%d [=NN %s %s ] e" % (k, a, upd), "INT NN=%d %s  e" % (k, " ".join([a + " " + upd] * k)), "[=N body] with N changed inside", False))
        b = rng.choice("cdefgab")
        pairs.append(("INT NN=%d [=NN %s %s : %s ] e" % (k, a, upd, b), "INT NN=%d %s  e" % (k, " ".join([a + " " + upd + " " + b] * (k - 1) + [a + " " + upd])), "[=N a : b] with N changed inside", False))
    compare(ctx, pairs, "literal")
    # large counts (short bodies): 127 / 128 / 255 / 256 / 1000 are where a byte-sized or clamped counter would show
    pairs = []
    for k in ([127, 128, 129, 200, 255, 256, 257, 1000] if ctx.tier == "quick" else [100, 127, 128, 129, 200, 255, 256, 257, 300, 1000, 1024, 4096, 5000]):
        a = leaf(rng, 1, rng.randrange(1, 3))
        b = leaf(rng, 1, 1)
        pre = rng.choice(["l16 ", "l32 ", "TR=2 l32 ", "l64 "])
        pairs.append((pre + "[%d %s ] c" % (k, a), pre + " ".join([a] * k) + "  c", "[n body], large n", True))
        pairs.append((pre + "[%d %s : %s ] c" % (k, a, b), pre + " ".join([a + " " + b] * (k - 1) + [a]) + "  c", "[n a : b], large n", True))
        pairs.append((pre + "[2 [%d %s : %s ] e ] c" % (k, a, b), pre + " ".join([" ".join([a + " " + b] * (k - 1) + [a]) + " e"] * 2) + "  c", "nested, large n", True))
    # the number of jump-backs of ALL loops together may be large (each count small): no loop is cut short because others ran
    for (n1, n2, tracks) in ([(80, 64, 2)] if ctx.tier == "quick" else [(80, 64, 2), (101, 100, 1), (60, 60, 3), (127, 90, 1)]):
        looped = "l16 " + " ".join("TR=%d [%d [%d %s]]" % (t + 1, n1, n2, "ceg"[t % 3]) for t in range(tracks))
        unrolled = "l16 " + " ".join("TR=%d %s" % (t + 1, " ".join(["ceg"[t % 3]] * (n1 * n2))) for t in range(tracks))
        pairs.append((looped, unrolled, "many jump-backs in total", True))
    compare(ctx, pairs, "large-count")
    # unbalanced brackets, the simplest cases (theorems C05_lone_end / C05_lone_break / C05_unclosed_begin): a `]` or a `:`
    # outside any loop is passed over, a `[n` that is never closed runs what follows once
    pairs = []
    for _ in range(n // 8):
        a = leaf(rng, 1, rng.randrange(1, 4))
        b = leaf(rng, 1, rng.randrange(1, 4))
        pairs.append((a + " ] " + b + " c", a + "  " + b + " c", "a lone ']'", True))
        pairs.append((a + " : " + b + " c", a + "  " + b + " c", "a lone ':'", True))
        pairs.append((a + " [%d %s c" % (rng.randrange(1, 7), b), a + "  " + b + " c", "an unclosed '['", True))
        pairs.append(("Sub{ " + a + " ] " + b + " } c", "Sub{ " + a + "  " + b + " } c", "a lone ']' inside Sub", True))
    compare(ctx, pairs, "unbalanced")
    # ... and implementation = model (bytes and log) on unbalanced texts of other shapes, where no law is claimed
    srcs = ["c ] d", "[2 c", "[5 c d", ": c", "c : d", "c ] ] d e", "[3 c : d", "c ] [2 d] e", "[2 c ] ] d", "[2 c : d : e]", "[2 c ] : d",
            "Sub{c ] d} e", "{c ] d}4", "[0 c] d", "[2 [3 c ] d", "] c", "[", "]", ":", "[2 c : ] d", "[2 : c] d", "c [2 d : e f",
            "[2 c : d ] : e ] f", "[3 [2 c : d", "[2 c Sub{ d ] e } f ]", "[2 c Sub{ [3 d } e ]"]
    got = ctx.impl(["compile_lex\t%s" % vlib.enc_text(s) for s in srcs], stall=20)
    mod = ctx.model(["compile_core\t%s" % vlib.enc_text(s) for s in srcs])
    for s, g, m in zip(srcs, got, mod):
        ctx.count("unbalanced-correspondence", s)
        if m.startswith("UNSUPPORTED") or m.startswith("OUTOFFUEL"):
            ctx.unsupported += 1
        elif g != m:
            ctx.disagree("compile (lex/exec/generate) on unbalanced loop brackets", s, g[:300], m[:300])


def replay(ctx, obj):
    f = obj.get("failure") or {}
    print("replay: input =", repr(f.get("input"))[:800])
    line = f.get("case")
    if isinstance(line, str) and line.startswith("compile"):
        print("implementation:", ctx.impl([line])[0][:400])
        print("expected bytes:", str(f.get("expected"))[:400])
