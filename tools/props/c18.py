"""C18 - spacing, bar lines, separators and comments never change the music; full-width command characters.
Theorems: props/C18.v (the lexer's main loop at a command boundary: every separator / line break / comment form
is consumed whole and yields only LineNo / Comment tokens; dispatch through zen2han).
Correspondence: Gallina pipeline model (compile_core) vs lexer::lex + runner::exec + midi::generate (compile_lex)
on every laid-out variant below.
Oracle on the implementation = the law itself: a program is a LIST (tree) of complete, closed commands; it is
rendered with a canonical layout (one blank at every boundary) and with two independent random layouts (every
boundary, also inside loops, chords, tuplets, Sub blocks and macro bodies, gets a random mix of ' ', TAB, CR, LF,
'|', ';', U+3000 and comments of the five forms with harmless text) - all three must compile to byte-identical MIDI
through lexer::lex (`compile_lex`) and through the public `compile` (which runs sutoton::convert first).  Full-width
law: the same commands written in full-width characters (U+FF01..U+FF5E, blanks as U+3000) compile, through
`compile`, to the bytes of the ASCII text."""
import json, os
import vlib

COQ_TARGET = "props/C18.v"
THEOREMS = ["C18_loop_is_lex", "C18_loop_is_lex_plain", "C18_separator_step", "C18_newline_step", "C18_get_token", "C18_comment_step",
            "C18_comment_at_eof", "C18_layout_insensitive", "C18_fullwidth_command_char", "C18_dispatch_on_zen2han",
            "C18_note_reader_partial", "C18_notes_layout_partial",
            "C18_read_note_local", "C18_read_rest_local", "C18_read_harmony_end_local", "C18_readers_local", "C18_loop_is_arm",
            "C18_command_local", "C18_runs_loop", "C18_lex_compositional_partial"]
DRIVERS = ["core"]
RULE = ("programs = trees of 2..25 complete commands (notes with accidentals / lengths / ,q,v,t,o parameters / ties, rests, "
        "n-notes, l o v q t, < > ( ) ` \", loops with counts and ':', chords, tuplets, Sub blocks, macro definitions and uses, "
        "track / channel / voice / tempo / time-signature / key / controller / script commands, all closed by ')' or ';'), each "
        "rendered canonically and with two random layouts; compared through compile_lex and compile; plus the full-width "
        "spelling through compile. non-trivial = distinct program with >= 3 commands whose random layouts contain a comment "
        "and a line break; plus the continued length (`c1 | ^1`, the tie over a bar line): spaces, tabs, bar lines and line breaks "
        "before a '^' continuation of a note / rest / l length compile like no blank at all")
TRUSTED = ["locality is proved for every reader and every arm of the loop (C18_command_local: a command read completely when only its first "
           "separator follows is read the same in any text) and the lexer is compositional at command boundaries (C18_lex_compositional_partial); "
           "what is NOT proved: that the isolated run of a command gives the same token for every separator and every line number (a finite "
           "computation per command, exercised by the oracle), commands directly followed by a comment opener, commands that write to the log"]
ASSUMES = ["layout is placed only BETWEEN complete commands, never inside one (not between a name and its '(', not inside a length) - except "
           "in the continued-length cases, where only the blanks the length reader documents (space, tab, bar line, line break before '^') are used",
           "expression-valued arguments are closed by ')' or ';' (`@5;`, `TEMPO=90;`); commands with an optional argument list are "
           "always closed by ';' or '()' (`ResetGM;`, `#M;`): an argument list, also an optional one, must be closed by ')' ';' or a line "
           "break - `ResetGM ( c` takes the '(' as its argument list (ruled outside the property; non-strict corpus witness)",
           "loop counts are written explicitly (`[2`): an omitted count followed by blanks and '(', '=' or a digit reads it as the count",
           "a '#' comment is preceded by a separator character (directly after a note letter '#' is a sharp)",
           "two commands are written without any separator only where their texts cannot be read as one token: not `t0` `o4` (0o4 is an octal literal), not `{` followed by a double quote (that pair opens a string literal for sutoton::convert)",
           "no command starts with '^': after a length a line break followed by '^' continues the length (documented)",
           "comment text is harmless: ASCII without '{' '}' '\"' '~' (braces are counted by the block readers, '{\"' and '~' belong to "
           "sutoton::convert), block comments contain neither '*' nor '/' (\"/*/\" already closes a comment), no line break in line comments",
           "the tie suffix '&' belongs to its note (`c&`); a free-standing '&' is a different command (tie error)"]

NOTES = "cdefgab"
LENS = ["", "", "", "4", "8", "16", "2", "1", "4.", "8.", "12", "%24", "4^8", "8^16.", "2..", "%48^%3", "4+8"]
SEP_CHARS = [" ", " ", " ", "\t", "\r", "\n", "\n", "|", ";", "　"]
WORDS = ["x", "TR(3) v1 c d e", "memo 12", "End", "l1 o9", "c^", "^", "a-b+c", "[ : ]", "'", "(", "#A", "Sub", "INT A=1", "=", ""]


def note(rng, chord=False):
    s = rng.choice(NOTES)
    if rng.random() < 0.25:
        s += rng.choice(["+", "#", "-", "*", "++", "--"])
    if chord:
        return s
    s += rng.choice(LENS)
    r = rng.random()
    if r < 0.12:
        pools = [["80", "100", "50", "", "120"], ["100", "127", "64", "", "1"], ["0", "3", "-2", ""], ["4", "6", "5"]]
        n = rng.choice([1, 1, 2, 3, 4])
        s += "," + ",".join(rng.choice(pools[i]) for i in range(n))
    elif r < 0.20:
        s += "&"
    return s


UPPER_CORE = ["TR(1)", "TR(2)", "TR(3)", "Track(5)", "TRACK(0)", "CH(1)", "CH(2)", "CH(10)", "Channel(16)", "@1;", "@5;", "@(25)", "@40;",
              "Tempo(120)", "TEMPO=90;", "Tempo(500)", "TimeSignature(3,4)", "TimeSignature(6,8)", "KeyShift(2)", "TrackKey(-1)",
              "KF+(fc)", "KF-(b)", "KeyFlag=(0,0,0,0,0,0,0)", "TrackSync;", "TrackSync", "TRACK_SYNC", "TIME(2:1:0)", "TIME(96)", "MeasureShift(1)", "vAdd(5)", "qAdd(3);",
              # an expression-valued argument closed by a LINE BREAK (the property's third way of closing it)
              "@2\n", "@7\n", "TEMPO=100\n", "TR=2\n", "KeyShift=1\n", "CH=3\n"]
UPPER_OTHER = ["y7,100;", "y10,20;", "y7,90\n", "TEMPO=80\n", "M(64)", "V(100)", "P(32)", "EP(90)", "REV(40)", "PB(100)", "p(64)", "BR(12)", "ResetGM;", "ResetGM()",
               "INT A=3;", "A=A+1;", "PRINT(A)", "PRINT(7)", "Slur(1)"]


def leaf(rng, core_only):
    k = rng.random()
    if k < 0.50:
        return note(rng)
    if k < 0.57:
        return "r" + rng.choice(LENS)
    if k < 0.62:
        return "n" + str(rng.choice([60, 36, 38, 72, 0, 127])) + rng.choice(["", ",4", ",8", ",%12"])
    if k < 0.80:
        return rng.choice(["l4", "l8", "l16", "l2", "l4.", "l%30", "o3", "o4", "o5", "o6", "o7", "v100", "v127", "v64", "v1", "q100", "q90",
                           "q50", "t0", "t2", "v++", "v--"])
    if k < 0.90:
        return rng.choice([">", "<", ">", "<", "`", '"', "(", ")"])
    return rng.choice(UPPER_CORE if core_only or rng.random() < 0.6 else UPPER_OTHER)


def gen_items(rng, depth, n, core_only, in_macro=False):
    """tree: ('leaf', text) | ('block', open, items, close)"""
    out = []
    for _ in range(n):
        k = rng.random()
        if depth > 0 and k < 0.08:
            body = gen_items(rng, depth - 1, rng.randrange(1, 4), core_only, in_macro)
            if rng.random() < 0.4:
                body = body + [("leaf", ":")] + gen_items(rng, depth - 1, rng.randrange(1, 3), core_only, in_macro)
            out.append(("block", "[" + rng.choice(["1", "2", "3", "4"]), body, "]"))
        elif depth > 0 and k < 0.14:
            out.append(("block", "'", [("leaf", note(rng, True)) for _ in range(rng.randrange(1, 5))], "'" + rng.choice(["", "4", "8", "2", "4,80"])))
        elif depth > 0 and k < 0.20:
            inner = [("leaf", rng.choice(["c", "d", "e", "r", "g", "c^", "a8", "f+"])) for _ in range(rng.randrange(1, 6))]
            out.append(("block", "{", inner, "}" + rng.choice(["", "4", "2", "8"])))
        elif depth > 0 and k < 0.25:
            out.append(("block", "Sub{", gen_items(rng, depth - 1, rng.randrange(1, 4), core_only, in_macro), "}"))
        elif depth > 0 and k < 0.29 and not in_macro:
            name = rng.choice(["#M", "#Riff", "#A1"])
            out.append(("block", name + "={", gen_items(rng, depth - 1, rng.randrange(1, 4), core_only, True), "}"))
            out.append(("leaf", name + ";"))
        else:
            out.append(("leaf", leaf(rng, core_only)))
    return out


def comment(rng):
    k = rng.randrange(5)
    w = rng.choice(WORDS)
    if k == 0:
        return "//" + rng.choice(["", " ", "/"]) + w + "\n"
    if k == 1:
        w = w.replace("*", "").replace("/", "")
        return "/*" + rng.choice([" ", "*", "\n", " \n ", "", ""]) + w + rng.choice(["", " ", "\n"]) + "*/"
    return ["##", "# ", "#-"][k - 2] + w.replace("/", "").replace("*", "") + "\n"


def layout(rng, rich):
    """the text put at one command boundary"""
    if not rich:
        return rng.choice(["", " ", " ", "  ", "\n", "|", ";", "\t", " | ", "\r\n"])
    parts = []
    for _ in range(rng.choice([0, 1, 1, 2, 3, 5])):
        if rng.random() < 0.3:
            c = comment(rng)
            if c.startswith("#") and (not parts or not parts[-1].endswith((" ", "\n", "\t", ";", "|", "\r", "　"))):
                parts.append(rng.choice([" ", "\n", ";", "|", "\t"]))
            parts.append(c)
        else:
            parts.append(rng.choice(SEP_CHARS))
    return "".join(parts)


def boundaries(items):
    """number of layout slots of a tree: before every item, and before the closer of every block"""
    n = 0
    for it in items:
        n += 1
        if it[0] == "block":
            n += boundaries(it[2]) + 1
    return n


def render(items, lay):
    """lay: iterator of layout strings, one per slot (see boundaries) + the caller appends the trailing one"""
    out = []
    for it in items:
        out.append(next(lay))
        if it[0] == "leaf":
            out.append(it[1])
        else:
            out.append(it[1])
            out.append(render(it[2], lay))
            out.append(next(lay))
            out.append(it[3])
    return "".join(out)


def slot_next(items):
    """for every layout slot (in rendering order) the text that follows it; the trailing slot is followed by nothing"""
    out = []
    for it in items:
        out.append(it[1])
        if it[0] == "block":
            out.extend(slot_next(it[2]))
            out.append(it[3])
    return out


def make_layout(rng, items, rich):
    """one layout string per slot. A slot may be empty (two commands written without any separator) except before a
    command that starts with '#': directly after a note letter that would be a sharp sign."""
    nxt = slot_next(items) + [""]
    prv = [""] + nxt[:-1]
    lays = []
    for p, t in zip(prv, nxt):
        s = layout(rng, rich)
        if t.startswith("#") and not s.endswith((" ", "\n", "\t", ";", "|", "\r", "　")):
            s = s + rng.choice([" ", "\n", ";"])
        if s == "" and p.endswith("0") and t.startswith("o"):
            s = rng.choice([" ", "\n", ";"])      # `t0` `o4` written without a separator is the octal literal 0o4
        if s == "" and p in ("TrackSync", "TRACK_SYNC"):
            s = rng.choice([" ", "\n", ";", "|", "\t"])    # a bare word and the next command need a separator between them
        if s == "" and p.endswith("{") and t.startswith('"'):
            s = rng.choice([" ", "\n"])           # `{"` opens a string literal for sutoton::convert
        lays.append(s)
    return lays


def to_text(items, lays):
    it = iter(lays)
    body = render(items, it)
    return body + next(it)


def canonical(items):
    return to_text(items, [" "] * (boundaries(items) + 1))


def fullwidth(items):
    """the commands in full-width characters, one ideographic space at every boundary"""
    def fw(s):
        return "".join(chr(ord(c) + 0xFEE0) if 0x21 <= ord(c) <= 0x7E else c for c in s)

    def conv(its):
        out = []
        for it in its:
            if it[0] == "leaf":
                out.append(("leaf", fw(it[1])))
            else:
                out.append(("block", fw(it[1]), conv(it[2]), fw(it[3])))
        return out
    return to_text(conv(items), ["　"] * (boundaries(items) + 1))


def mixedwidth(rng, items, lays):
    """every command on its own in full-width OR half-width characters, under an ordinary layout: a half-width command (a sharp
    sign, say) followed by a blank or a comment and then a full-width command"""
    def fw(s):
        return "".join(chr(ord(c) + 0xFEE0) if 0x21 <= ord(c) <= 0x7E else c for c in s)

    def conv(its):
        out = []
        for it in its:
            w = fw if rng.random() < 0.5 else (lambda x: x)
            if it[0] == "leaf":
                out.append(("leaf", w(it[1])))
            else:
                out.append(("block", w(it[1]), conv(it[2]), w(it[3])))
        return out
    return to_text(conv(items), lays)


def size(items):
    return sum(1 if it[0] == "leaf" else 1 + size(it[2]) for it in items)


def rich_enough(text):
    return "\n" in text and ("//" in text or "/*" in text or "#" in text)


def bytes_of(r):
    return r.split("\t")[0]


def shrink(ctx, items, lays_a, lays_b, kind):
    """drop top-level items (with their layout slots) while the two renderings still differ"""
    def slots(it):
        return 1 if it[0] == "leaf" else 2 + boundaries(it[2])

    def differ(its, la, lb):
        a, b = to_text(its, la), to_text(its, lb)
        line = (lambda s: "compile\t%s\t0" % vlib.enc_text(s)) if kind == "compile" else (lambda s: "compile_lex\t%s" % vlib.enc_text(s))
        g = ctx.impl([line(a), line(b)], stall=15)
        return bytes_of(g[0]) != bytes_of(g[1])
    changed = True
    while changed and len(items) > 1:
        changed = False
        pos = 0
        for i, it in enumerate(items):
            k = slots(it)
            its2 = items[:i] + items[i + 1:]
            la2 = lays_a[:pos] + lays_a[pos + k:]
            lb2 = lays_b[:pos] + lays_b[pos + k:]
            if its2 and differ(its2, la2, lb2):
                items, lays_a, lays_b = its2, la2, lb2
                changed = True
                break
            pos += k
    return to_text(items, lays_a), to_text(items, lays_b)


def law(ctx, progs, origin):
    """progs: list of (items, [layouts...]) ; every rendering must give the bytes of the canonical one, via compile_lex and compile"""
    lines, index = [], []
    for pi, (items, lays) in enumerate(progs):
        texts = [canonical(items)] + [to_text(items, l) for l in lays]
        for ti, t in enumerate(texts):
            index.append((pi, ti, "lex", t))
            lines.append("compile_lex\t%s" % vlib.enc_text(t))
            index.append((pi, ti, "compile", t))
            lines.append("compile\t%s\t0" % vlib.enc_text(t))
        index.append((pi, -1, "fullwidth", fullwidth(items)))
        lines.append("compile\t%s\t0" % vlib.enc_text(index[-1][3]))
        index.append((pi, -2, "fullwidth", mixedwidth(ctx.rng, items, [l if l.strip(" \t\n|;") == "" else " " for l in (lays[0] if lays else [" "] * (boundaries(items) + 1))])))
        lines.append("compile\t%s\t0" % vlib.enc_text(index[-1][3]))
    got = ctx.impl(lines, stall=20)
    base = {}
    for (pi, ti, kind, t), g in zip(index, got):
        if ti == 0:
            base[(pi, kind)] = (bytes_of(g), t)
    for (pi, ti, kind, t), g in zip(index, got):
        items, lays = progs[pi]
        if ti == 0:
            continue
        ref_kind = "compile" if kind == "fullwidth" else kind
        want, ctext = base[(pi, ref_kind)]
        have = bytes_of(g)
        nt = size(items) >= 3 and (kind == "fullwidth" or rich_enough(t))
        ctx.count(origin + ":" + kind, t if nt else None)
        if want in ("PANIC", "HANG", "ABORT", "MISSING"):
            ctx.dist["canonical_" + want] = ctx.dist.get("canonical_" + want, 0) + 1
            continue
        if have != want:
            a, b = ctext, t
            if kind != "fullwidth" and origin != "corpus":
                a, b = shrink(ctx, items, [" "] * (boundaries(items) + 1), lays[ti - 1], "compile" if kind == "compile" else "lex")
            what = ("the full-width spelling of the commands compiles to different bytes" if kind == "fullwidth" else
                    "two layouts of the same command list compile to different bytes (%s)" % ("compile" if kind == "compile" else "lexer::lex"))
            ctx.oracle_fail(what, "%s\t%s" % (kind, vlib.enc_text(b)), "layout B %r -> %s" % (b[:300], have[-200:]),
                            "layout A %r -> %s" % (a[:300], want[-200:]), input_text=b)
    # correspondence: the model on the same texts (lexer level)
    sub = [(t, g) for (pi, ti, kind, t), g in zip(index, got) if kind == "lex" and len(t) < 400]
    mod = ctx.model(["compile_core\t%s" % vlib.enc_text(t) for t, _ in sub])
    for (t, g), m in zip(sub, mod):
        if m.startswith("UNSUPPORTED") or m.startswith("OUTOFFUEL"):
            ctx.unsupported += 1
        elif m != g:
            ctx.disagree("compile (lex/exec/generate) on a laid-out program", t, g[:300], m[:300])
        else:
            ctx.dist["model_agrees"] = ctx.dist.get("model_agrees", 0) + 1
    for (pi, ti, kind, t), g in list(zip(index, got))[:40]:
        if ti == 1 and kind == "lex" and rich_enough(t):
            ctx.sample({"canonical": base[(pi, "lex")][1][:160], "layout": t[:300], "bytes_equal": bytes_of(g) == base[(pi, "lex")][0]})


def run_corpus(ctx):
    p = os.path.join(vlib.VERIF, "corpus", "C18.jsonl")
    if not os.path.exists(p):
        return
    pairs = []
    for line in open(p, encoding="utf-8"):
        if line.strip():
            pairs.append(json.loads(line))
    lines = []
    for o in pairs:
        lines.append("compile\t%s\t0" % vlib.enc_text(o["a"]))
        lines.append("compile\t%s\t0" % vlib.enc_text(o["b"]))
    got = ctx.impl(lines, stall=15)
    for i, o in enumerate(pairs):
        ga, gb = bytes_of(got[2 * i]), bytes_of(got[2 * i + 1])
        ctx.count("corpus", o["a"])
        if o.get("candidate") and not any(k.get("input") == o["a"] for k in ctx.known):
            # a non-strict witness: ruled OUTSIDE the property by its own proviso (an argument list, also an optional one,
            # must be closed by ')' ';' or a line break).  The observation is recorded in the evidence notes; the generated
            # stream keeps such commands closed (see ASSUMES).  Should the input ever be registered in known_findings.json it is
            # routed through oracle_fail below and reported as KNOWN-FINDING.
            key = "proviso_witness_differs" if ga != gb else "proviso_witness_equal"
            ctx.dist[key] = ctx.dist.get(key, 0) + 1
            ctx.notes.append("PROVISO WITNESS (not a finding): %r and %r compile to %s bytes - %s" % (
                o["a"], o["b"], "DIFFERENT" if ga != gb else "equal", o.get("why", "")))
            continue
        if ga != gb:
            ctx.oracle_fail("two layouts of the same commands compile to different bytes: %s" % o.get("why", ""),
                            "compile\t%s" % vlib.enc_text(o["a"]), "%r -> %s" % (o["a"], ga[-200:]), "%r -> %s" % (o["b"], gb[-200:]),
                            input_text=o["a"])


def run_rhythm_comments(ctx, rng, n):
    """comments at the item boundaries of a Rhythm{..} block (plain words only: a parenthesis inside such a comment is the known
    finding C18-paren-in-rhythm-comment): same bytes as the block without them"""
    lines, pairs = [], []
    for _ in range(n):
        items = [rng.choice("bshmcoML") + rng.choice(["", "", "4", "8", "16"]) for _ in range(rng.randrange(2, 9))]
        a, b = "CH(10) l8 Rhythm{", "CH(10) l8 Rhythm{"
        for it in items:
            k = rng.random()
            sep = rng.choice([" ", "\n", "\n  ", " | "])
            if k < 0.3:
                com = " // %s\n" % rng.choice(["kick", "snare x", "hat hat", "x1"])
            elif k < 0.45:
                com = " /* %s */ " % rng.choice(["fill", "a b", "x\ny"])
            else:
                com = ""
            a += sep + it + com
            b += sep + it + ("\n" if com.startswith(" //") else " ")
        a += " } c"
        b += " } c"
        pairs.append((a, b))
        lines += ["compile\t%s\t0" % vlib.enc_text(a), "compile\t%s\t0" % vlib.enc_text(b)]
    got = ctx.impl(lines, stall=15)
    for i, (a, b) in enumerate(pairs):
        ga, gb = bytes_of(got[2 * i]), bytes_of(got[2 * i + 1])
        ctx.count("rhythm_comments", a)
        if ga != gb:
            ctx.oracle_fail("comments inside a Rhythm block change the music", "compile\t%s" % vlib.enc_text(a), "%r -> %s" % (a, ga[-200:]), "%r -> %s" % (b, gb[-200:]),
                            input_text=a)


def run(ctx):
    rng = ctx.rng
    run_corpus(ctx)
    run_rhythm_comments(ctx, rng, 120 if ctx.tier == "quick" else 4000)
    n = 700 if ctx.tier == "quick" else 12000
    progs = []
    for i in range(n):
        core_only = rng.random() < 0.6
        items = gen_items(rng, rng.choice([0, 1, 1, 2, 2]), rng.randrange(2, 12), core_only)
        if size(items) > 40:
            continue
        progs.append((items, [make_layout(rng, items, True), make_layout(rng, items, rng.random() < 0.7)]))
    step = 400
    for k in range(0, len(progs), step):
        law(ctx, progs[k:k + step], "generated")
    run_continuation(ctx, rng, 150 if ctx.tier == "quick" else 4000)
    # every separator and comment form alone between two notes, after every kind of command
    singles = []
    firsts = ["c", "c4", "c+", "c4.", "c8,80", "c&", "r", "r4", "n60,4", "l8", "o5", "v100", "q90", "t1", ">", "(", ")", "`", "[2", ":", "]",
              "'", "'4", "TR(2)", "@5;", "@(5)", "Tempo(120)", "TEMPO=90;", "TrackSync;", "KF+(fc)", "TIME(2:1:0)", "ResetGM;", "y7,100;", "M(64)",
              "PRINT(1)", "{c d}4", "Sub{c}", "#M={c};", "v++",
              # commands WITHOUT any argument list: what follows them (also a '(' after blanks) is the next command
              "TrackSync", "TRACK_SYNC"]
    lays = [" ", "\t", "\r", "\n", "|", ";", "　", "\r\n", "\n\n", " // x\n", " /* x */ ", " ## x\n", " # x\n", " #- x\n", " /// x\n",
            " /** x */ ", "\n// ^\n", " /*\n\n*/ ", ";;", "||", " | ", "\n# c d e\n", "\n#-----\n", "\n##\n",
            # comments with no text at all
            "/**/", " /**/ ", "\n/**/\n", "/***/", "/****/", "/* */", "//\n", " ///\n", "\n#-\n", " ##\n", "/**//**/", "/**/ /**/"]
    for f in firsts:
        pre = "[2 c " if f in (":", "]") else ("'c" if f in ("'4",) else "")
        post = " ]" if f in ("[2", ":") else ("'" if f == "'" else "")
        for l in lays:
            singles.append(("%s%s %sd%s" % (pre, f, "", post), "%s%s%s%sd%s" % (pre, f, l, "", post)))
    # the same with other FOLLOWING commands (a '(' after blanks is the velocity-down command, not an argument list) after
    # commands that take no argument list or whose list is closed
    for f in ["c", "c+", "r", ">", "TrackSync", "TRACK_SYNC", "TrackSync;", "@5;", "@(5)", "TR(2)", "Tempo(120)", "KF+(fc)", "TIME(2:1:0)",
              "M(64)", "{c d}4", "Sub{c}", "ResetGM;", "v++"]:
        for nxt in ["(d)", "( d )", ">d", "'ce'", "`d"]:
            for l in lays:
                singles.append(("%s %s e" % (f, nxt), "%s%s%s e" % (f, l, nxt)))
    lines = []
    for a, b in singles:
        for s in (a, b):
            lines.append("compile_lex\t%s" % vlib.enc_text(s))
            lines.append("compile\t%s\t0" % vlib.enc_text(s))
    got = ctx.impl(lines, stall=15)
    for i, (a, b) in enumerate(singles):
        for j, kind in ((0, "lexer::lex"), (1, "compile")):
            ga, gb = bytes_of(got[4 * i + j]), bytes_of(got[4 * i + 2 + j])
            ctx.count("single_separator", b)
            if ga != gb:
                ctx.oracle_fail("one separator/comment between two commands changes the bytes (%s)" % kind, "compile\t%s" % vlib.enc_text(b),
                                "%r -> %s" % (b, gb[-160:]), "%r -> %s" % (a, ga[-160:]), input_text=b)
    srcs = [b for _, b in singles]
    mod = ctx.model(["compile_core\t%s" % vlib.enc_text(s) for s in srcs])
    for k, (s, m) in enumerate(zip(srcs, mod)):
        g = got[4 * k + 2]
        if m.startswith("UNSUPPORTED") or m.startswith("OUTOFFUEL"):
            ctx.unsupported += 1
        elif m != g:
            ctx.disagree("compile (lex/exec/generate) with one separator", s, g[:300], m[:300])


def run_continuation(ctx, rng, n):
    """a length continued with '^' across blanks, bar lines and line breaks (`c1 | ^1`, the tie over a bar line): the blanks the
    length reader accepts inside a length are interchangeable and equal to no blank at all"""
    heads = ["c", "d+", "r", "n60,", "a-", "l"]
    parts = ["1", "2", "4", "8", "4.", "%24", "16", ""]
    blanks = [" ", "\t", "|", " | ", "\n", " \n ", "|\n", "  ", "\t|\t", "| |", "\n\n",
              # comments on lines of their own between the note and the continuation (then indentation, blank lines, more comments)
              "\n// x\n", "\n// x\n  ", "\n// a\n// b\n", "\n// x\n\n", "\n/* x */\n", "\n  /* x */ // y\n\t"]
    cases = []
    for h in heads:
        for b in blanks:
            cases.append((h, "2", "2", b))
    for _ in range(n):
        cases.append((rng.choice(heads), rng.choice(parts), rng.choice(parts[:-1]), rng.choice(blanks)))
    lines, index = [], []
    for (h, a, b2, bl) in cases:
        pre = rng.choice(["l4 ", "l8 o5 ", "", "TR(2) l2 "])
        post = rng.choice([" d", " e8 f", "\nd", "|d"])
        ta = pre + h + a + "^" + b2 + post
        tb = pre + h + a + bl + "^" + b2 + post
        third = pre + h + a + "^" + b2 + bl + "^" + b2 + post
        ref3 = pre + h + a + "^" + b2 + "^" + b2 + post
        for (x, y) in ((ta, tb), (ref3, third)):
            index.append((x, y))
            for t in (x, y):
                lines.append("compile_lex\t%s" % vlib.enc_text(t))
                lines.append("compile\t%s\t0" % vlib.enc_text(t))
    got = ctx.impl(lines, stall=15)
    for i, (x, y) in enumerate(index):
        for j, kind in ((0, "lexer::lex"), (1, "compile")):
            ga, gb = bytes_of(got[4 * i + j]), bytes_of(got[4 * i + 2 + j])
            ctx.count("continuation", y)
            if ga != gb:
                ctx.oracle_fail("blanks / bar lines / line breaks before a '^' continuation change the bytes (%s)" % kind,
                                "compile\t%s" % vlib.enc_text(y), "%r -> %s" % (y, gb[-160:]), "%r -> %s" % (x, ga[-160:]), input_text=y)
    srcs = [y for _, y in index]
    mod = ctx.model(["compile_core\t%s" % vlib.enc_text(t) for t in srcs])
    for k, (t, m) in enumerate(zip(srcs, mod)):
        g = got[4 * k + 2]
        if m.startswith("UNSUPPORTED") or m.startswith("OUTOFFUEL"):
            ctx.unsupported += 1
        elif m != g:
            ctx.disagree("compile (lex/exec/generate) with a continued length", t, g[:300], m[:300])


def replay(ctx, obj):
    f = obj.get("failure") or {}
    print("replay: input =", repr(f.get("input"))[:800])
    if f.get("input") is not None:
        print("implementation:", ctx.impl(["compile\t%s\t0" % vlib.enc_text(f["input"])])[0][:400])
        print("expected      :", str(f.get("expected"))[:400])
