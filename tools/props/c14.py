"""C14 - TIME, MeasureShift, rests and PlayFrom put events at the documented ticks.
Theorems: props/C14.v (value of TIME(m:b:t) / TIME(n) and the TIME arm; state and meta event after TimeSignature; the
time-translation law of exec() for every program without absolute-time commands - loops, Sub, tuplets, chords included,
and (C14_rsv_*, C14_*_reservations; proofs/ShiftRsvP.v) every reservation command: ramps, v.onTime, x.onNote, x.Random;
Track::play_from on arbitrary event lists: dropped / kept / re-timed / restored / order before and after the stable sort,
"latest" = latest in time in the pipeline).
Correspondence: `compile_core` (model) vs `compile_lex` (implementation) on every source generated here: core-language
programs (tools/mmlgen.py blocks, tools/astgen.py trees printed by the extracted printer) with TIME(m:b:t), TIME(n), Time=,
MeasureShift, TimeSignature, rests, `?`, PlayFrom(m:b:t), PlayFrom(n) inserted between commands, several tracks, time bases
48/96/480/960.
Oracles on the implementation's bytes (decoded with the extracted SMF decoder), computed from the property text only:
  tick    `TimeBase(tb) TimeSignature(n,d) MeasureShift(k) TIME(m:b:t) n60,`: the note starts at
          ((m-1+k)*n + (b-1))*(4*tb/d) + t (0 if negative); TIME(x) -> x
  shift   `r<L> P` vs `P`, P without absolute-time commands: every decoded message of the track is exactly len(L) later
          (len via the implementation's calc_length)
  cut     P with `?` between two commands (point = position of a marker note compiled in its place) or PlayFrom(n) /
          PlayFrom(m:b:t) in front, against the full compile of P: note-ons before the point absent, the others (and their
          note-offs) at tick - point; controller / program / meta / SysEx messages at or after the point at tick - point,
          in order; PER CHANNEL: for every (channel, controller number) written before the point one message on that
          channel with the latest value written on that channel (latest in the file = latest in time), for every channel
          with a program change before the point its latest program likewise, nothing else, all at tick 0 and - compared
          by position in the decoded list, not by tick - before the first remaining note-on and before every kept
          controller message.  A track may change its channel (CH(n)) between parts: the settings of the earlier
          channel stay in force on it.
Pitch bend messages are ignored by the cut oracle (the code drops them before and after the point; the property text does
not mention them)."""
import json, os, re
import vlib, mmlgen, astgen, midinotes

COQ_TARGET = "props/C14.v"
THEOREMS = ["C14_time_formula", "C14_time_ticks", "C14_beat_exact", "C14_beat_denominators", "C14_time_arm", "C14_time_arm_frame",
            "C14_playfrom_arms", "C14_timesig_state", "C14_time_after_signature",
            "C14_rest_is_shift", "C14_shifted_means", "C14_step_shift", "C14_exec_respects", "C14_shift_law", "C14_rest_shift",
            "C14_rest_shift_fold",
            "C14_rshift_means", "C14_rsv_cc_ramp_shift", "C14_rsv_pb_ramp_shift", "C14_rsv_ramp_events", "C14_rsv_v_on_time_shift",
            "C14_rsv_on_note_shift", "C14_rsv_note_values_shift", "C14_rsv_cc_on_note_shift", "C14_rsv_setters_shift",
            "C14_shifted_r_means", "C14_rsv_set_start_means", "C14_shift_r_extends", "C14_step_shift_reservations",
            "C14_exec_respects_reservations", "C14_shift_law_reservations", "C14_rest_shift_reservations",
            "C14_rest_shift_fold_reservations",
            "C14_playfrom", "C14_playfrom_notes", "C14_playfrom_kept", "C14_playfrom_early", "C14_playfrom_restored_cc",
            "C14_playfrom_restored_cc_shape", "C14_playfrom_restored_voice", "C14_playfrom_restored_voice_shape", "C14_playfrom_channel",
            "C14_latest_cc_means", "C14_latest_cc_none", "C14_latest_voice_means", "C14_latest_voice_none", "C14_playfrom_latest_in_time",
            "C14_playfrom_sorted_tick0", "C14_playfrom_sorted_order", "C14_playfrom_drops", "C14_playfrom_applied"]
DRIVERS = ["core"]
RULE = ("tick: tb in 48/96/480/960 (or default), n in 2..64, d in 2/4/8/16, shift -2..5, m 1..40, b 1..n+2, t 0..2*beat, five spellings; "
        "shift: 1..6 parts of core-language blocks (notes, rests, numbered notes, l/o/v/q/t, chords, tuplets, Sub, loops) and "
        "program / controller / tempo / time-signature commands (also inside Sub), controller / bend ramps and the other "
        "reservation commands (RAMP_CMDS, RSV_CMDS), rest lengths 1..32, dotted, %n, tied; "
        "cut: the same programs on 1..3 tracks, point = every kind of position (between any two parts, exact note starts, "
        "one tick before / after, 0, beyond the end), controller writes inside Sub{} later in time than following ones, "
        "tracks that change their channel (CH(n) between parts, the same controller / the program set on two or three channels "
        "before the point, the remaining notes on an EARLIER channel); "
        "correspondence: blocks and syntax-tree programs with 1..5 inserted time commands. non-trivial = distinct source "
        "with >= 2 notes and, for cut, a point strictly inside the track")
TRUSTED = ["SMF container / track decoding by the extracted specification decoder (C01, C02)",
           "slice::sort_by is stable (C02_stable_sort_unique)"]
ASSUMES = ["shift law and oracle: no slurred notes (the pitch-bend-range announcement of a slur is placed at max(0, first - 1), "
           "which is not translation invariant), no TIME / PlayFrom / `?` / TrackSync / track change / macro call inside P, "
           "no negative note timing (a start before tick 0 is written at tick 0) and no negative gate (q.Random with q near 0: "
           "the note-off of a note at tick 0 would lie before tick 0): the law of the interpreter's events "
           "(C14_rest_shift_reservations) is unconditional, the file clamps event times at 0 "
           "(C14_example_negative_timing_file_refuted)",
           "cut oracle: controller numbers 0..127; values as the writer sends them (clamped to 0..127); pitch bend ignored; "
           "note-offs compared only when no two notes of one pitch overlap in the track",
           "tick oracle: time bases divisible by 4 (48, 96, 480, 960, 100, 52, 60, 200, 1000), so that 4*tb/d is an integer for d = 2, 4, 8, 16"]

FEATS = {"tie": False, "comments": True}
TBS = [48, 96, 480, 960, 100, 52, 60, 200, 1000]   # multiples of 4 (4*tb/d integral for d = 2,4,8,16), some NOT multiples of 8 or 16
MARK = " CH(16)n100,%1,100,99,0 "
# every command is CLOSED (ends with `;` or `)`): an expression-valued argument would otherwise absorb a following
# `>`, `(`, `/* */` ... (the proviso of C18), and the two sources of a law pair would not differ by the inserted text only
CC_CMDS = ["y7,100;", "y7,0;", "y10,64;", "y1,127;", "y11,90;", "y91,40;", "y7,200;", "M(64)", "V(100)", "P(32)", "EP(90)", "REV(40)",
           "@5;", "@25;", "@128;", "@1;", "@5,1,2;", "y7,50;", "y10,0;"]
EV_CMDS = CC_CMDS + ["Tempo(90)", "TEMPO=140;", "TimeSignature(3,4)", "TimeSignature(6,8)", "BR(12)", "PB(100)", "KeyShift(2)", "TrackKey(-1)"]
RESTS = ["1", "2", "4", "8", "16", "32", "4.", "2..", "%1", "%7", "%100", "4^8", "1^1", "12", "6", "%48^4", "%10^8.", "4^%10^8", "%5^%7^16"]


# ---------------------------------------------------------------------------------------------------
# running and decoding
# ---------------------------------------------------------------------------------------------------
def parse_track(field):
    parts = field.split("\t")
    if parts[0] == "DECODE-FAIL":
        return None
    items = midinotes.ITEM.findall(parts[0])
    ticks = [int(x) for x in parts[1].split(",")] if len(parts) > 1 and parts[1] else []
    return [(t, kind, args) for (d, kind, args), t in zip(items, ticks)]


def compile_all(ctx, srcs, compare=True):
    """returns per source the list of tracks, each a list of (tick, kind, args) in file order (None = does not decode)"""
    lines = ["compile_lex\t%s" % vlib.enc_text(s) for s in srcs]
    got = ctx.impl(lines, stall=20)
    if compare:
        mod = ctx.model(["compile_core\t%s" % vlib.enc_text(s) for s in srcs])
        for s, g, m in zip(srcs, got, mod):
            if m.startswith("UNSUPPORTED") or m.startswith("OUTOFFUEL"):
                ctx.unsupported += 1
                ctx.dist[m] = ctx.dist.get(m, 0) + 1
            elif g != m:
                ctx.disagree("compile (lex/exec/generate)", s, g[:300], m[:300])
            else:
                ctx.dist["model_agrees"] = ctx.dist.get("model_agrees", 0) + 1
    cont = ctx.model(["container\t%s" % g.split("\t")[0] for g in got])
    lines, owner = [], []
    out = []
    for i, c in enumerate(cont):
        f = c.split("\t")
        if f[0] != "OK":
            out.append(None)
            continue
        out.append([])
        for b in (f[5].split("/") if len(f) > 5 else []):
            lines.append("decode_track\t%s" % b)
            owner.append(i)
    dec = ctx.model(lines)
    for i, d in zip(owner, dec):
        if out[i] is not None:
            t = parse_track(d)
            if t is None:
                out[i] = None
            else:
                out[i].append(t)
    for s, g, o in zip(srcs, got, out):
        if o is None:
            ctx.oracle_fail("output does not decode", s, g[:100], "decodable SMF", input_text=s)
    return out


def ints(args):
    return [int(x) for x in args.split(",")]


def is_eot(it):
    return it[1] == "Meta" and it[2].startswith("47,")


# ---------------------------------------------------------------------------------------------------
# generators
# ---------------------------------------------------------------------------------------------------
def clean_block(rng, depth=2, lo=1, hi=4):
    while True:
        b = mmlgen.block(rng, depth, rng.randrange(lo, hi), FEATS)
        if not re.search(r",-\d", b):
            return b + " "


CHANS = [1, 2, 3, 10]          # (16 is the marker's channel)


RAMP_CMDS = ["EP.onTime(0,127,!8)", "M.onTime(0,127,48)", "y7.onTime(100,20,!4)", "M.Frequency(3) M.onTime(10,90,!8)", "PB.onTime(-100,3000,!8)",
             "p.onTime(0,127,!4)", "EP.T(127,0,30,0,64,!8)"]


# the other reservation commands (C14_rest_shift_reservations): values per note / per tick of a v.onTime ramp, controller
# events at every note start, random widths - none of them reads an absolute tick.  No negative timing (t.Random, t.onNote
# with negative values) and no q.Random (around q0 the drawn gate is negative: the note-off lies BEFORE its note-on, for a
# note at tick 0 before tick 0): an event before tick 0 is written at tick 0 (ASSUMES)
RSV_CMDS = ["v.onTime(40,100,!2)", "v.onTime(127,10,!4,10,90,!2)", "v.onNote(100,60,80)", "v.onCycle(90,70)", "q.onNote(50,90)",
            "q.onCycle(100,40)", "o.onNote(4,5)", "o.onCycle(5,6,4)", "t.onNote(5,0,12)", "M.onNoteWave(0,127,!8)",
            "EP.onNoteWave(127,60,!4)", "y10.onNote(0,64,127)", "y10.onNote(20,100)", "v.Random(6)",
            "o.Random(2)", "Cresc=4,20,100", "Decresc=2,100,30", "M.Frequency(5)"]


def gen_parts(rng, n, events=True, chans=False, ramps=False):
    """chans: the track changes its channel between parts (CH(n)), often followed by a setting on the new channel"""
    parts = []
    for _ in range(n):
        k = rng.random()
        if chans and k < 0.25:
            parts.append("CH(%d) " % rng.choice(CHANS) + (rng.choice(CC_CMDS) + " " if rng.random() < 0.6 else ""))
        elif ramps and k < 0.12:
            # controller / bend ramps: their events are counted from the ramp's start, wherever that falls
            parts.append(rng.choice(RAMP_CMDS if rng.random() < 0.5 else RSV_CMDS) + " ")
        elif events and k < 0.30:
            parts.append(rng.choice(EV_CMDS) + " ")
        elif events and k < 0.40:
            parts.append("Sub{ r%s %s} " % (rng.choice(["4", "2", "8", "1", "2."]), rng.choice(CC_CMDS)))
        else:
            parts.append(clean_block(rng))
    return parts


def time_cmd(rng, tb=96):
    k = rng.random()
    m, b, t = rng.choice([1, 1, 2, 3, 5, 9]), rng.choice([1, 1, 2, 3, 4, 5]), rng.choice([0, 0, 1, tb // 2, tb, 7])
    if k < 0.22:
        return rng.choice(["TIME", "Time"]) + "(%d:%d:%d)" % (m, b, t)
    if k < 0.32:
        return "TIME(%d)" % rng.choice([0, 1, tb, 4 * tb, 96, 1000, 383])
    if k < 0.40:
        return "Time=%d:%d:%d;" % (m, b, t)
    if k < 0.52:
        return rng.choice(["MeasureShift", "System.MeasureShift", "MEASURE_SHIFT"]) + "(%d)" % rng.choice([0, 1, 2, -1, 5])
    if k < 0.66:
        return rng.choice(["TimeSignature", "TimeSig", "TIMESIG"]) + "(%d,%d)" % (rng.choice([2, 3, 4, 5, 6, 7, 12, 1, 64, 65]), rng.choice([2, 4, 8, 16, 4, 8, 3, 32]))
    if k < 0.78:
        return "r" + rng.choice(RESTS)
    if k < 0.88:
        return "?"
    if k < 0.95:
        return rng.choice(["PlayFrom", "PLAY_FROM"]) + "(%d:%d:%d)" % (m, b, t)
    return "PlayFrom(%d)" % rng.choice([0, 1, tb, 2 * tb + 1, 96, 500])


def free_source(rng):
    tb = rng.choice(TBS + [96, 96])
    out = ["TimeBase(%d)\n" % tb] if rng.random() < 0.6 else []
    ntr = rng.choice([1, 1, 2, 3])
    for i in range(rng.randrange(2, 7)):
        if ntr > 1 and (i == 0 or rng.random() < 0.4):
            out.append("TR(%d) " % rng.randrange(1, ntr + 1))
        out.append(clean_block(rng, depth=3))
        if rng.random() < 0.35:
            out.append(rng.choice(["@5; ", "@25; ", "@128,0,3; ", "@1,1,2; ", "Sub{ r2 @10; } ", "@40; "]))
        for _ in range(rng.choice([0, 1, 1, 2])):
            out.append(time_cmd(rng, tb) + " ")
    out.append(clean_block(rng))
    return "".join(out)


def insert_points(src):
    """indices of blanks outside chords: a command may be written there"""
    pts, inq = [], False
    for i, c in enumerate(src):
        if c == "'":
            inq = not inq
        elif c == " " and not inq:
            pts.append(i)
    return pts


def tree_sources(ctx, rng, n):
    asts = [astgen.program(rng, size=rng.choice([4, 8, 15])) for _ in range(n)]
    spec = ctx.model(["note_spec\t%s" % a for a in asts])
    out = []
    for a, r in zip(asts, spec):
        f = r.split("\t")
        if len(f) != 2:
            continue
        src = vlib.dec_text(f[0])
        tb = rng.choice(TBS)
        pts = insert_points(src)
        for p in sorted(rng.sample(pts, min(len(pts), rng.randrange(1, 5))), reverse=True):
            src = src[:p] + " " + time_cmd(rng, tb) + " " + src[p + 1:]
        out.append(("TimeBase(%d) " % tb if rng.random() < 0.5 else "") + src)
    return out


# ---------------------------------------------------------------------------------------------------
# oracle 1: the tick of TIME
# ---------------------------------------------------------------------------------------------------
def gen_tick(rng):
    tb = rng.choice(TBS + [None])
    # (numerators outside 2..64 are clamped: the signature in force is the one the file declares)
    n, d = rng.choice([2, 3, 4, 5, 6, 7, 9, 12, 16, 64, 1, 0, 65, 100]), rng.choice([2, 4, 8, 16])
    sig = rng.random() < 0.8
    k = rng.choice([0, 0, 1, 1, 2, 3, 5, -1, -2]) if rng.random() < 0.7 else None
    m, b = rng.choice([1, 1, 2, 3, 4, 8, 17, 40]), rng.choice([1, 1, 2, 3, 4, (n if sig else 4), (n if sig else 4) + 2])
    tbv = tb or 96
    nn, dd = (min(max(n, 2), 64), d) if sig else (4, 4)
    beat = 4 * tbv // dd
    t = rng.choice([0, 0, 1, beat - 1, beat, 2 * beat, 7, 95])
    src = ""
    if tb:
        src += rng.choice(["TimeBase(%d) ", "Timebase(%d)\n", "TIMEBASE(%d); "]) % tb
    if sig:
        src += rng.choice(["TimeSignature(%d,%d) ", "TimeSig(%d,%d)\n", "TIMESIG(%d, %d) ", "System.TimeSignature=%d,%d; "]) % (n, d)
    if k is not None:
        # the shift IN FORCE is the last one written (earlier ones, also ones already used by a TIME, do not add up)
        for k0 in [rng.choice([0, 1, 2, 3, -1]) for _ in range(rng.choice([0, 0, 0, 1, 2]))]:
            src += rng.choice(["MeasureShift(%d) ", "System.MeasureShift(%d) ", "MEASURE_SHIFT(%d)\n"]) % k0
            if rng.random() < 0.4:
                src += "TIME(%d:1:0) " % rng.choice([1, 2, 3])
        src += rng.choice(["MeasureShift(%d) ", "System.MeasureShift(%d) ", "MEASURE_SHIFT(%d)\n", "MeasureShift=%d; "]) % k
    kk = k or 0
    if rng.random() < 0.2:
        x = rng.choice([0, 1, 95, 96, 4807, 100000])
        src += rng.choice(["TIME(%d) ", "Time(%d) ", "Time=%d; "]) % x
        want = x
    else:
        src += rng.choice(["TIME(%d:%d:%d) ", "Time(%d:%d:%d) ", "Time=%d:%d:%d; ", "TIME( %d : %d : %d ) "]) % (m, b, t)
        want = ((m - 1 + kk) * nn + (b - 1)) * beat + t
    # positions before tick 0 are positions too: rests bring the pointer back (TIME(0:1:0) r1 r1 c sounds at -384 + 768)
    if rng.random() < 0.3:
        back = rng.choice([1, 100, 384, 500, 1000, 5000])
        src += "r%%%d " % back
        want += back
    return src + "n60,", max(want, 0)


def check_tick(ctx, cases, origin):
    decs = compile_all(ctx, [c[0] for c in cases])
    for (src, want), d in zip(cases, decs):
        if d is None:
            continue
        ons = [it[0] for it in d[0] if it[1] == "NoteOn"] if d else []
        ctx.count(origin, src)
        if ons != [want]:
            ctx.oracle_fail("TIME puts the next note at a tick other than the documented one", src, str(ons), str([want]), input_text=src)
        if len(ctx.samples) < 2:
            ctx.sample({"kind": "tick", "source": src, "note_on_tick": want})


# ---------------------------------------------------------------------------------------------------
# oracle 2: a rest in front shifts everything by its length
# ---------------------------------------------------------------------------------------------------
def check_shift(ctx, rng, n, origin):
    cases = []
    for _ in range(n):
        tb = rng.choice(TBS + [None, None])
        pre = ("TimeBase(%d) " % tb) if tb else ""
        P = "".join(gen_parts(rng, rng.randrange(1, 7), ramps=True))
        L = rng.choice(RESTS + ["64", "%3", "%5", "%2"])
        cases.append((pre, P, L, tb or 96))
    check_shift_cases(ctx, cases, origin)


def check_shift_cases(ctx, cases, origin):
    lens = ctx.impl(["calc_length\t%s\t%d\t%d" % (vlib.enc_text(c[2]), c[3], c[3]) for c in cases])
    srcs = []
    for pre, P, L, tb in cases:
        srcs += [pre + P, pre + "r" + L + " " + P]
    decs = compile_all(ctx, srcs)
    for i, ((pre, P, L, tb), ln) in enumerate(zip(cases, lens)):
        a, b = decs[2 * i], decs[2 * i + 1]
        if a is None or b is None:
            continue
        try:
            ln = int(ln)
        except ValueError:
            ctx.notes.append("calc_length answered %r for %r" % (ln, L)) if len(ctx.notes) < 5 else None
            continue
        src = srcs[2 * i + 1]
        nn = sum(1 for t in a for it in t if it[1] == "NoteOn")
        ctx.count(origin, src if nn >= 2 else None)
        if len(a) != len(b):
            ctx.oracle_fail("a rest in front changed the number of tracks", src, str(len(b)), str(len(a)), input_text=src)
            continue
        for ti, (ta, tb_) in enumerate(zip(a, b)):
            # an empty track (only End of Track) stays at tick 0: the rest writes nothing
            want = ta if (len(ta) == 1 and is_eot(ta[0])) else [(t + ln, k, x) for (t, k, x) in ta]
            if tb_ != want:
                bad = next((j for j, (x, y) in enumerate(zip(tb_, want)) if x != y), min(len(tb_), len(want)))
                ctx.oracle_fail("r%s in front of a program does not shift track %d by exactly %d ticks (message %d)" % (L, ti, ln, bad),
                                src, str(tb_[max(0, bad - 2):bad + 3]), str(want[max(0, bad - 2):bad + 3]), input_text=src)
                break
        if ctx.dist.get("sampled:shift", 0) < 2 and nn >= 2:
            ctx.dist["sampled:shift"] = ctx.dist.get("sampled:shift", 0) + 1
            ctx.sample({"kind": "shift", "source": src[:300], "ticks": ln})


# ---------------------------------------------------------------------------------------------------
# oracle 3: PlayFrom / `?`
# ---------------------------------------------------------------------------------------------------
def pair_notes(items):
    """(notes [(ch,key,start,end,vel)], ambiguous) - note-offs matched first-in-first-out per (channel, key)"""
    open_notes, notes, amb = {}, [], False
    for (t, kind, args) in items:
        if kind == "NoteOn":
            ch, key, vel = ints(args)
            open_notes.setdefault((ch, key), []).append((t, vel))
        elif kind == "NoteOff":
            ch, key, vel = ints(args)
            q = open_notes.get((ch, key))
            if q:
                if len(q) > 1:
                    amb = True
                st, v = q.pop(0)
                notes.append((ch, key, st, t, v))
            else:
                amb = True
    if any(q for q in open_notes.values()):
        amb = True
    return notes, amb


def cut_expectation(full, tp):
    notes, amb = pair_notes(full)
    ons = sorted((ch, key, st - tp, vel) for (ch, key, st, en, vel) in notes if st >= tp)
    offs = sorted((ch, key, en - tp) for (ch, key, st, en, vel) in notes if st >= tp)
    cc, prog = {}, {}          # (channel, controller number) -> message, channel -> message: the latest PER CHANNEL
    before_meta = []
    kept_cp, kept_meta = [], []
    for (t, kind, args) in full:
        if kind in ("CC", "Program"):
            if t < tp:
                if kind == "CC":
                    ch, no, v = ints(args)
                    cc[(ch, no)] = args
                else:
                    prog[ints(args)[0]] = args
            else:
                kept_cp.append((t - tp, kind, args))
        elif (kind == "Meta" and not is_eot((t, kind, args))) or kind == "SysEx":
            if t < tp:
                before_meta.append((kind, args))
            else:
                kept_meta.append((t - tp, kind, args))
    restored = sorted([("CC", a) for a in cc.values()] + [("Program", a) for a in prog.values()])
    return {"ons": ons, "offs": offs, "amb": amb, "restored": restored, "kept_cp": kept_cp, "kept_meta": kept_meta,
            "before_meta": before_meta}


def check_cut_track(ctx, src, ti, full, cut, tp):
    """full, cut: decoded tracks; returns True when the track passes"""
    ex = cut_expectation(full, tp)
    ons = sorted(tuple(ints(a)[:2]) + (t, ints(a)[2]) for (t, k, a) in cut if k == "NoteOn")
    offs = sorted(tuple(ints(a)[:2]) + (t,) for (t, k, a) in cut if k == "NoteOff")
    where = "track %d, point %d" % (ti, tp)
    if ons != ex["ons"]:
        ctx.oracle_fail("play-from: remaining note-ons are not those at or after the point, shifted (%s)" % where, src,
                        str(ons)[:500], str(ex["ons"])[:500], input_text=src)
        return False
    if not ex["amb"] and offs != ex["offs"]:
        ctx.oracle_fail("play-from: note-offs are not those of the remaining notes, shifted (%s)" % where, src,
                        str(offs)[:500], str(ex["offs"])[:500], input_text=src)
        return False
    cp = [(i, it) for i, it in enumerate(cut) if it[1] in ("CC", "Program")]
    nr, nk = len(ex["restored"]), len(ex["kept_cp"])
    # the messages at or after the point are the LAST ones of the track, in order; what stands before them is the restored block
    if len(cp) < nk or [it for _, it in cp[len(cp) - nk:]] != ex["kept_cp"]:
        ctx.oracle_fail("play-from: controller / program messages at or after the point are not kept in order at tick - point, "
                        "after the restored ones (%s)" % where, src,
                        str([it for _, it in cp])[:600], "%d restored, then %s" % (nr, str(ex["kept_cp"])[:500]), input_text=src)
        return False
    head = cp[:len(cp) - nk]
    if sorted((it[1], it[2]) for _, it in head) != ex["restored"] or any(it[0] != 0 for _, it in head):
        ctx.oracle_fail("play-from: the latest program / controller values of every channel before the point are not re-issued "
                        "(each on its channel, exactly once) at tick 0 (%s)" % where, src,
                        str([it for _, it in head])[:600], str(ex["restored"])[:600], input_text=src)
        return False
    first_on = next((i for i, it in enumerate(cut) if it[1] == "NoteOn"), None)
    if first_on is not None and any(i > first_on for i, _ in head):
        ctx.oracle_fail("play-from: a restored program / controller value comes after the first remaining note-on in the file (%s)" % where,
                        src, str(cut[:first_on + nr + 2])[:600], "all restored messages before the first note-on", input_text=src)
        return False
    metas = [it for it in cut if (it[1] == "Meta" and not is_eot(it)) or it[1] == "SysEx"]
    nk = len(ex["kept_meta"])
    early = metas[:len(metas) - nk] if nk <= len(metas) else []
    pool = list(ex["before_meta"])
    ok = nk <= len(metas) and metas[len(metas) - nk:] == ex["kept_meta"] and all(it[0] == 0 for it in early)
    for it in early:
        if (it[1], it[2]) in pool:
            pool.remove((it[1], it[2]))
        else:
            ok = False
    if not ok:
        ctx.oracle_fail("play-from: meta / SysEx messages at or after the point are not kept in order at tick - point (%s)" % where, src,
                        str(metas)[:600], "(earlier ones at tick 0, then) " + str(ex["kept_meta"])[:500], input_text=src)
        return False
    return True


def check_cut_pairs(ctx, pairs, origin):
    """pairs: (cut source, full source, point or None, marker source or None)"""
    srcs = []
    for cut, full, tp, mark in pairs:
        srcs += [cut, full] + ([mark] if mark else [])
    decs = compile_all(ctx, srcs)
    k = 0
    for cut, full, tp, mark in pairs:
        dc, df = decs[k], decs[k + 1]
        dm = decs[k + 2] if mark else None
        k += 3 if mark else 2
        if dc is None or df is None or (mark and dm is None):
            continue
        if mark:
            ms = [it[0] for t in dm for it in t if it[1] == "NoteOn" and ints(it[2])[0] == 15]
            if len(ms) != 1:
                ctx.dist["cut:no_marker"] = ctx.dist.get("cut:no_marker", 0) + 1
                continue
            tp = ms[0]
        if len(dc) != len(df):
            ctx.oracle_fail("play-from changed the number of tracks", cut, str(len(dc)), str(len(df)), input_text=cut)
            continue
        allon = [it[0] for t in df for it in t if it[1] == "NoteOn"]
        inside = bool(allon) and min(allon) < tp <= max(allon)
        ctx.count(origin, cut if (len(allon) >= 2 and inside) else None)
        ctx.dist["cut:point_inside"] = ctx.dist.get("cut:point_inside", 0) + (1 if inside else 0)
        for ti, (tf, tc) in enumerate(zip(df, dc)):
            if not check_cut_track(ctx, cut, ti, tf, tc, tp):
                break
        if ctx.dist.get("sampled:cut", 0) < 3 and inside:
            ctx.dist["sampled:cut"] = ctx.dist.get("sampled:cut", 0) + 1
            ctx.sample({"kind": "cut", "source": cut[:300], "point": tp})


def tail_tie(rng, last=False):
    """a tie left open at the end of a part (the note sits in the tie buffer until the next note or the end of the song).
    Groups of several notes are written in gate mode (Slur(2,0), per track): in the default mode a group is played with
    pitch-bend and bend-range events, which play-from drops (upstream TODO #8; C14 speaks of notes, program, controller
    and meta events) - that would make the pair differ for a reason outside the property."""
    if last and rng.random() < 0.5:
        return rng.choice(["f&", "g8&", "a2&", "e4.&", "n64,4&"]) + " "
    return "Slur(2,0) " + rng.choice(["f&", "g8&", "c&c&", "d&e&", "a2&", "e&g4.&"]) + " "


def gen_cut_here(rng):
    """`?` between two parts of a one-track program; the point is found with a marker note compiled in its place"""
    tb = rng.choice(TBS + [None, None])
    pre = ("TimeBase(%d) " % tb) if tb else ""
    parts = gen_parts(rng, rng.randrange(2, 8), chans=rng.random() < 0.3)
    if rng.random() < 0.3:
        parts.append(tail_tie(rng, last=True))
    k = rng.randrange(0, len(parts) + 1)
    full = pre + "".join(parts)
    cut = pre + "".join(parts[:k]) + rng.choice(["? ", "?", " ? "]) + "".join(parts[k:])
    return (cut, full, None, pre + "".join(parts[:k]) + MARK)


def gen_cut_front_sources(rng):
    tb = rng.choice(TBS + [None, None])
    pre = ("TimeBase(%d) " % tb) if tb else ""
    ntr = rng.choice([1, 1, 2, 3])
    body = ""
    for i in range(rng.randrange(1, 5)):
        if ntr > 1:
            body += "TR(%d) " % rng.randrange(1, ntr + 1)
        body += "".join(gen_parts(rng, rng.randrange(1, 5), chans=rng.random() < 0.3))
        if rng.random() < 0.3:
            body += tail_tie(rng)
    return pre, body, tb or 96


def channel_parts(rng):
    """parts of ONE track that plays on two or three channels in turn: on each channel the program and / or some
    controllers are set (the SAME controller numbers on the different channels, different values) and notes are played;
    then the track returns to an EARLIER channel.  Cutting after that leaves notes on a channel whose settings were not
    the last ones written."""
    chs = rng.sample(CHANS, rng.choice([2, 2, 3]))
    nos = rng.sample([7, 10, 11, 1, 91, 64], rng.choice([1, 2, 3]))
    parts = []
    visits = chs + [rng.choice(chs[:-1])] + [rng.choice(chs) for _ in range(rng.choice([0, 0, 1, 2]))]
    for ch in visits:
        p = "CH(%d) " % ch
        for no in nos:
            if rng.random() < 0.7:
                p += "y%d,%d " % (no, rng.randrange(0, 128))
        if rng.random() < 0.7:
            p += rng.choice(["@%d " % rng.randrange(1, 129), "@%d,%d,%d " % (rng.randrange(1, 129), rng.randrange(0, 3), rng.randrange(0, 3))])
        parts.append(p)
        for _ in range(rng.choice([1, 1, 2])):
            parts.append(rng.choice(["c ", "d8 e8 ", "l8 g a b ", "'ce' ", "r f ", "n62, ", "Sub{ r2 y%d,%d } e " % (rng.choice(nos), rng.randrange(0, 128))]))
    return parts


def gen_cut_channels(rng):
    """`?` somewhere in a track that changes its channel (most often after the return to an earlier channel)"""
    parts = channel_parts(rng)
    k = rng.choice([len(parts) - 1, len(parts) - 2, rng.randrange(0, len(parts) + 1)])
    k = max(0, k)
    full = "".join(parts)
    cut = "".join(parts[:k]) + rng.choice(["? ", "?", " ? "]) + "".join(parts[k:])
    return (cut, full, None, "".join(parts[:k]) + MARK)


def gen_cut_channels_sources(rng):
    """the same tracks for PlayFrom(n) in front (one or two tracks)"""
    if rng.random() < 0.3:
        return "", "TR(1) " + "".join(channel_parts(rng)) + "TR(2) " + "".join(channel_parts(rng)), 96
    return "", "".join(channel_parts(rng)), 96


def gen_cut_unsorted_sources(rng):
    """a LONG track (well over 20 events) whose event list is not in time order when the file is generated (Sub{} blocks write
    earlier ticks after later ones) and which sets one controller / the program twice AT ONE TICK, or the program right before
    a note: the latest value in WRITTEN order is the one in force, so whatever sorts the events before the cut must keep the
    written order of events with equal ticks"""
    body = "l8 "
    for _ in range(rng.randrange(12, 30)):
        k = rng.random()
        if k < 0.45:
            body += rng.choice("cdefgab") + " "
        elif k < 0.60:
            no = rng.choice([7, 10, 11, 1])
            body += "y%d,%d y%d,%d " % (no, rng.randrange(0, 128), no, rng.randrange(0, 128))
        elif k < 0.70:
            body += "@%d @%d " % (rng.randrange(1, 129), rng.randrange(1, 129))
        elif k < 0.80:
            body += "@%d %s " % (rng.randrange(1, 129), rng.choice("cdefgab"))
        elif k < 0.95:
            body += "Sub{ %s} " % "".join(rng.choice("cdefgab") + " " for _ in range(rng.randrange(1, 7)))
        else:
            body += "r "
    return "", body, 96


def check_cut_front(ctx, rng, n, origin):
    """PlayFrom(n) / PlayFrom(m:b:t) in front; the points are chosen from the full compile (exact note starts, +-1, 0, beyond)"""
    gens = ([gen_cut_front_sources(rng) for _ in range(n)] + [gen_cut_unsorted_sources(rng) for _ in range(n // 3)]
            + [gen_cut_channels_sources(rng) for _ in range(n // 3)])
    decs = compile_all(ctx, [p + b for p, b, _ in gens], compare=False)
    pairs = []
    for (pre, body, tb), d in zip(gens, decs):
        if d is None:
            continue
        starts = sorted(set(it[0] for t in d for it in t if it[1] == "NoteOn")) or [0]
        others = sorted(set(it[0] for t in d for it in t if it[1] in ("CC", "Program", "Meta")))
        k = rng.random()
        if k < 0.35:
            tp = rng.choice(starts)
        elif k < 0.5:
            tp = max(0, rng.choice(starts) + rng.choice([-1, 1]))
        elif k < 0.65:
            tp = rng.choice(others or [0]) + rng.choice([0, 0, 1])
        elif k < 0.9:
            tp = rng.randrange(0, max(starts) + 2)
        else:
            tp = rng.choice([0, max(starts) + 1000])
        if rng.random() < 0.35:
            beat = tb
            m, r = divmod(tp, 4 * beat)
            b, t = divmod(r, beat)
            cmd = rng.choice(["PlayFrom(%d:%d:%d) ", "PLAY_FROM(%d:%d:%d) "]) % (m + 1, b + 1, t)
        else:
            cmd = "PlayFrom(%d) " % tp
        pairs.append((pre + cmd + body, pre + body, tp, None))
    check_cut_pairs(ctx, pairs, origin)


# ---------------------------------------------------------------------------------------------------
def check_corpus(ctx):
    p = os.path.join(vlib.VERIF, "corpus", "C14.jsonl")
    items = [json.loads(l) for l in open(p, encoding="utf-8") if l.strip()] if os.path.exists(p) else []
    ticks = [(o["src"], o["tick"]) for o in items if o.get("kind") == "tick"]
    if ticks:
        check_tick(ctx, ticks, "corpus")
    shifts = [(o.get("pre", ""), o["program"], o["rest"], o.get("tb", 96)) for o in items if o.get("kind") == "shift"]
    if shifts:
        check_shift_cases(ctx, shifts, "corpus")
    cuts = [(o["src"], o["full"], o["tp"], None) for o in items if o.get("kind") == "cut"]
    if cuts:
        check_cut_pairs(ctx, cuts, "corpus")


def run(ctx):
    rng = ctx.rng
    check_corpus(ctx)
    q = ctx.tier == "quick"
    check_tick(ctx, [gen_tick(rng) for _ in range(400 if q else 10000)], "tick")
    check_shift(ctx, rng, 250 if q else 5000, "shift")
    check_cut_pairs(ctx, [gen_cut_here(rng) for _ in range(250 if q else 5000)], "cut:here")
    check_cut_pairs(ctx, [gen_cut_channels(rng) for _ in range(100 if q else 2000)], "cut:channels")
    check_cut_front(ctx, rng, 250 if q else 5000, "cut:front")
    n = 300 if q else 8000
    srcs = [free_source(rng) for _ in range(n)] + tree_sources(ctx, rng, n)
    decs = compile_all(ctx, srcs)
    for s, d in zip(srcs, decs):
        nn = sum(1 for t in (d or []) for it in t if it[1] == "NoteOn")
        ctx.count("correspondence", s if nn >= 2 else None)


def replay(ctx, obj):
    f = obj.get("failure") or {}
    src = f.get("input")
    if src:
        print(ctx.impl(["compile_lex\t%s" % vlib.enc_text(src)]), ctx.model(["compile_core\t%s" % vlib.enc_text(src)]))
