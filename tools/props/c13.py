"""C13 - ties and slurs (&) join notes as documented without disturbing the rest.
Theorems: props/C13.v (check_tie_notes and the four Slur modes for arbitrary groups, the slur branch of exec_note, the
final flush).  Correspondence: `compile_core` (model) vs `compile_lex` (implementation) on generated sources with tied
groups (Slur(m[,v]) for m in 0..3, groups of 1..6 notes of equal and different pitch with varying lengths / gates /
velocities, `&` with a value, groups in loops, tuplets, Sub, on several tracks, groups left pending at the end of a
track) and on free-form core programs with `&` sprinkled in.
Oracles, on the implementation's bytes, from the property text only.  Every structured program P is compiled three
times: as written (T), with every `&` removed (U) and with every note of a tied group replaced by a rest of the same
length (R).  U gives the notes *as written* (start, key, gate, velocity, in order) - no length arithmetic is re-done
here - and the generator knows which written notes form a group and under which Slur(mode, value) it is closed:
  (1) same pitch, modes 0-2: one note from the first start to the last note's end
  (2) mode 2: one note per run of equal pitch, lasting until the next run begins (value 0) / exactly `value` ticks
  (3) mode 3: every written note sounds once, from its own start to the end of the group
  (4) mode 1: one note-on for the group; bends exactly at the group start (8192), at every pitch change (above / below /
      at 8192 as the new pitch is above / below / equal to the FIRST pitch) and at the end (8192)
  (5) mode 0: one note per run, each lasting until the next run starts; between them a glide of bends inside
      [next start - value, next start) moving away from 8192 towards the next pitch, and bend 8192 at the next start
  (6) every pitch bend in the file is a 14-bit value 0..16383 (lsb + 128*msb of the decoded message); the bend range is
      announced at most once per track
  (7) pointer law: every marker `n100,%24,100,3` (and every note outside groups) starts at the same tick in T and in U
  (8) no note twice: note-ons(T) <= notes written; equal in mode 3 and, in mode 2, when neighbouring pitches differ
  (9) frame law: T minus the notes of its groups, pitch bends and the bend-range announcement is event for event R
(1)-(5),(7),(8) are checked as one comparison of the sounded note-on/note-off multisets of T with those computed from U."""
import json, os, re
import vlib, mmlgen, midinotes

COQ_TARGET = "props/C13.v"
THEOREMS = ["C13_runs_maximal", "C13_same_pitch_merge", "C13_mode_gate", "C13_mode_alpe", "C13_mode_bend", "C13_bend_value_range12",
            "C13_mode_port", "C13_mode_port_unfold", "C13_mode_port_ramp", "C13_bend_in_range", "C13_clears", "C13_no_double",
            "C13_frame", "C13_pointer", "C13_group", "C13_flush_at_end",
            "C13_bend_value_exact", "C13_bend_value_exact_or_close", "C13_bend_from_accuracy", "C13_bend_from_exact",
            "C13_bend_from_range12", "C13_port_ramp_accuracy", "C13_port_ramp_accuracy_exact", "C13_port_ramp_accuracy_any_len",
            "C13_port_ramp_ends", "C13_port_ramp_events", "C13_bend_from_quot_refuted", "C13_port_ramp_within1_refuted",
            "C13_port_ramp_below_line_refuted"]
DRIVERS = ["core"]
RULE = ("1..3 tracks, each a sequence of segments: tied groups of 1..6 lettered notes (pitch patterns: all equal / small pool / "
        "neighbours different / octave jumps up to +-3 octaves, own lengths, gates 10..100, velocities; `&` or `&n`, sometimes a rest "
        "or l/o command inside the group), plain notes, rests, l/o/v/q/t/@ commands, Slur(m) / Slur(m,v) with m in 0..3 and v in "
        "0,1,2,4,10,24,48,100,200; groups inside loops [n ...], tuplets {...}len, Sub{...}; a group left pending at the end of the track or "
        "spanning loop iterations ([3 c&] d); time bases 96/48/192/480; a marker n100,%24,100,3 after every group. Plus free-form core programs with "
        "`&` (tools/mmlgen.py). non-trivial = distinct source with a tied group of >= 2 notes")
TRUSTED = ["SMF container / track decoding by the extracted specification decoder (C01, C02)",
           "the notes of the untied variant U as the reference for what was written (C03 covers U itself)"]
ASSUMES = ["oracle programs: gates <= 100, timing >= 0, note lengths > 0 (written notes start strictly one after the other on a track), "
           "no octave-once, no lettered note with `&0`, numbered notes (n) never tied; groups are closed inside the block (loop body, "
           "tuplet, Sub) they start in, except the deliberate pending / loop-spanning forms",
           "theorems: tr_tie_notes holds NoteOn events only (the only producer is exec_note)"]

MARK = "n100,%24,100,3 "      # numbered note (never tied), explicit length / gate, velocity 3 = no other note has it
LENS = ["", "", "", "4", "8", "16", "2", "4.", "8.", "12", "%24", "%10", "4^8", "%31"]
TVALS = [0, 0, 1, 2, 4, 10, 24, 48, 100, 200]
PCS = {"c": 0, "d": 2, "e": 4, "f": 5, "g": 7, "a": 9, "b": 11}


# ------------------------------------------------------------------------------------------------------------------
# programs: trees of leaves; a leaf is executed once per enclosing loop iteration
# leaf kinds: ("note", name, length, suffix, amp, ingroup)   lettered note; amp = "" | "&" | "&<n>"
#             ("plain", text)                               marker / numbered note: a written note, never tied
#             ("cmd", text)                                 state command, rest: identical in T, U, R
#             ("slur", mode, value|None)
# inner nodes: ("loop", n|None, [items]) ("tuplet", [items], len) ("sub", [items])
# ------------------------------------------------------------------------------------------------------------------
def render(items, variant):
    out = []
    for it in items:
        k = it[0]
        if k == "note":
            _, name, ln, suf, amp, ingroup = it
            if variant == "R" and ingroup:
                out.append("r" + ln)
            elif variant == "U" or variant == "R":
                out.append(name + ln + suf)
            else:
                out.append(name + ln + suf + amp)
        elif k in ("plain", "cmd"):
            out.append(it[1])
        elif k == "slur":
            out.append("Slur(%d)" % it[1] if it[2] is None else "Slur(%d,%d)" % (it[1], it[2]))
        elif k == "loop":
            out.append("[" + ("" if it[1] is None else str(it[1])) + " " + render(it[2], variant) + "]")
        elif k == "tuplet":
            out.append("{" + render(it[1], variant) + "}" + it[2])
        elif k == "sub":
            out.append("Sub{" + render(it[1], variant) + "}")
        out.append(" ")
    return "".join(out)


def expand(items, out):
    for it in items:
        k = it[0]
        if k == "loop":
            for _ in range(2 if it[1] is None else it[1]):
                expand(it[2], out)
        elif k == "tuplet":
            expand(it[1], out)
        elif k == "sub":
            expand(it[1], out)
        else:
            out.append(it)
    return out


def gen_group(rng, size=None, pending=False):
    """a tied group as a list of leaves; the last note carries no & unless `pending`"""
    n = size or rng.choice([1, 2, 2, 2, 3, 3, 4, 5, 6]) if pending else size or rng.choice([2, 2, 2, 3, 3, 4, 5, 6])
    pat = rng.choice(["same", "pool", "pool", "differ", "jump", "mixed"])
    pool = rng.sample(list("cdefgab"), rng.choice([2, 2, 3]))
    leaves = []
    prev = None
    for i in range(n):
        if pat == "same":
            name = pool[0]
        elif pat == "differ":
            name = rng.choice([p for p in "cdefgab" if p != prev])
        elif pat == "jump":
            name = pool[0] if i % 2 == 0 else rng.choice(pool)
        else:
            name = rng.choice(pool)
        prev = name
        acc = rng.choice(["", "", "", "", "+", "-"]) if pat == "mixed" else ""
        ln = rng.choice(LENS)
        suf = ""
        r = rng.random()
        if r < 0.12:
            suf = ",%d" % rng.choice([100, 90, 50, 80, 10, 30])
        elif r < 0.2:
            suf = ",%d,%d" % (rng.choice([100, 50, 80]), rng.choice([127, 64, 1, 100]))
        elif r < 0.25:
            suf = ",,%d" % rng.choice([127, 64, 30])
        last = (i == n - 1)
        amp = "" if (last and not pending) else ("&" if rng.random() < 0.8 else "&%d" % rng.choice([1, 2, 10, 48]))
        # octave-once: for this note only, tied or not (written as part of the note, so that the variant with the
        # groups replaced by rests drops it together with the note)
        once = rng.choice(["`", '"']) if rng.random() < 0.12 else ""
        leaves.append(("note", once + name + acc, ln, suf, amp, True))
        if not last:
            r = rng.random()
            if pat == "jump" and r < 0.5:
                leaves.append(("cmd", rng.choice([">", "<", ">>", "<<", ">>>", "<"])))
            elif r < 0.06:
                leaves.append(("cmd", "r" + rng.choice(["8", "16", ""])))
            elif r < 0.12:
                leaves.append(("cmd", rng.choice(["l8", "l4", "l16", "o4", "o5", "o6", ">", "<"])))
    return leaves


def gen_plain(rng):
    k = rng.random()
    if k < 0.45:
        suf = "" if rng.random() < 0.8 else ",%d" % rng.choice([100, 50, 80])
        return ("note", rng.choice("cdefgab"), rng.choice(LENS), suf, "", False)
    if k < 0.55:
        return ("cmd", "r" + rng.choice(LENS))
    if k < 0.62:
        return ("plain", "n%d,%s " % (rng.choice([36, 40, 72, 90]), rng.choice(["4", "8", "%12"])))
    return ("cmd", rng.choice(["l4", "l8", "l16", "l2", "o4", "o5", "o6", "o3", ">", "<", "v100", "v64", "v127", "q100", "q90", "q50",
                               "q80", "q10", "@5;", "@40;", "@1;", "t0", "t2", "t5", "v++", "v--", "(", ")"]))


def gen_slur(rng):
    m = rng.choice([0, 1, 2, 3, 0, 1, 2, 3, 4, 9])
    if rng.random() < 0.35:
        return ("slur", m, None)
    return ("slur", m, rng.choice(TVALS))


def gen_track(rng):
    """(items, end_pending): the program of one track"""
    items = []
    if rng.random() < 0.8:
        items.append(gen_slur(rng))
    for _ in range(rng.randrange(0, 4)):
        items.append(gen_plain(rng))
    nseg = rng.choice([1, 1, 2, 2, 3, 4])
    sub_last = False
    for s in range(nseg):
        k = rng.random()
        grp = gen_group(rng)
        if k < 0.45:
            items += grp + [("plain", MARK)]
        elif k < 0.60:
            body = grp + [("plain", MARK)]
            if rng.random() < 0.4:
                body += [gen_plain(rng)]
            if rng.random() < 0.3:
                body = [gen_plain(rng)] + body
            items.append(("loop", rng.choice([None, 1, 2, 3]), body))
        elif k < 0.72:
            # no lengths of their own inside a tuplet: a longer note would run past the tuplet's end and the written
            # order would no longer be the order in time (the reference U is read in time order)
            inner = [("note", l[1], "", l[3], l[4], l[5]) for l in grp if l[0] == "note"]
            inner = inner[:5]
            if inner[-1][4] != "":
                inner[-1] = inner[-1][:4] + ("",) + inner[-1][5:]
            if rng.random() < 0.5:
                inner.append(("note", rng.choice("cdefgab"), "", "", "", False))
            items.append(("tuplet", inner, rng.choice(["4", "2", "1", "2."])))
            items.append(("plain", MARK))
        elif k < 0.80:
            # loop-spanning group: [n x&] y
            nm = rng.choice("cdefgab")
            body = [("note", nm, rng.choice(["8", "16", "", "4"]), "", "&", True)]
            if rng.random() < 0.4:
                body.append(("note", rng.choice("cdefgab"), "8", "", "&", True))
            items.append(("loop", rng.choice([2, 3, 4]), body))
            items.append(("note", rng.choice([nm, nm, "c", "g"]), rng.choice(LENS), "", "", True))
            items.append(("plain", MARK))
        elif k < 0.88 and s == nseg - 1:
            items.append(("sub", grp + [("plain", MARK)]))
            sub_last = True
        else:
            if rng.random() < 0.5:
                items.append(gen_slur(rng))
            items += grp + [("plain", MARK)]
        if not sub_last:
            for _ in range(rng.randrange(0, 3)):
                items.append(gen_plain(rng))
            if rng.random() < 0.15:
                # the track changes its channel after a group: the group's bends and its whole bend-range announcement stay on the
                # channel the group was played on
                items.append(("cmd", "CH(%d)" % rng.choice([2, 3, 5, 9])))
    pending = False
    if not sub_last and rng.random() < 0.25:
        items += gen_group(rng, pending=True)
        pending = True
    return items, pending


def gen_program(rng):
    tb = rng.choice([96, 96, 96, 96, 48, 192, 480])
    ntr = rng.choice([1, 1, 1, 2, 3])
    nums = rng.sample([1, 2, 3, 4, 5, 10], ntr)
    parts = []          # (track number, items) in source order
    for no in nums:
        items, _ = gen_track(rng)
        parts.append((no, items))
    if ntr >= 2 and rng.random() < 0.3 and not any(it[0] == "sub" for it in parts[0][1]):
        # come back to the first track: its pending group (if any) continues there
        parts.append((nums[0], [gen_plain(rng), ("note", rng.choice("cdefgab"), "", "", "", True), ("plain", MARK)]))
    return {"tb": tb, "parts": parts, "explicit_tr": ntr > 1 or rng.random() < 0.3}


def gen_long_gate_program(rng):
    """a group whose early notes carry a gate far above 100 % (their own note-off would fall AFTER the end of the group): in
    mode 3 every note is held exactly to the end of the group, in modes 0-2 the group is cut as usual.  Pairwise different
    pitches, so that the untied reference (whose notes overlap) pairs note-ons and note-offs unambiguously; a long rest after
    the group keeps what follows clear of the overlong reference notes."""
    names = rng.sample(list("cdefgab"), rng.choice([2, 3, 3, 4, 5]))
    nlong = rng.randint(1, len(names) - 1)
    leaves = []
    for i, nm in enumerate(names):
        last = i == len(names) - 1
        suf = ",%d" % rng.choice([150, 200, 300, 400]) if i < nlong else rng.choice(["", "", ",100", ",50"])
        leaves.append(("note", nm, rng.choice(["4", "8", "", "4"]) if i < nlong else rng.choice(["8", "16", "4", ""]), suf, "" if last else "&", True))
    items = [("slur", rng.choice([3, 3, 3, 2, 0, 1]), None)] + leaves + [("plain", MARK), ("cmd", "r1"), ("note", rng.choice("cdefgab"), "", "", "", False), ("plain", MARK)]
    return {"tb": rng.choice([96, 96, 48, 480]), "parts": [(1, items)], "explicit_tr": rng.random() < 0.3}


def program_text(p, variant):
    out = []
    if p["tb"] != 96:
        out.append("TimeBase(%d)\n" % p["tb"])
    for no, items in p["parts"]:
        if p["explicit_tr"]:
            out.append("TR(%d) " % no)
        out.append(render(items, variant))
        out.append("\n")
    return "".join(out)


def tie_mode_of(m):
    return m if m in (1, 2, 3) else 0


def plan_of(p):
    """per track: the executed written notes in order and the groups among them.
    -> {track: {"n": number of written notes, "groups": [(mode, value, [indices])], "static_ok": bool}}"""
    per = {}
    for no, items in p["parts"]:
        per.setdefault(no if p["explicit_tr"] else 0, []).extend(expand(items, []))
    plan = {}
    for no, leaves in per.items():
        mode, val = 0, 0
        idx = 0
        cur = []
        groups = []
        static_ok = True
        for lf in leaves:
            if lf[0] == "slur":
                mode = tie_mode_of(lf[1])
                if lf[2] is not None:
                    val = lf[2]
            elif lf[0] == "plain":
                idx += 1
            elif lf[0] == "note":
                cur.append(idx)
                dyn_in_group = lf[4] != "" or len(cur) > 1
                if dyn_in_group != lf[5]:
                    static_ok = False
                if lf[4] == "":
                    if len(cur) > 1:
                        groups.append((mode, val, cur))
                    cur = []
                idx += 1
        if cur:
            groups.append((mode, val, cur))      # flushed at the end of the song
        plan[no] = {"n": idx, "groups": groups, "static_ok": static_ok}
    return plan


# ------------------------------------------------------------------------------------------------------------------
# decoding
# ------------------------------------------------------------------------------------------------------------------
MAX_HEX = 40000      # files beyond 20 kB (long glides at a huge time base) are left to the correspondence


def decode_many(ctx, hexes):
    """-> per file: list of decoded tracks, None when the container is not well-formed, "LARGE" when skipped for size"""
    small = [h if len(h) <= MAX_HEX else None for h in hexes]
    cont_small = ctx.model(["container\t%s" % h for h in small if h is not None])
    it = iter(cont_small)
    cont = [next(it) if h is not None else "LARGE" for h in small]
    lines, owner = [], []
    for i, c in enumerate(cont):
        f = c.split("\t")
        if f[0] != "OK":
            continue
        for b in (f[5].split("/") if len(f) > 5 else []):
            lines.append("decode_track\t%s" % b)
            owner.append(i)
    dec = ctx.model(lines)
    out = ["LARGE" if c == "LARGE" else (None if not c.startswith("OK") else []) for c in cont]
    for i, d in zip(owner, dec):
        out[i].append(d)
    return out


def track_view(d):
    """decoded track -> dict(notes, onoff, bends [(tick, ch, value)], rpn [(tick, ch)], others)"""
    if d is None or d.startswith("DECODE-FAIL"):
        return None
    oth = midinotes.other_events(d)
    bends, rpn, others = [], [], []
    for (t, kind, args) in oth:
        if kind == "Bend":
            ch, lsb, msb = [int(x) for x in args.split(",")]
            bends.append((t, ch, lsb + 128 * msb, lsb, msb))
        elif kind == "CC" and args.split(",")[1] in ("101", "100", "6"):
            ch, no, v = [int(x) for x in args.split(",")]
            rpn.append((t, ch, no, v))
        elif kind == "Meta" and args.startswith("47"):
            continue
        else:
            others.append((t, kind, args))
    return {"notes": midinotes.notes_of_decoded(d), "onoff": midinotes.onoff_of_decoded(d), "bends": bends, "rpn": rpn, "others": others}


def runs_of(group):
    rs = []
    for w in group:
        if rs and rs[-1][0][1] == w[1]:
            rs[-1].append(w)
        else:
            rs.append([w])
    return rs


def sign(x):
    return (x > 0) - (x < 0)


def expected_group(mode, tv, tb, group):
    """group: written notes (ch,key,start,dur,vel) in order -> (notes, exact bends [(tick, kind)], windows [(lo,hi,dir)], uses_bend)"""
    gend = group[-1][2] + group[-1][3]
    rs = runs_of(group)
    notes, exact, windows = [], [], []
    uses = False
    if mode == 3:
        notes = [(ch, k, st, gend - st, v) for (ch, k, st, d, v) in group]
    elif mode == 2:
        for j, r in enumerate(rs):
            h = r[0]
            if j + 1 < len(rs):
                d = (rs[j + 1][0][2] - h[2]) if tv == 0 else tv
            else:
                d = gend - h[2]
            notes.append((h[0], h[1], h[2], d, h[4]))
    elif mode == 1:
        h = group[0]
        notes = [(h[0], h[1], h[2], gend - h[2], h[4])]
        exact = [(h[2], 0)] + [(r[0][2], sign(r[0][1] - h[1])) for r in rs[1:]] + [(gend, 0)]
        uses = True
    else:
        tve = tv if tv != 0 else (tb * 4) // 8
        for j, r in enumerate(rs):
            h = r[0]
            d = (rs[j + 1][0][2] - h[2]) if j + 1 < len(rs) else gend - h[2]
            notes.append((h[0], h[1], h[2], d, h[4]))
            if j + 1 < len(rs):
                nx = rs[j + 1][0]
                windows.append((nx[2] - tve, nx[2], sign(nx[1] - h[1]), tve))
                exact.append((nx[2], 0))
                uses = True
    return notes, exact, windows, uses


def check_bends(view, exact, windows):
    """-> None or a message"""
    actual = [(t, v) for (t, ch, v, _, _) in view["bends"]]
    used = [False] * len(actual)
    for (tick, kind) in exact:
        hit = None
        for i, (t, v) in enumerate(actual):
            if not used[i] and t == max(tick, 0) and sign(v - 8192) == kind:
                hit = i
                break
        if hit is None:
            return "no bend %s 8192 at tick %d" % ({0: "=", 1: ">", -1: "<"}[kind], tick)
        used[hit] = True
    rest = [(t, v) for i, (t, v) in enumerate(actual) if not used[i]]
    for (t, v) in rest:
        ok = False
        for (lo, hi, dr, tve) in windows:
            if max(lo, 0) <= t < max(hi, 1) and (v - 8192) * dr >= 0 and v != 8192:
                ok = True
                break
        if not ok:
            return "bend %d at tick %d belongs to no group boundary and no glide" % (v, t)
    # a glide standing alone (no other window overlaps it, not clipped at 0): monotone, not empty
    for wi, (lo, hi, dr, tve) in enumerate(windows):
        if lo < 0 or any(wj != wi and not (w[1] <= lo or hi <= w[0]) for wj, w in enumerate(windows)):
            continue
        inside = [v for (t, v) in rest if lo <= t < hi]
        if tve >= 2 and dr != 0 and not inside:
            return "no glide in [%d,%d)" % (lo, hi)
        mags = [abs(v - 8192) for v in inside]
        if mags != sorted(mags):
            return "glide in [%d,%d) does not move steadily towards the next pitch: %s" % (lo, hi, inside)
    return None


def remove_multiset(big, small):
    big = list(big)
    for x in small:
        if x in big:
            big.remove(x)
        else:
            return None
    return big


# ------------------------------------------------------------------------------------------------------------------
def structured(ctx, n):
    rng = ctx.rng
    progs = [gen_program(rng) for _ in range(n - n // 20)] + [gen_long_gate_program(rng) for _ in range(n // 20)]
    srcT = [program_text(p, "T") for p in progs]
    srcU = [program_text(p, "U") for p in progs]
    srcR = [program_text(p, "R") for p in progs]
    got = ctx.impl(["compile_lex\t%s" % vlib.enc_text(s) for s in srcT + srcU + srcR], stall=20)
    mod = ctx.model(["compile_core\t%s" % vlib.enc_text(s) for s in srcT])
    dec = decode_many(ctx, [g.split("\t")[0] for g in got])
    for i, p in enumerate(progs):
        s = srcT[i]
        plan = plan_of(p)
        big = any(len(g[2]) >= 2 for tr in plan.values() for g in tr["groups"])
        ctx.count("structured", s if big else None)
        for tr in plan.values():
            for g in tr["groups"]:
                key = "groups_mode%d" % g[0]
                ctx.dist[key] = ctx.dist.get(key, 0) + 1
        g, m = got[i], mod[i]
        if m.startswith("UNSUPPORTED") or m.startswith("OUTOFFUEL"):
            ctx.unsupported += 1
            ctx.dist[m] = ctx.dist.get(m, 0) + 1
        elif g != m:
            ctx.disagree("compile (lex/exec/generate) with tied groups", s, g[:300], m[:300])
        if g in ("PANIC", "HANG", "ABORT", "MISSING"):
            ctx.oracle_fail("compilation of a tied group does not finish: %s" % g, s, g, "SMF bytes", input_text=s)
            continue
        dT, dU, dR = dec[i], dec[i + n], dec[i + 2 * n]
        if "LARGE" in (dT, dU, dR):
            ctx.dist["not_decoded_large"] = ctx.dist.get("not_decoded_large", 0) + 1
            continue
        if dT is None or dU is None or dR is None:
            ctx.oracle_fail("output does not decode", s, g[:100], "decodable SMF", input_text=s)
            continue
        if len(ctx.samples) < 6 and big:
            ctx.sample({"source": s[:200], "untied": srcU[i][:120], "rested": srcR[i][:120]})
        check_program(ctx, p, plan, s, dT, dU, dR)


def check_program(ctx, p, plan, s, dT, dU, dR):
    for no, tr in plan.items():
        if no >= len(dT) or no >= len(dU) or no >= len(dR):
            ctx.oracle_fail("track %d missing from the file" % no, s, str(len(dT)), "> %d chunks" % no, input_text=s)
            return
        vT, vU, vR = track_view(dT[no]), track_view(dU[no]), track_view(dR[no])
        if vT is None or vU is None or vR is None:
            ctx.oracle_fail("track %d does not decode" % no, s, "DECODE-FAIL", "events", input_text=s)
            return
        # (6) universal
        for (t, ch, v, lsb, msb) in vT["bends"]:
            if not (0 <= lsb <= 127 and 0 <= msb <= 127 and 0 <= v <= 16383):
                ctx.oracle_fail("pitch bend outside 0..16383", s, "Bend(%d,%d) at %d" % (lsb, msb, t), "0..16383", input_text=s)
        W = vU["notes"]
        if any(n_[2] is None or n_[3] is None for n_ in W) or len(W) != tr["n"]:
            ctx.dist["reference_unusable"] = ctx.dist.get("reference_unusable", 0) + 1
            continue
        starts = [w[2] for w in W]
        if any(b <= a for a, b in zip(starts, starts[1:])):
            ctx.dist["reference_unusable"] = ctx.dist.get("reference_unusable", 0) + 1
            continue
        # U itself has no bends / RPN
        in_group = set()
        exp_notes, exact, windows = [], [], []
        uses_bend = False
        first_bend_tick = None
        for (mode, tv, idxs) in tr["groups"]:
            grp = [W[j] for j in idxs]
            in_group.update(idxs)
            ns, ex, wi, uses = expected_group(mode, tv, p["tb"], grp)
            exp_notes += ns
            exact += ex
            windows += wi
            uses_bend = uses_bend or uses
            # (8) per group
        plain = [w for j, w in enumerate(W) if j not in in_group]
        want = midinotes.onoff_of_notes(exp_notes + plain)
        have = vT["onoff"]
        if have != want:
            what = "tied groups do not sound as the Slur mode prescribes (track %d; groups %s)" % (
                no, [(m_, v_, len(ix)) for (m_, v_, ix) in tr["groups"]])
            ctx.oracle_fail(what, s, str(have)[:700], str(want)[:700], input_text=s)
            continue
        # (7) markers / plain notes at the same ticks: part of the comparison above, stated on its own for the markers
        mT = sorted(o for o in vT["onoff"][0] if o[3] == 3)
        mU = sorted(o for o in vU["onoff"][0] if o[3] == 3)
        if mT != mU:
            ctx.oracle_fail("the time pointer after a tied group differs from the untied program (track %d)" % no, s, str(mT)[:300], str(mU)[:300], input_text=s)
        # (8) no note twice
        nT, nU = len(vT["onoff"][0]), len(vU["onoff"][0])
        if nT > nU:
            ctx.oracle_fail("more note-ons than notes written (track %d)" % no, s, str(nT), "<= %d" % nU, input_text=s)
        # (4)(5) bends
        msg = check_bends(vT, exact, windows)
        if msg:
            ctx.oracle_fail("pitch bends of a tied group (track %d): %s" % (no, msg), s, str([(b[0], b[2]) for b in vT["bends"]])[:700],
                            "exact %s glides %s" % (exact[:20], windows[:10]), input_text=s)
        # the three messages of a bend-range announcement go out on ONE channel, the channel of the bends that follow it
        if vT["rpn"]:
            # (WHICH channel is not asserted: the announcement is made once per track, on the channel of the first group - a later
            #  group on another channel bends without one; observed, DESIGN 13.3, not claimed by the property)
            chans = set(r[1] for r in vT["rpn"])
            if len(chans) != 1:
                ctx.oracle_fail("bend range announcement: select and data entry are not on one channel (track %d)" % no,
                                s, str(vT["rpn"])[:300], "all three messages on one channel", input_text=s)
        # bend range announcement: at most once per track, only when a group bends
        triples = [r for r in vT["rpn"] if r[2] == 6]
        if len(triples) > 1 or (triples and not uses_bend) or (uses_bend and vT["bends"] and not triples):
            ctx.oracle_fail("bend range announcement (track %d)" % no, s, str(vT["rpn"])[:300],
                            "once iff a group bends (%s)" % uses_bend, input_text=s)
        # (9) frame law against R
        if tr["static_ok"]:
            ge = midinotes.onoff_of_notes(exp_notes)
            ons = remove_multiset(vT["onoff"][0], ge[0])
            offs = remove_multiset(vT["onoff"][1], ge[1])
            restT = (sorted(ons) if ons is not None else None, sorted(offs) if offs is not None else None)
            if restT != vR["onoff"]:
                ctx.oracle_fail("the notes outside the groups differ from the program with the groups replaced by rests (track %d)" % no,
                                s, str(restT)[:600], str(vR["onoff"])[:600], input_text=s)
            if vT["others"] != vR["others"]:
                ctx.oracle_fail("events other than notes/bends differ from the program with the groups replaced by rests (track %d)" % no,
                                s, str(vT["others"])[:400], str(vR["others"])[:400], input_text=s)
            if vR["bends"] or vR["rpn"]:
                ctx.oracle_fail("a program without ties writes pitch bends (track %d)" % no, s, str(vR["bends"])[:200], "none", input_text=s)
        else:
            ctx.dist["frame_skipped"] = ctx.dist.get("frame_skipped", 0) + 1


# ------------------------------------------------------------------------------------------------------------------
def free_form(ctx, n):
    rng = ctx.rng
    srcs = [mmlgen.core_program(rng, feats={"tie": True, "timebase": False}) for _ in range(n)]
    for i in range(1, len(srcs), 4):
        srcs[i] = "TimeBase(%d)\n" % rng.choice([48, 192, 480, 100, 24]) + srcs[i]
    # a few with Slur commands in front
    for i in range(0, len(srcs), 3):
        m = rng.choice([0, 1, 2, 3])
        srcs[i] = ("Slur(%d) " % m if rng.random() < 0.5 else "Slur(%d,%d) " % (m, rng.choice(TVALS))) + srcs[i]
    untied = [s.replace("&", "") for s in srcs]
    got = ctx.impl(["compile_lex\t%s" % vlib.enc_text(s) for s in srcs + untied], stall=20)
    mod = ctx.model(["compile_core\t%s" % vlib.enc_text(s) for s in srcs])
    dec = decode_many(ctx, [g.split("\t")[0] for g in got])
    for i, s in enumerate(srcs):
        ctx.count("free_programs", None)
        g, m = got[i], mod[i]
        if m.startswith("UNSUPPORTED") or m.startswith("OUTOFFUEL"):
            ctx.unsupported += 1
            ctx.dist[m] = ctx.dist.get(m, 0) + 1
        elif g != m:
            ctx.disagree("compile (lex/exec/generate) with '&'", s, g[:300], m[:300])
        if g in ("PANIC", "HANG", "ABORT", "MISSING"):
            ctx.oracle_fail("compilation does not finish: %s" % g, s, g, "SMF bytes", input_text=s)
            continue
        dT, dU = dec[i], dec[i + n]
        if dT is None or dU is None or "LARGE" in (dT, dU):
            continue
        for k, d in enumerate(dT):
            v = track_view(d)
            if v is None:
                continue
            for (t, ch, val, lsb, msb) in v["bends"]:
                if not (0 <= lsb <= 127 and 0 <= msb <= 127):
                    ctx.oracle_fail("pitch bend outside 0..16383", s, "Bend(%d,%d)" % (lsb, msb), "0..16383", input_text=s)
            if "PlayFrom" in s or "?" in s or "Slur(3" in s:
                continue
            if k < len(dU):
                u = track_view(dU[k])
                if u is not None and len(v["onoff"][0]) > len(u["onoff"][0]):
                    ctx.oracle_fail("more note-ons with '&' than without (track %d)" % k, s, str(len(v["onoff"][0])),
                                    "<= %d" % len(u["onoff"][0]), input_text=s)


# ------------------------------------------------------------------------------------------------------------------
# corpus: sources with the notes / bends the property text prescribes.  {"src", "what", "notes": {track: [[ch,key,start,dur,vel]..]},
# "bends": {track: [[tick, "=", ">" or "<"] ..]} (every bend of the track, in order)}
# ------------------------------------------------------------------------------------------------------------------
def check_corpus(ctx):
    p = os.path.join(vlib.VERIF, "corpus", "C13.jsonl")
    if not os.path.exists(p):
        return
    objs = [json.loads(l) for l in open(p, encoding="utf-8") if l.strip()]
    srcs = [o["src"] for o in objs]
    got = ctx.impl(["compile_lex\t%s" % vlib.enc_text(s) for s in srcs], stall=20)
    mod = ctx.model(["compile_core\t%s" % vlib.enc_text(s) for s in srcs])
    dec = decode_many(ctx, [g.split("\t")[0] for g in got])
    for o, g, m, d in zip(objs, got, mod, dec):
        s = o["src"]
        ctx.count("corpus", s)
        if m.startswith("UNSUPPORTED") or m.startswith("OUTOFFUEL"):
            ctx.unsupported += 1
        elif g != m:
            ctx.disagree("compile (corpus)", s, g[:300], m[:300])
        if d is None or d == "LARGE":
            ctx.oracle_fail("corpus: output does not decode (%s)" % o.get("what", ""), s, g[:100], "decodable SMF", input_text=s)
            continue
        for k, want in o.get("notes", {}).items():
            k = int(k)
            v = track_view(d[k]) if k < len(d) else None
            w = midinotes.onoff_of_notes([tuple(x) for x in want])
            if v is None or v["onoff"] != w:
                ctx.oracle_fail("corpus: %s (track %d)" % (o.get("what", ""), k), s, str(v and v["onoff"])[:500], str(w)[:500], input_text=s)
        for k, want in o.get("bends", {}).items():
            k = int(k)
            v = track_view(d[k]) if k < len(d) else None
            have = [[b[0], {0: "=", 1: ">", -1: "<"}[sign(b[2] - 8192)]] for b in (v["bends"] if v else [])]
            if have != want or any(not (0 <= b[2] <= 16383) for b in (v["bends"] if v else [])):
                ctx.oracle_fail("corpus bends: %s (track %d)" % (o.get("what", ""), k), s, str(v and [(b[0], b[2]) for b in v["bends"]])[:500],
                                str(want)[:500], input_text=s)


def run(ctx):
    check_corpus(ctx)
    quick = ctx.tier == "quick"
    structured(ctx, 3000 if quick else 30000)
    free_form(ctx, 2000 if quick else 20000)


def replay(ctx, obj):
    f = obj.get("failure") or {}
    src = f.get("input") or (obj.get("broken_correspondence") or [{}])[0].get("case")
    if src:
        g = ctx.impl(["compile_lex\t%s" % vlib.enc_text(src)])
        m = ctx.model(["compile_core\t%s" % vlib.enc_text(src)])
        print("implementation:", g[0][:400])
        print("model:         ", m[0][:400])
        d = decode_many(ctx, [g[0].split("\t")[0]])[0]
        for k, t in enumerate(d or []):
            print("track %d: %s" % (k, t.split("\t")[0][:600]))
        if g != m and not m[0].startswith("UNSUPPORTED"):
            ctx.disagree("compile (replay)", src, g[0][:300], m[0][:300])
