"""C04 - note-length expressions. Theorems: props/C04.v. Correspondence: model calc_length vs
runner::calc_length (public) on grammar strings and junk strings. Oracle: the extracted
specification `denote` and the additivity law, applied to the implementation's results."""
import json, os, re
import vlib

COQ_TARGET = "props/C04.v"
THEOREMS = ["C04_denotes", "C04_additive", "C04_literals", "C04_token_boundary", "C04_token_blanks", "C04_token_line_break",
            "C04_token_safe", "C04_token_prefix", "C04_bang", "C04_bang_blanks", "C04_bang_array",
            "C04_in_program_rest", "C04_in_program_length", "C04_in_program_note", "C04_in_program_note_field", "C04_l_dot_ok"]
RULE = ("expressions generated from the grammar [%]?[-]?digits? dots? ((^|+) part)* as syntax trees (printed by the "
        "extracted Coq printer), time bases 48..32767, defaults 0..4*tb, plus junk strings over the length alphabet; "
        "non-trivial = distinct (string,tb,default) with at least one part, dot or step marker")
TRUSTED = ["f32 dot arithmetic of calc_length is exact for |values| < 2^20 (modelled in exact arithmetic; sampled up to that edge)"]
ASSUMES = ["in-program cases: expressions not starting with - or + (accidental / backward rest), numerals below 10^7, results below 2^20", "numerals below 10^6 where dots follow (no f32 rounding); undotted numerals of any length (they saturate at 2^31-1)"]

DIG_POOL = ["1", "2", "3", "4", "6", "8", "12", "16", "24", "32", "48", "64", "96", "128", "192", "0", "00", "04", "016",
            "5", "7", "9", "10", "100", "1000", "384", "65535", "999999"]
TB_POOL = [48, 96, 96, 96, 192, 480, 480, 960, 1920, 32767, 49, 100]


def gen_atom(rng, is_head):
    has_num = rng.random() < (0.8 if is_head else 0.85)
    if not has_num:
        if is_head:
            return "%d:0:_:%d" % (1 if rng.random() < 0.1 else 0, rng.choice([0, 0, 0, 1, 2, 3, 4]))
        return "0:0:_:0"
    step = 1 if rng.random() < 0.25 else 0
    neg = 1 if rng.random() < 0.08 else 0
    ds = rng.choice(DIG_POOL) if rng.random() < 0.8 else str(rng.randrange(0, 100000))
    dots = rng.choice([0, 0, 0, 0, 1, 1, 2, 3, 4])
    if rng.random() < 0.03:
        # a numeral of any length denotes its value capped at 2^31-1 (no dots: the dot arithmetic is f32 in the code)
        ds = rng.choice(["2147483646", "2147483647", "2147483648", "4294967296", "99999999999999999999", "18446744073709551621",
                         "".join(rng.choice("0123456789") for _ in range(rng.choice([11, 19, 20, 30])))])
        dots = 0
    return "%d:%d:%s:%d" % (step, neg, ds, dots)


def gen_expr(rng):
    head = gen_atom(rng, True)
    n = rng.choice([0, 0, 1, 1, 2, 3, 5, 8])
    parts = ";".join(rng.choice("^^^+") + gen_atom(rng, False) for _ in range(n)) or "-"
    tb = rng.choice(TB_POOL) if rng.random() < 0.8 else rng.randrange(48, 32768)
    d = rng.choice([0, tb, tb // 2, 4 * tb, tb // 4, rng.randrange(0, 4 * tb + 1)])
    return head, parts, tb, d


def gen_junk(rng):
    n = rng.randrange(0, 10)
    alpha = "0123456789" * 2 + "...^^^%%-+++ $x|c\n\t"
    s = "".join(rng.choice(alpha) for _ in range(n))
    # keep numerals short (f32 exactness / overflow are outside the modelled range)
    out, run = [], 0
    for c in s:
        run = run + 1 if c.isdigit() else 0
        if run <= 5:
            out.append(c)
    return "".join(out)


def check_exprs(ctx, exprs, origin):
    spec_lines = ["len_spec\t%s\t%s\t%d\t%d" % e for e in exprs]
    spec = ctx.model(spec_lines)
    cases, keep = [], []
    for e, r in zip(exprs, spec):
        if r == "NOTWF" or r.startswith("BAD") or "\t" not in r:
            ctx.notes.append("generator produced a non-wf expression: %r -> %s" % (e, r)) if len(ctx.notes) < 5 else None
            continue
        txt, want = r.split("\t")
        cases.append("calc_length\t%s\t%d\t%d" % (txt, e[2], e[3]))
        keep.append((e, txt, want))
    got = ctx.impl(cases)
    mod = ctx.model(cases)
    for (e, txt, want), g, m, line in zip(keep, got, mod, cases):
        s = vlib.dec_text(txt)
        nontriv = (s, e[2], e[3]) if (e[1] != "-" or "." in s or "%" in s) else None
        ctx.count(origin, nontriv)
        ctx.sample({"string": s, "timebase": e[2], "default": e[3], "implementation": g, "model": m, "spec": want})
        if g != m:
            ctx.disagree("calc_length", {"string": s, "timebase": e[2], "default": e[3]}, g, m)
        if g != want:
            ctx.oracle_fail("calc_length(%r, %d, %d) differs from the documented tick count" % (s, e[2], e[3]),
                            line, g, want, input_text="%s|%d|%d" % (s, e[2], e[3]))
    return keep


def run(ctx):
    rng = ctx.rng
    n = 3000 if ctx.tier == "quick" else 120000
    # corpus first
    corpus, corpus_src = [], []
    p = os.path.join(vlib.VERIF, "corpus", "C04.jsonl")
    if os.path.exists(p):
        for line in open(p):
            if line.strip():
                o = json.loads(line)
                if "src" in o:
                    corpus_src.append(o)
                else:
                    corpus.append((o["head"], o["parts"], o["tb"], o["d"]))
    check_exprs(ctx, corpus, "corpus")
    # corpus entries that are whole sources: the sounded notes (time, channel, key, duration) are given
    if corpus_src:
        srcs = [o["src"] for o in corpus_src]
        got = ctx.impl(["compile_ev\t%s" % vlib.enc_text(x) for x in srcs], stall=15)
        glex = ctx.impl(["compile_lex\t%s" % vlib.enc_text(x) for x in srcs], stall=15)
        mod = ctx.model(["compile_core\t%s" % vlib.enc_text(x) for x in srcs])
        for o, g, gl, m in zip(corpus_src, got, glex, mod):
            ctx.count("corpus", o["src"])
            if m.startswith("UNSUPPORTED") or m.startswith("OUTOFFUEL"):
                ctx.unsupported += 1
            elif gl != m:
                ctx.disagree("compile (lex/exec/generate) of a corpus program", o["src"], gl[:300], m[:300])
            f = g.split("\t")
            notes = [[int(x) for x in ev.split(":")[1:5]] for trk in f[2].split("/") for ev in trk.split(";") if ev.startswith("N:")] \
                if len(f) >= 3 and f[2] != "-" else []
            if notes != o["notes"]:
                ctx.oracle_fail("the notes of the corpus program %r are not the documented ones (%s)" % (o["src"], o.get("why", "")),
                                o["src"], str(notes), str(o["notes"]), input_text=o["src"])
    exprs = [gen_expr(rng) for _ in range(n)]
    keep = check_exprs(ctx, exprs, "grammar")
    # additivity on the implementation: len(A ^ B) = len(A) + len(B), B a positive numeral, %t or empty
    adds = []
    for (e, txt, want) in keep[: n // 3]:
        a = vlib.dec_text(txt)
        kind = rng.random()
        if kind < 0.5:
            b = str(rng.choice([1, 2, 3, 4, 6, 8, 12, 16, 32, 64])) + "." * rng.choice([0, 0, 1, 2])
        elif kind < 0.8:
            b = "%" + str(rng.randrange(0, 2000))
        else:
            b = ""
        adds.append((a, b, e[2], e[3]))
    lines = []
    for a, b, tb, d in adds:
        lines.append("calc_length\t%s\t%d\t%d" % (vlib.enc_text(a + "^" + b), tb, d))
        lines.append("calc_length\t%s\t%d\t%d" % (vlib.enc_text(a), tb, d))
        lines.append("calc_length\t%s\t%d\t%d" % (vlib.enc_text(b), tb, d))
    got = ctx.impl(lines)
    for i, (a, b, tb, d) in enumerate(adds):
        ab, ga, gb = got[3 * i:3 * i + 3]
        ctx.count("additivity", (a + "^" + b, tb, d))
        try:
            ok = int(ab) == int(ga) + int(gb)
        except ValueError:
            ok = False
        if not ok:
            ctx.oracle_fail("len(A^B) != len(A)+len(B) for A=%r B=%r" % (a, b), lines[3 * i], ab, "%s+%s" % (ga, gb),
                            input_text="%s^%s|%d|%d" % (a, b, tb, d))
    # the same expressions where they are WRITTEN: after a rest and a note in a program (the reader that cuts the length
    # text out of the source runs before calc_length); a marker note shows where the time pointer stands afterwards
    progs, lforms = [], []
    for (e, txt, want) in keep[: (500 if ctx.tier == "quick" else 20000)]:
        s_, tb, d = vlib.dec_text(txt), e[2], e[3]
        # (numerals of 7+ digits and results beyond 2^20 are left to the calc_length-level checks: the note's gate is f32 arithmetic)
        if not (48 <= tb <= 32767 and d > 0 and 0 <= int(want) < 2 ** 20 and s_) or re.search(r"\d{7,}", s_):
            continue
        head = "TimeBase(%d) l%%%d " % (tb, d)
        if s_[0] in "-+":
            continue        # after a note letter a leading - or + is an accidental, after r a leading - is the backward rest
        form = rng.choice(["r", "c", "l"])
        if form == "l":
            # `l` + expression, then a note: omitted parts mean a quarter note (the time base), not the running default;
            # a length that starts with a dot ("l." "l..^8") is the dotted quarter (the dot is no reservation syntax)
            lforms.append((e, s_, "TimeBase(%d) l%%%d l%s c CH(16)n100,%%1" % (tb, d, s_)))
            continue
        body = {"r": "r%s" % s_, "c": "c%s" % s_}[form]
        progs.append((head + body + " CH(16)n100,%1", int(want), s_))
        if "^" in s_:
            # a tied part may stand on a LATER line: line breaks, blank lines, indentation and // comment lines before its '^'
            # continue the length (theorem C04_token_line_break); same tick count as on one line
            k = rng.choice([i for i, c in enumerate(s_) if c == "^"])
            gap = rng.choice(["\n", "\n\n", "\r\n\r\n", "\n// tie goes on\n", "\n  ", "\n\t\n ", "\n/* x */\n"])
            progs.append((head + form + s_[:k] + gap + s_[k:] + " CH(16)n100,%1", int(want), s_[:k] + gap + s_[k:]))
    lspec = ctx.model(["len_spec\t%s\t%s\t%d\t%d" % (e[0], e[1], e[2], e[2]) for e, _s, _src in lforms])
    for (e, s_, src), r in zip(lforms, lspec):
        if "\t" not in r:
            continue
        w = int(r.split("\t")[1])
        if 0 <= w < 2 ** 20:
            progs.append((src, w, s_))
    got = ctx.impl(["compile_ev\t%s" % vlib.enc_text(p[0]) for p in progs], stall=15)
    mod = ctx.model(["compile_core\t%s" % vlib.enc_text(p[0]) for p in progs])
    glex = ctx.impl(["compile_lex\t%s" % vlib.enc_text(p[0]) for p in progs], stall=15)
    for (src, want, s_), g, m, gl in zip(progs, got, mod, glex):
        ctx.count("in_program", src)
        if m.startswith("UNSUPPORTED") or m.startswith("OUTOFFUEL"):
            ctx.unsupported += 1
        elif gl != m:
            ctx.disagree("compile (lex/exec/generate) of a program with a length expression", src, gl[:300], m[:300])
        f = g.split("\t")
        if len(f) < 3:
            ctx.oracle_fail("a program with the length expression %r does not compile" % s_, src, g[:100], "a MIDI file", input_text=src)
            continue
        marks = [int(ev.split(":")[1]) for trk in f[2].split("/") for ev in trk.split(";") if ev.startswith("N:") and ev.split(":")[2] == "15"] \
            if f[2] != "-" else []
        if marks != [want]:
            ctx.oracle_fail("the time pointer after %r in a program is not the documented tick count" % s_, src, str(marks), str([want]), input_text=src)
    # length literals inside expressions: `!L` is len(L) at the time base in force, an omitted part being a quarter note
    # (whatever `l` says at that moment)
    lits = []
    for _ in range(150 if ctx.tier == "quick" else 6000):
        h, pz, tb, _d = gen_expr(rng)
        lits.append((h, pz, tb, tb))
    spec = ctx.model(["len_spec\t%s\t%s\t%d\t%d" % e for e in lits])
    progs = []
    for e, r in zip(lits, spec):
        if r == "NOTWF" or r.startswith("BAD") or "\t" not in r:
            continue
        txt, want = r.split("\t")
        s_ = vlib.dec_text(txt)
        if not s_ or s_[0] in "-+" or re.search(r"\d{7,}", s_) or not (48 <= e[2] <= 32767) or not (0 <= int(want) < 2 ** 20):
            continue
        lcmd = rng.choice(["", "l8 ", "l1 ", "l%7 ", "l16 c "])
        progs.append(("TimeBase(%d) %sPRINT(!%s)" % (e[2], lcmd, s_), want, s_))
    got = ctx.impl(["compile\t%s\t0" % vlib.enc_text(p[0]) for p in progs], stall=15)
    for (src, want, s_), g in zip(progs, got):
        ctx.count("length_literal", src)
        f = g.split("\t")
        log = vlib.dec_text(f[1]) if len(f) > 1 else g
        m = re.search(r"\[PRINT\]\(\d+\) (-?\d+)\s*$", log)
        if not m or m.group(1) != want:
            ctx.oracle_fail("the length literal !%s in an expression is not the documented tick count" % s_, src, log[:200], want, input_text=src)
    # junk strings: correspondence only
    junk = [(gen_junk(rng), rng.choice(TB_POOL), rng.choice([0, 48, 96, 100])) for _ in range(n // 2)]
    lines = ["calc_length\t%s\t%d\t%d" % (vlib.enc_text(s), tb, d) for s, tb, d in junk]
    got = ctx.impl(lines)
    mod = ctx.model(lines)
    for (s, tb, d), g, m in zip(junk, got, mod):
        ctx.count("junk", None)
        if g != m:
            ctx.disagree("calc_length", {"string": s, "timebase": tb, "default": d}, g, m)


def replay(ctx, obj):
    f = obj.get("failure") or {}
    line = f.get("case")
    if isinstance(line, str):
        print("replay implementation:", ctx.impl([line]), "model:", ctx.model([line]), "expected:", f.get("expected"))
