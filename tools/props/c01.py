"""C01 - the output is always a complete, self-consistent SMF container.
Theorems: props/C01.v. Correspondence: model generate vs midi::generate on constructed songs. Oracle: the
extracted strict container parser (SmfSpec.parse_file / container_ok) on every byte vector the
implementation returns - constructed songs and compiled sources of every kind (well-formed, malformed,
Japanese, many track layouts, time bases)."""
import vlib, evgen, mmlgen

COQ_TARGET = "props/C01.v"
THEOREMS = ["C01_container", "C01_bigendian16", "C01_bigendian32", "C01_compile_container", "C01_dims_from_source"]
RULE = ("constructed songs (1..40 tracks) and compiled sources: core-language programs with TR(0..999) in any order and "
        "TimeBase 24..40000, junk text, Japanese notation, sample songs and mutations; non-trivial = distinct input with >= 2 "
        "tracks or a non-default time base")
TRUSTED = ["SMF 1.0 chunk grammar as written in spec/SmfSpec.v"]
ASSUMES = ["track bodies below 2^32 bytes and at most 65535 tracks (dims_ok); track numbers 0..999 as documented"]


def check_container(ctx, label, hx, ntracks, timebase, origin, nontrivial):
    return ("container\t%s" % hx, label, ntracks, timebase, origin, nontrivial)


def run(ctx):
    rng = ctx.rng
    n = 500 if ctx.tier == "quick" else 15000
    todo = []
    songs = [evgen.song(rng, wild=(rng.random() < 0.5)) for _ in range(n // 2)]
    songs = [s for s in songs if 0 < s[0] < 32768]
    lines = ["generate\t%d\t%s" % s for s in songs]
    got = ctx.impl(lines)
    mod = ctx.model(lines)
    for s, g, m, line in zip(songs, got, mod, lines):
        if m.startswith("PANIC") or m.startswith("UNSUPPORTED"):
            ctx.unsupported += 1
        elif g != m:
            ctx.disagree("generate", line[:3000], g[:400], m[:400])
        if g in ("PANIC", "HANG", "ABORT"):
            continue
        nt = s[1].count("/") + 1
        todo.append(check_container(ctx, line[:3000], g, nt, s[0], "constructed", nt >= 2))
    srcs = []
    for _ in range(n):
        k = rng.random()
        if k < 0.45:
            p = mmlgen.core_program(rng)
            if rng.random() < 0.3:
                p = "".join("TR(%d) %s\n" % (rng.choice([0, 1, 2, 3, 7, 15, 16, 17, 100, 999, rng.randrange(0, 1000)]),
                                              mmlgen.block(rng, 1, 2, {})) for _ in range(rng.randrange(1, 5))) + p
            srcs.append(p)
        elif k < 0.65:
            srcs.append(mmlgen.junk_program(rng))
        elif k < 0.75:
            srcs.append(mmlgen.japanese_program(rng))
        elif k < 0.9:
            srcs.append("TimeBase(%d) %s" % (rng.choice([48, 49, 96, 480, 32767, 32768, 40000, 65535, 65536, 0, -5, 10 ** 7]),
                                              mmlgen.block(rng, 1, 3, {})))
        else:
            ss = mmlgen.samples()
            srcs.append(mmlgen.mutate(rng, rng.choice(ss)) if ss else "c")
    srcs += mmlgen.samples() + ["", " ", "TimeBase(40000) c", "TR(999) c", "TR(5) c TR(2) c", "End c"]
    # chunk bodies around and beyond 2^16 and 2^17 bytes (the length field has four bytes; one l16 note = 8 bytes)
    for k in ([8190, 8192, 10000] if ctx.tier == "quick" else [8189, 8190, 8191, 8192, 8193, 10000, 16384, 17000, 33000]):
        srcs.append("TR=1 l16 [%d c] TR=2 cde" % k)
    srcs.append("TR=2 l16 " + "c" * 9000 + " TR=1 cde TR=3 [8300 'ce']")
    # raw bytes written by the user (DirectSMF), also ones that look like an End-of-Track, anywhere in a track
    for _ in range(30 if ctx.tier == "quick" else 600):
        raw = rng.choice(["DirectSMF(255,47,0)", "DirectSMF($FF,$2F,0)", "DirectSMF(255,47,0) DirectSMF(255,47,0)", "DirectSMF($B0,7,100)",
                          "DirectSMF(255,1,1,65)", "DirectSMF(0,255,47,0)"])
        parts = [mmlgen.block(rng, 1, rng.randrange(0, 3), {}), raw, mmlgen.block(rng, 1, rng.randrange(0, 3), {})]
        if rng.random() < 0.4:
            parts = ["TR(1) "] + parts + [" TR(2) ", mmlgen.block(rng, 1, 2, {}), rng.choice(["", raw])]
        srcs.append(" ".join(parts))
    srcs += ["DirectSMF(255,47,0) c", "TR(1) c DirectSMF($FF,$2F,0) d TR(2) e", "cde DirectSMF(255,47,0)"]
    # play-from: the point inside, at the end of and beyond tracks that hold program / controller / meta events
    for _ in range(40 if ctx.tier == "quick" else 800):
        ntr = rng.choice([1, 2, 3])
        body = ""
        for t in range(1, ntr + 1):
            body += "TR(%d) %s %s " % (t, rng.choice(["@5", "y7,100;", "M(64)", "@5 y10,20;", "TrackName={\"x\"}", ""]),
                                      mmlgen.block(rng, 1, rng.randrange(0, 4), {}))
            if rng.random() < 0.5:
                body += rng.choice(["r1 r1 ", "r1 ", "l1 rrrr "])
            if rng.random() < 0.5:
                body += "? "
        where = rng.choice(["", "PlayFrom(%d) " % rng.choice([0, 1, 96, 384, 5000]), "PlayFrom(%d:1:0) " % rng.choice([1, 2, 3, 9])])
        srcs.append(where + body + rng.choice(["", "?", "c ?", "? c"]))
    srcs += ["@5 c ?", "TR(1) @5 l4 cdef TR(2) r1 r1 ? cdef", "y7,1; ?", "?", "c ? ?"]
    # per-track settings that are written as a prefix of the chunk (Port) or change what a chunk holds
    for _ in range(20 if ctx.tier == "quick" else 400):
        ntr = rng.choice([1, 2, 3, 5])
        srcs.append("".join("TR=%d %s %s " % (t, rng.choice(["Port(%d)" % rng.choice([0, 1, 2, 15, 16, 255]), "Port=%d;" % rng.choice([0, 1, 3]), "",
                                                             "TrackName={\"t\"}", "Port(1) Port(2)"]), mmlgen.block(rng, 1, rng.randrange(0, 3), {}))
                            for t in range(1, ntr + 1)))
    srcs += ["TR=1 cde TR=2 Port(1) efg", "Port(1) c", "Port(300) c"]
    # text metas around the 127-byte cut with multi-byte characters (the length byte counts BYTES)
    for k in [20, 41, 42, 43, 44, 50, 85, 86, 127, 128, 200]:
        for cmd in ["TrackName", "Lyric", "Copyright", "Text"]:
            srcs.append("%s={\"%s\"} cde" % (cmd, "あ" * k))
    srcs.append("TR(1) c TR(2) Lyric={\"%s\"} d TR(3) e" % ("あ" * 50))
    # the time base given by a VARIABLE or an expression (whatever the implementation makes of such an argument, the division
    # field is a positive 15-bit number and the container is well-formed)
    for v in [40000, 0, -1, 65632, 32768, 32767, 48, 47, 96, 100000, 2 ** 31]:
        for form in ["Int TBASE=%d TimeBase(TBASE) cde", "Int TBASE=%d; TimeBase=TBASE; TR(2) cde", "Int TBASE=%d TIMEBASE(TBASE) c",
                     "Int TBASE=%d System.TimeBase(TBASE) l4 cde", "TimeBase(%d+0) c", "TimeBase(2*%d) c", "Int TBASE=%d TimeBase(TBASE+1) c"]:
            srcs.append(form % v)
    lines = ["compile_ev\t%s" % vlib.enc_text(s) for s in srcs]
    got = ctx.impl(lines, stall=20)
    # the bytes that are checked are those of the PUBLIC entry point compile(); compile_ev (the same stages called one by
    # one by the harness) only tells the number of tracks and the time base
    pub = ctx.impl(["compile\t%s\t0" % vlib.enc_text(s) for s in srcs], stall=20)
    for s, g, pg in zip(srcs, got, pub):
        f = g.split("\t")
        pf = pg.split("\t")
        if len(f) < 4 or len(pf) < 2:
            ctx.dist["compile_" + g[:12]] = ctx.dist.get("compile_" + g[:12], 0) + 1
            continue
        nt = f[2].count("/") + 1
        tb = int(f[1])
        if pf[0] != f[0]:
            ctx.dist["staged_pipeline_differs_from_compile"] = ctx.dist.get("staged_pipeline_differs_from_compile", 0) + 1
            todo.append(check_container(ctx, s, f[0], nt, tb, "compiled(staged)", False))
        todo.append(check_container(ctx, s, pf[0], nt, tb, "compiled", nt >= 2 or tb != 96))
    res = ctx.model([t[0] for t in todo])
    for (line, label, nt, tb, origin, nontriv), r in zip(todo, res):
        f = r.split("\t")
        ctx.count(origin, label if nontriv else None)
        if len(ctx.samples) < 6 and nontriv:
            ctx.sample({"input": label[:200], "container": f[:5]})
        if f[0] in ("STACKOVERFLOW", "HANG", "ABORT"):
            # the ORACLE (the extracted container parser) gave up on a very large file: not a statement about the implementation
            ctx.dist["oracle_unavailable:" + f[0]] = ctx.dist.get("oracle_unavailable:" + f[0], 0) + 1
            continue
        if f[0] != "OK":
            ctx.oracle_fail("bytes are not a well-formed SMF container (%s)" % f[0], line[:2000], r[:300], "OK", input_text=label)
        elif int(f[2]) != nt or int(f[4]) != nt:
            ctx.oracle_fail("track count in header/chunks differs from the song's tracks", line[:2000], f[2] + "/" + f[4], nt, input_text=label)
        elif int(f[3]) != tb:
            ctx.oracle_fail("division differs from the time base in effect", line[:2000], f[3], tb, input_text=label)
    # every chunk ends with an End-of-Track EVENT: walking the events of the body arrives exactly at the End-of-Track at the end of the
    # chunk (a length byte that does not match its text makes the walk overrun although the last four bytes are 00 FF 2F 00); sources
    # that inject raw bytes are left out
    walk = []
    for (line, label, nt, tb, origin, nontriv), r in zip(todo, res):
        f = r.split("\t")
        if origin == "compiled" and f[0] == "OK" and len(f) > 5 and not any(k in label for k in ("DirectSMF", "NoteOn(", "NoteOff(", "SysEx")):
            for bi, b in enumerate(f[5].split("/")):
                if len(b) < 20000:
                    walk.append((label, bi, b))
    dec = ctx.model(["decode_track\t%s" % b for _, _, b in walk])
    for (label, bi, b), d in zip(walk, dec):
        if d.startswith("DECODE-FAIL"):
            ctx.oracle_fail("walking the events of chunk %d does not arrive at an End-of-Track event at the end of the chunk" % bi,
                            "decode_track\t%s" % b[:2000], d[:200], "a sequence of events ending with End-of-Track", input_text=label)


def replay(ctx, obj):
    f = obj.get("failure") or {}
    print("replay: input =", repr(f.get("input"))[:500])
    if isinstance(f.get("case"), str):
        print(ctx.model([f["case"]]))
