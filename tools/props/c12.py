"""C12 - tracks are independent; TrackSync and PLAY align them as documented.
Theorems: props/C12.v (default channel of created tracks in any order of first use, TrackSync, frame and independence of
the track-local arms, commutation of track-local blocks [partial]; a track switch and back changes nothing on the track
(C12_switch_and_back), every track is what its own blocks alone make of it (C12_program_tracks), hence any order-preserving
interleaving (C12_permute_program) and the `grouped` rendering (C12_group_program, C12_group_program_create) build the same
tracks; creating tracks beforehand changes nothing (C12_precreate, C12_create_named)).  PLAY is outside the modelled fragment: no theorem,
the model answers UNSUPPORTED and only the oracle speaks about it.
Correspondence: `compile_core` (model) vs `compile_lex` (implementation) on every multi-track source generated here.
Oracle, on the implementation's bytes (laws between compilations; chunk bodies through the `container` kind):
  permute   a program of blocks `TR(i) <block>`: any reordering that keeps the order of the blocks of each track leaves
            every track chunk byte-identical (the number of chunks is max track + 1 in both)
  channel   every note of chunk i sounds on channel clamp(i - 1, 0, 15), whatever order the tracks were first used in
  sync      after `TrackSync` a marker note written on ANY track starts where the current track stood
  play      PLAY({p1},...,{pn}) from position S of track t: chunk i holds what `TR(i) TIME(S) pi` gives, a marker
            written without TR afterwards lands on track t, and markers on all tracks start at ONE position that is
            not before the end of any part nor before S
marker = CH(16)n100,%1,100,99,0 (explicit length, gate, velocity, timing; a channel of its own)."""
import json, os
import vlib, mmlgen, midinotes

COQ_TARGET = "props/C12.v"
THEOREMS = ["C12_default_channel", "C12_default_channel_any_order", "C12_track_token", "C12_settle_octave_once", "C12_track_token_plain",
            "C12_sync", "C12_frame", "C12_frame_indep", "C12_block_frame", "C12_block_indep", "C12_harmony_time_dead",
            "C12_commute_partial", "C12_block_local", "C12_commute_blocks",
            "C12_switch_and_back", "C12_switch_and_back_pending", "C12_group_blocks",
            "C12_program_tracks", "C12_permute_program", "C12_group_program", "C12_prog_wf_computed",
            "C12_precreate", "C12_create_named", "C12_group_program_create"]
DRIVERS = ["core"]
RULE = ("2..8 blocks `TR(i) <block>`, i from 0,1,2,3,5,9,12,16,17,20, block = 1..4 items of the core-language generator (notes, rests, "
        "numbered notes, l/o/v/q/t and relative commands, octave-once, chords, tuplets, Sub, loops, comments), half of them closed by "
        "a lettered note, some left with an octave-once pending; random order-preserving interleavings; TrackSync after the last block with a marker on every track; PLAY with 1..4 "
        "parts of unequal length from tracks 0, 1, 3 at positions 0 and later. non-trivial = distinct source with notes on >= 2 tracks")
TRUSTED = ["SMF container / track decoding by the extracted specification decoder (C01, C02)"]
ASSUMES = ["blocks contain no TimeBase / TrackSync / TR / CH and no song-global command (KeyShift, KeyFlag, Tempo ...)",
           "half of the blocks end with a lettered note (no octave-once pending at the track change: the fragment of "
           "C12_commute_partial); the other half may end with a pending ` or \" - settled by change_cur_track since fixes 6351c81 / 3e10d77",
           "PLAY parts contain no comments; sync / play oracles use tracks <= 15 so that channel 15 belongs to the marker"]

MARK = " CH(16)n100,%1,100,99,0 "
FEATS = {"tie": False, "comments": True}
PART_FEATS = {"tie": False, "comments": False}
TRACKS = [0, 1, 2, 3, 5, 9, 12, 16, 17, 20, 1, 2, 3]
LOW_TRACKS = [0, 1, 2, 3, 5, 9, 12, 1, 2]


def clamp_ch(i):
    return max(0, min(15, i - 1))


def gen_block(rng, feats=FEATS):
    b = mmlgen.block(rng, 2, rng.randrange(1, 5), feats) + " "
    k = rng.random()
    if k < 0.5:
        b += rng.choice("cdefgab") + " "
    elif k < 0.65:
        b += rng.choice(["`", '"']) + " "
    elif k < 0.80:
        # a tied group left pending at the end of the block (flushed when the track's next note comes or at the end)
        b += rng.choice(["c& ", "d&e& ", "Slur(2) g& ", "a8&"]) + " "
    return b


def gen_blocks(rng, pool):
    return [(rng.choice(pool), gen_block(rng)) for _ in range(rng.randrange(2, 9))]


def text_of(blocks):
    return "".join("TR(%d) %s\n" % b for b in blocks)


def interleave(rng, blocks):
    """a random reordering that keeps the relative order of the blocks of each track"""
    per = {}
    for t, b in blocks:
        per.setdefault(t, []).append(b)
    order = [t for t, _ in blocks]
    rng.shuffle(order)
    out = []
    for t in order:
        out.append((t, per[t].pop(0)))
    return out


def grouped(blocks):
    """all blocks of a track written one after the other under ONE TR (tracks in order of first appearance): no track switch
    between them - None when a block may leave an octave-once mark pending (a switch settles it, the next note would take it:
    theorem C12_group_needs_no_pending_once).  Whether a mark is still pending at the end of a block depends on what follows it
    inside the block (`Sub{r " q10}` leaves one pending), so any block that writes a mark at all is left out."""
    if any(("`" in b or '"' in b) for _, b in blocks):
        return None
    per, order = {}, []
    for t, b in blocks:
        if t not in per:
            per[t] = []
            order.append(t)
        per[t].append(b)
    return [(t, " ".join(per[t])) for t in order]


class Dec:
    def __init__(self, field):
        self.notes = midinotes.notes_of_decoded(field)
        self.onoff = midinotes.onoff_of_decoded(field)

    def marks(self):
        return sorted(n[2] for n in self.notes if n[0] == 15)

    def plain(self):
        ons, offs = self.onoff
        return ([x for x in ons if x[0] != 15], [x for x in offs if x[0] != 15])


def compile_all(ctx, srcs, decode=True):
    lines = ["compile_lex\t%s" % vlib.enc_text(s) for s in srcs]
    got = ctx.impl(lines, stall=20)
    mod = ctx.model(["compile_core\t%s" % vlib.enc_text(s) for s in srcs])
    for s, g, m in zip(srcs, got, mod):
        if m.startswith("UNSUPPORTED") or m.startswith("OUTOFFUEL"):
            ctx.unsupported += 1
            ctx.dist[m] = ctx.dist.get(m, 0) + 1
        elif g != m:
            ctx.disagree("compile (lex/exec/generate)", s, g[:300], m[:300])
    cont = ctx.model(["container\t%s" % g.split("\t")[0] for g in got])
    bodies = []
    for c in cont:
        f = c.split("\t")
        bodies.append((f[5].split("/") if len(f) > 5 else []) if f[0] == "OK" else None)
    decs = [None] * len(srcs)
    if decode:
        lines, owner = [], []
        for i, b in enumerate(bodies):
            for x in (b or []):
                lines.append("decode_track\t%s" % x)
                owner.append(i)
        dec = ctx.model(lines)
        decs = [None if b is None else [] for b in bodies]
        for i, d in zip(owner, dec):
            decs[i].append(Dec(d))
        for i, d in enumerate(decs):
            if d is not None and any(x.notes is None for x in d):
                decs[i] = None
    return got, bodies, decs


def undecodable(ctx, src, g):
    ctx.oracle_fail("output does not decode", src, g[:100], "decodable SMF", input_text=src)


# ---- permutation + channel ----
def check_permute(ctx, progs, origin):
    srcs = []
    for blocks, perm in progs:
        srcs += [text_of(blocks), text_of(perm)]
    got, bodies, decs = compile_all(ctx, srcs)
    for k, (blocks, perm) in enumerate(progs):
        a, b = srcs[2 * k], srcs[2 * k + 1]
        ba, bb, da = bodies[2 * k], bodies[2 * k + 1], decs[2 * k]
        if ba is None or bb is None or da is None:
            undecodable(ctx, a if ba is None or da is None else b, got[2 * k])
            continue
        sounding = sum(1 for d in da if d.notes)
        ctx.count(origin + ":permute", a if sounding >= 2 else None)
        if len(ctx.samples) < 3 and sounding >= 2:
            ctx.sample({"kind": "permute", "source": a[:300], "reordered": b[:300]})
        maxt = max(t for t, _ in blocks)
        if len(ba) != maxt + 1 or len(bb) != maxt + 1:
            ctx.oracle_fail("number of track chunks is not max track + 1", a, "%d / %d" % (len(ba), len(bb)), str(maxt + 1), input_text=a)
            continue
        for i, (x, y) in enumerate(zip(ba, bb)):
            if x != y:
                ctx.oracle_fail("reordering blocks of different tracks changed track %d" % i, a + "\n--- reordered ---\n" + b,
                                y[:300], x[:300], input_text=a + "\n--- reordered ---\n" + b)
                break
        for i, d in enumerate(da):
            wrong = [n for n in d.notes if n[0] != clamp_ch(i)]
            if wrong:
                ctx.oracle_fail("track %d does not sound on its default channel" % i, a, "channel %d" % wrong[0][0],
                                "channel %d" % clamp_ch(i), input_text=a)
                break


# ---- TrackSync ----
def check_sync(ctx, progs, origin):
    srcs = []
    for blocks in progs:
        base = text_of(blocks)
        maxt = max(t for t, _ in blocks)
        # (every spelling of the command: TrackSync, TRACK_SYNC)
        srcs += [base + MARK, base + " " + ["TrackSync", "TRACK_SYNC", "TrackSync;", "TRACK_SYNC;"][len(base) % 4] + " " + "".join("TR(%d)%s" % (i, MARK) for i in range(maxt + 1))]
    got, bodies, decs = compile_all(ctx, srcs)
    for k, blocks in enumerate(progs):
        ref, syn = srcs[2 * k], srcs[2 * k + 1]
        dr, ds = decs[2 * k], decs[2 * k + 1]
        if dr is None or ds is None:
            undecodable(ctx, ref if dr is None else syn, got[2 * k])
            continue
        cur = blocks[-1][0]
        ms = dr[cur].marks() if cur < len(dr) else []
        if len(ms) != 1:
            ctx.notes.append("sync: no marker in reference %r" % ref[:80]) if len(ctx.notes) < 5 else None
            continue
        S = ms[0]
        ctx.count(origin + ":sync", syn if len(ds) >= 2 else None)
        if len(ctx.samples) < 6 and ctx.dist.get("sampled:sync", 0) < 2:
            ctx.dist["sampled:sync"] = ctx.dist.get("sampled:sync", 0) + 1
            ctx.sample({"kind": "sync", "source": syn[:300], "position": S})
        for i, d in enumerate(ds):
            if d.marks() != [S]:
                ctx.oracle_fail("after TrackSync track %d is not at the current track's position" % i, syn,
                                "marker at %s" % d.marks(), "marker at %d" % S, input_text=syn)
                break


# ---- PLAY ----
def check_play(ctx, cases, origin):
    srcs = []
    for c in cases:
        srcs.append(c.get("ahead", "") + "TR(%d) %s%s" % (c["t"], c["pre"], MARK))
    got0, _, decs0 = compile_all(ctx, srcs)
    todo, srcs2 = [], []
    for c, s, g, d in zip(cases, srcs, got0, decs0):
        if d is None:
            undecodable(ctx, s, g)
            continue
        ms = d[c["t"]].marks() if c["t"] < len(d) else []
        if len(ms) != 1:
            continue
        c["S"] = ms[0]
        n = len(c["parts"])
        top = max(n, c["t"])
        play = c.get("ahead", "") + "TR(%d) %sPLAY(%s)%s" % (c["t"], c["pre"], ",".join(("{" + p + "}") if p is not None else "" for p in c["parts"]), MARK) + \
               "".join("TR(%d)%s" % (i, MARK) for i in range(top + 1) if i != c["t"])
        ref = c.get("ahead", "") + "TR(%d) %s" % (c["t"], c["pre"]) + "".join("TR(%d) TIME(%d) %s%s" % (i + 1, c["S"], p, MARK) for i, p in enumerate(c["parts"]) if p is not None)
        todo.append(c)
        srcs2 += [play, ref]
    got, bodies, decs = compile_all(ctx, srcs2)
    for k, c in enumerate(todo):
        play, ref = srcs2[2 * k], srcs2[2 * k + 1]
        dp, dr = decs[2 * k], decs[2 * k + 1]
        if dp is None or dr is None:
            undecodable(ctx, play if dp is None else ref, got[2 * k])
            continue
        n = len(c["parts"])
        ctx.count(origin + ":play", play if n >= 2 else None)
        if len(ctx.samples) < 9 and ctx.dist.get("sampled:play", 0) < 2:
            ctx.dist["sampled:play"] = ctx.dist.get("sampled:play", 0) + 1
            ctx.sample({"kind": "play", "source": play[:300], "start": c["S"]})
        top = max(n, c["t"])
        if len(dp) != top + 1:
            ctx.oracle_fail("PLAY with %d parts from track %d: number of track chunks" % (n, c["t"]), play, str(len(dp)), str(top + 1), input_text=play)
            continue
        bad = False
        ends = []
        for i in range(1, n + 1):
            if dp[i].plain() != dr[i].plain():
                ctx.oracle_fail("PLAY part %d is not on track %d from the common start" % (i, i), play,
                                str(dp[i].plain())[:400], str(dr[i].plain())[:400], input_text=play)
                bad = True
                break
            ends += dr[i].marks()
        if bad:
            continue
        marks = [d.marks() for d in dp]
        if any(len(m) != 1 for m in marks):
            ctx.oracle_fail("after PLAY the marker written without TR is not on the track PLAY was called from (or a track is missing its marker)",
                            play, str(marks), "one marker per track", input_text=play)
            continue
        pos = set(m[0] for m in marks)
        if len(pos) != 1:
            ctx.oracle_fail("after PLAY the tracks are not at one position", play, str(marks), "one common position", input_text=play)
            continue
        P = pos.pop()
        if P < max(ends + [c["S"]]):
            ctx.oracle_fail("after PLAY the tracks stand before the end of a part", play, "all at %d" % P,
                            "not before %d (part ends %s, start %d)" % (max(ends + [c["S"]]), ends, c["S"]), input_text=play)
        key = "play:at_longest_end" if P == max(ends + [c["S"]]) else "play:beyond_longest_end"
        ctx.dist[key] = ctx.dist.get(key, 0) + 1


def gen_play(rng):
    t = rng.choice([0, 0, 1, 3])
    pre = mmlgen.block(rng, 1, rng.randrange(0, 4), PART_FEATS) + " " if rng.random() < 0.7 else ""
    parts = [mmlgen.block(rng, 1, rng.randrange(1, 7), PART_FEATS).strip() + " " for _ in range(rng.randrange(1, 5))]
    # an argument slot left EMPTY (`PLAY({a},,{c})`): its track gets nothing, the later parts keep THEIR track numbers
    # (only interior slots: a trailing empty slot is not claimed)
    if len(parts) >= 2 and rng.random() < 0.3:
        for k in range(len(parts) - 1):
            if rng.random() < 0.5:
                parts[k] = None
    c = {"t": t, "pre": pre, "parts": parts}
    if rng.random() < 0.4:
        # something was written to some of the part tracks before: they stand ahead of (or behind) the calling track,
        # and every part still starts at the caller's position
        ks = [k for k in range(1, len(parts) + 1) if k != t and rng.random() < 0.6]
        c["ahead"] = "".join("TR(%d) %s " % (k, mmlgen.block(rng, 1, rng.randrange(1, 6), PART_FEATS).strip()) for k in ks)
    return c


# ---- corpus: sources with the notes the property text prescribes ----
def check_corpus(ctx):
    p = os.path.join(vlib.VERIF, "corpus", "C12.jsonl")
    items = [json.loads(l) for l in open(p, encoding="utf-8") if l.strip()] if os.path.exists(p) else []
    if not items:
        return
    srcs = [o["src"] for o in items]
    got, bodies, decs = compile_all(ctx, srcs)
    for o, g, d in zip(items, got, decs):
        ctx.count("corpus", o["src"])
        if d is None:
            undecodable(ctx, o["src"], g)
            continue
        for trk, want in o["notes"].items():
            i = int(trk)
            have = d[i].notes if i < len(d) else None
            want = sorted((tuple(n) for n in want), key=lambda n: (n[2], n[0], n[1], n[3], n[4]))
            if have != want:
                ctx.oracle_fail(o.get("what", "corpus source") + " (track %d)" % i, o["src"], str(have)[:400], str(want)[:400], input_text=o["src"])


def run(ctx):
    rng = ctx.rng
    check_corpus(ctx)
    n = 250 if ctx.tier == "quick" else 8000
    progs = []
    for _ in range(n):
        blocks = gen_blocks(rng, TRACKS)
        progs.append((blocks, interleave(rng, blocks)))
        g = grouped(blocks)
        if g is not None and rng.random() < 0.5:
            # what stands between two blocks of one track - a track switch and back, or nothing - changes nothing on that track
            # (a tie left open at the end of a block is still open when the track's next block comes)
            progs.append((blocks, g))
    check_permute(ctx, progs, "generated")
    check_sync(ctx, [gen_blocks(rng, LOW_TRACKS) for _ in range(n)], "generated")
    check_play(ctx, [gen_play(rng) for _ in range(n)], "generated")


def replay(ctx, obj):
    f = obj.get("failure") or {}
    src = f.get("input")
    if src:
        for s in src.split("\n--- reordered ---\n"):
            print(ctx.impl(["compile_lex\t%s" % vlib.enc_text(s)]), ctx.model(["compile_core\t%s" % vlib.enc_text(s)]))
