"""C20 - the MIDI dump lists every event of a compiled file at its true position.
Theorems: props/C20.v. Correspondence: model dump text vs midi::dump_midi(bytes, false) on compiler outputs,
on constructed songs written by midi::generate, and on damaged copies of both (error paths, panics), plus the
delta-time reader on raw byte strings. Oracle (independent of the dump model): the same bytes are decoded with
the extracted SMF specification decoder (core driver: container / decode_track); the implementation's dump text
must have one TIME( line per decoded message, at the position the C20_position formula gives for the decoded
absolute tick, showing the decoded values; and a note placed with TIME(m:b:t) must be listed at TIME(m:b:t)."""
import json, os, re
import vlib, evgen, mmlgen

COQ_TARGET = "props/C20.v"
THEOREMS = ["C20_vlq_reader", "C20_position", "C20_time_roundtrip", "C20_lines", "C20_file", "C20_position_spec", "C20_printers"]
DRIVERS = ["dump", "core"]
RULE = ("compiler outputs for core-language programs, the sample songs and their mutations, TimeBase/TimeSignature/TIME "
        "programs (signatures 2..64 / 2,4,8,16, time bases 48..32767, measures up to 2000); constructed songs written by "
        "midi::generate with every event kind in its valid range, 1..17 tracks, deltas 0, 1, 0x7F, 0x80, 0x3FFF, 0x4000, "
        "2^21-1, 2^21, 2^28-1; truncated / byte-flipped copies (correspondence only); raw delta byte strings. "
        "non-trivial = distinct file whose dump has at least 3 event lines")
TRUSTED = ["f32 beat length (timebase as f32 * 4.0 / deno as f32) as usize is modelled in exact arithmetic 4*timebase/deno: "
           "timebase < 2^16 and deno = 2^dd <= 2^30 make every intermediate exact in f32 (sampled by the correspondence up to "
           "timebase 32767 / deno 2^30)",
           "String::from_utf8 accepts exactly the well-formed sequences of Unicode Table 3-7 (model/Dump.v utf8_decode)",
           "SMF 1.0 grammar as written in spec/SmfSpec.v (the oracle's decoder)"]
ASSUMES = ["one time signature per file: signature events sit at tick 0 and precede, in file order, every event after tick 0",
           "meta payloads shorter than 128 bytes (the compiler cuts texts there); SysEx payloads are 7-bit and end in F7",
           "DirectSMF payloads that are not themselves well-formed events are outside the oracle (decoder rejects the file)"]

NOTE_NAMES = ["c", "c#", "d", "d#", "e", "f", "f#", "g", "g#", "a", "a#", "b"]
META_NAMES = {1: "TEXT", 2: "COPYRIGHT", 3: "TRACK_NAME", 4: "INSTRUMENT_NAME", 5: "LYRIC", 6: "MARKER", 7: "CUE_POINT"}
TIME_RE = re.compile(r"^TIME\((\d{3,}):(\d{3,}):(\d{3,})\) (.*)$", re.S)
ITEM_RE = re.compile(r"^(\d+):(\w+)\(([^)]*)\)$")


# ------------------------------------------------------------------------------------------------
# the oracle
# ------------------------------------------------------------------------------------------------
def unhex(h):
    return b"" if h == "-" else bytes.fromhex(h)


def parse_items(s):
    """'0:NoteOn(0,60,100) 95:NoteOff(0,60,100) ...' -> [(delta, kind, args)]"""
    out = []
    for tok in s.split(" "):
        m = ITEM_RE.match(tok)
        if not m:
            return None
        args = m.group(3).split(",")
        out.append((int(m.group(1)), m.group(2), args))
    return out


def note_dec(k):
    return "o%d%s" % (k // 12, NOTE_NAMES[k % 12])


def read_text(b):
    try:
        return b.decode("utf-8")
    except UnicodeDecodeError:
        return b.decode("latin-1")


def expected_desc(kind, args):
    """what the line must show for a decoded message; None = not checked"""
    if kind in ("NoteOn", "NoteOff", "CC", "PolyAT", "Bend"):
        c, a, b = int(args[0]), int(args[1]), int(args[2])
        if kind == "NoteOn":
            return "NoteOn($%02x,$%02x)  // %s,,%d" % (a, b, note_dec(a), b)
        if kind == "NoteOff":
            return "NoteOff($%02x,$%02x) // %s" % (a, b, note_dec(a))
        if kind == "CC":
            return "CC($%02x,$%02x)" % (a, b)
        if kind == "PolyAT":
            return "DirectSMF($%02x,$%02x,$%02x)" % (0xA0 + c, a, b)
        v = (b << 7 | a) - 8192
        return "PitchBend(%d) /* p%d */" % (v, b)
    if kind == "Program":
        c, p = int(args[0]), int(args[1])
        return "Voice(%d) // $%02x,$%02x" % (p + 1, 0xC0 + c, p)
    if kind == "ChanAT":
        c, p = int(args[0]), int(args[1])
        return "DirectSMF($%02x,$%02x) // Channel after touch" % (0xD0 + c, p)
    if kind == "Meta":
        ty, payload = int(args[0]), unhex(args[1])
        if len(payload) >= 128:
            return None
        if ty == 0x2F:
            return "/* __END_OF_TRACK__ */" if len(payload) == 0 else None
        if ty == 0x51:
            if len(payload) != 3:
                return None
            mpq = payload[0] << 16 | payload[1] << 8 | payload[2]
            return "Tempo=%d" % (60000000 // mpq if mpq else 0)
        if ty == 0x58:
            if len(payload) < 2 or payload[1] > 30:
                return None
            return "TimeSig=%d/%d" % (payload[0], 2 ** payload[1])
        if ty in META_NAMES:
            return "%s{%s};" % (META_NAMES[ty], read_text(payload))
        return "// Meta Type=$%02x Length=%d Text={%s};" % (ty, len(payload), read_text(payload))
    if kind == "SysEx":
        payload = unhex(args[0])
        if not payload or len(payload) >= 128 or payload[-1] != 0xF7 or 0xF7 in payload[:-1]:
            return None
        return "SysEx$=F0,/*len:%02X*/%s;" % (len(payload), ",".join("%02X" % b for b in payload))
    return None


def position(tick, tb, num, den):
    beat = 4 * tb // den
    base = tick // beat
    return base // num + 1, base % num + 1, tick % beat


def oracle_files(ctx, files, origin):
    """files: list of (label, hexbytes, implementation dump field). Applies the oracle to every file the
    specification decoder accepts."""
    cont = ctx.model(["container\t%s" % f[1] for f in files], driver="core")
    lines, owner = [], []
    heads = {}
    for i, ((label, hx, dump), c) in enumerate(zip(files, cont)):
        f = c.split("\t")
        if f[0] != "OK":
            ctx.dist["oracle_skipped_not_a_container"] = ctx.dist.get("oracle_skipped_not_a_container", 0) + 1
            continue
        bodies = f[5].split("/") if len(f) > 5 and f[5] else []
        heads[i] = (int(f[1]), int(f[2]), int(f[3]), len(bodies))
        for b in bodies:
            lines.append("decode_track\t%s" % b)
            owner.append(i)
    dec = ctx.model(lines, driver="core") if lines else []
    tracks = {}
    for i, r in zip(owner, dec):
        tracks.setdefault(i, []).append(r)
    for i, (label, hx, dump) in enumerate(files):
        if i not in heads:
            continue
        fmt, ntr, tb, nb = heads[i]
        decoded = []
        ok = True
        for r in tracks.get(i, []):
            f = r.split("\t")
            items = parse_items(f[0]) if f[0] != "DECODE-FAIL" else None
            if items is None:
                ok = False
                break
            ticks = [int(x) for x in f[1].split(",")]
            decoded.append(list(zip(ticks, items)))
        if not ok:
            ctx.dist["oracle_skipped_track_not_decodable"] = ctx.dist.get("oracle_skipped_track_not_decodable", 0) + 1
            continue
        check_file(ctx, label, hx, dump, tb, decoded, origin)


def check_file(ctx, label, hx, dump, tb, decoded, origin):
    case = "dump\t%s" % hx[:3000]
    if dump in ("PANIC", "HANG", "ABORT", "MISSING"):
        ctx.oracle_fail("dump_midi does not return on a well-formed file (%s)" % dump, case, dump,
                        "one line per event", input_text=label)
        return
    text = vlib.dec_text(dump)
    # payload bytes that would break the line structure of the text
    for tr in decoded:
        for _, (_, kind, args) in tr:
            if kind == "Meta" and b"\nTIME(" in unhex(args[1]):
                ctx.dist["oracle_skipped_newline_in_text"] = ctx.dist.get("oracle_skipped_newline_in_text", 0) + 1
                return
    rows = text.split("\n")
    if rows and rows[-1] == "":
        rows.pop()
    if rows[:1] != ["// ----- MIDI DUMP DATA -----"] or "TIMEBASE=%d" % tb not in rows[:5] or \
            "/// [MThd] track_count=%d" % len(decoded) not in rows[:5]:
        ctx.oracle_fail("dump header does not show the file's track count / time base", case, rows[:5],
                        ["track_count=%d" % len(decoded), "TIMEBASE=%d" % tb], input_text=label)
        return
    sections, cur = [], None
    for r in rows[4:]:
        if r == "// ----- TRACK -----":
            cur = []
            sections.append(cur)
        elif cur is not None:
            # a text payload may contain line feeds: such a row continues the previous line
            if cur and len(cur) > 1 and not TIME_RE.match(r):
                cur[-1] += "\n" + r
            else:
                cur.append(r)
    if len(sections) != len(decoded):
        ctx.oracle_fail("number of TRACK sections differs from the number of chunks", case, len(sections), len(decoded),
                        input_text=label)
        return
    # one time signature per file, in front (in file order) of everything after tick 0
    sigs = []
    for ti, tr in enumerate(decoded):
        for tick, (_, kind, args) in tr:
            if kind == "Meta" and int(args[0]) == 0x58:
                sigs.append((ti, tick, args[1]))
    pos_ok = all(s[1] == 0 for s in sigs) and len(set(s[2] for s in sigs)) <= 1
    num, den = 4, 4
    if sigs and pos_ok:
        p = unhex(sigs[0][2])
        if len(p) != 4 or p[0] < 1 or p[1] > 30:
            pos_ok = False
        else:
            num, den = p[0], 2 ** p[1]
            last = max(s[0] for s in sigs)
            if any(tick > 0 for tr in decoded[:last] for tick, _ in tr):
                pos_ok = False
    if pos_ok and 4 * tb // den == 0:
        pos_ok = False
    if not pos_ok:
        ctx.dist["position_oracle_skipped_signature_layout"] = ctx.dist.get("position_oracle_skipped_signature_layout", 0) + 1
    nlines = 0
    for ti, (sec, tr) in enumerate(zip(sections, decoded)):
        if sec[:1] != ["TRACK(%d)" % ti]:
            ctx.oracle_fail("track section %d is not introduced by TRACK(%d)" % (ti, ti), case, sec[:1], "TRACK(%d)" % ti,
                            input_text=label)
            return
        tl = [TIME_RE.match(r) for r in sec[1:]]
        if any(m is None for m in tl) or len(tl) != len(tr):
            ctx.oracle_fail("track %d: number of TIME( lines differs from the number of events in the file" % ti, case,
                            "%d lines: %s" % (len(sec) - 1, sec[1:8]), "%d events: %s" % (len(tr), tr[:8]), input_text=label)
            return
        for k, (m, (tick, (_, kind, args))) in enumerate(zip(tl, tr)):
            nlines += 1
            if pos_ok:
                want = "%03d:%03d:%03d" % position(tick, tb, num, den)
                got = "%s:%s:%s" % (m.group(1), m.group(2), m.group(3))
                if got != want:
                    ctx.oracle_fail("track %d line %d: position differs from the event's tick %d under %d/%d, time base %d"
                                    % (ti, k, tick, num, den, tb), case, sec[1 + k], "TIME(%s) ..." % want, input_text=label)
                    return
            want = expected_desc(kind, args)
            if want is not None and m.group(4) != want:
                ctx.oracle_fail("track %d line %d: shown values differ from the event in the file" % (ti, k), case,
                                m.group(4), want, input_text=label)
                return
    ctx.count(origin, hx if nlines >= 3 else None)
    ctx.dist["event_lines_checked"] = ctx.dist.get("event_lines_checked", 0) + nlines
    if pos_ok:
        ctx.dist["files_with_position_oracle"] = ctx.dist.get("files_with_position_oracle", 0) + 1


# ------------------------------------------------------------------------------------------------
# correspondence
# ------------------------------------------------------------------------------------------------
def correspond(ctx, lines, kind):
    got = ctx.impl(lines, stall=30)
    mod = ctx.model(lines, stall=120)
    for line, g, m in zip(lines, got, mod):
        if m.startswith("UNSUPPORTED") or m.startswith("BAD:"):
            ctx.unsupported += 1
        elif g != m:
            ctx.disagree(kind, line[:4000], show(g)[:600], show(m)[:600])
    return got


def show(field):
    if "," in field and "\t" not in field:
        try:
            return vlib.dec_text(field)
        except ValueError:
            return field
    return field


def compile_sources(ctx, srcs):
    got = ctx.impl(["compile_ev\t%s" % vlib.enc_text(s) for s in srcs], stall=20)
    out = []
    for s, g in zip(srcs, got):
        f = g.split("\t")
        if len(f) < 4:
            ctx.dist["compile_" + g[:12]] = ctx.dist.get("compile_" + g[:12], 0) + 1
            continue
        out.append((s, f[0], int(f[1])))
    return out


def dump_and_check(ctx, files, origin, oracle=True):
    """files: (label, hex). correspondence on the dump text, then the oracle on the implementation's text"""
    lines = ["dump\t%s" % hx for _, hx in files]
    got = correspond(ctx, lines, "dump")
    if oracle:
        oracle_files(ctx, [(label, hx, g) for (label, hx), g in zip(files, got)], origin)
    else:
        for (label, hx), g in zip(files, got):
            ctx.count(origin, None)
            key = "damaged_" + (g if g in ("PANIC", "HANG", "ABORT") else "text")
            ctx.dist[key] = ctx.dist.get(key, 0) + 1
    return got


# ------------------------------------------------------------------------------------------------
# generators
# ------------------------------------------------------------------------------------------------
DELTAS = [0, 0, 1, 10, 96, 126, 127, 127, 128, 128, 129, 255, 256, 480, 16383, 16384, 16385, 2 ** 21 - 1, 2 ** 21, 2 ** 28 - 1]
TEXT_BYTES = list(range(32, 127)) + [0xE3, 0x81, 0x82, 0xC3, 0xA9, 0xFF, 0x80, 0xF0, 0x9F, 0x98, 0x80, 0, 9, 0xED, 0xA0]


def valid_event(rng, time, first):
    k = rng.random()
    ch = rng.randrange(16)
    v = lambda: rng.choice([0, 1, 63, 64, 100, 126, 127, rng.randrange(128)])
    if k < 0.06:
        # raw bytes that are a well-formed channel message of a kind no command writes: poly / channel aftertouch, program
        raw = rng.choice([[0xD0 | ch, v()], [0xA0 | ch, v(), v()], [0xC0 | ch, v()], [0xD0 | ch, v()]])
        return "D:%d:0:0:0:0:%s" % (time, evgen.hexs(raw))
    if k < 0.30:
        return "N:%d:%d:%d:%d:%d:-" % (time, ch, v(), rng.choice([0, 1, 48, 96, 127, 128, 200, 20000]), v())
    if k < 0.45:
        return "C:%d:%d:%d:%d:0:-" % (time, ch, v(), v())
    if k < 0.53:
        return "V:%d:%d:%d:0:0:-" % (time, ch, v())
    if k < 0.63:
        return "P:%d:%d:%d:0:0:-" % (time, ch, rng.choice([0, 1, 8191, 8192, 8193, 16383, rng.randrange(16384)]))
    if k < 0.69:
        return "R:%d:%d:%d:0:0:-" % (time, ch, rng.choice([0, 2, 12, 24]))
    if k < 0.76:
        mpq = rng.choice([500000, 1, 0, 0, 60000000 // 120, 0xFFFFFF, 60000001 & 0xFFFFFF, rng.randrange(1, 1 << 24)])
        return "M:%d:0:255:81:3:%06x" % (time, mpq)
    if k < 0.88:
        n = rng.choice([0, 1, 3, 10, 50, 127])
        ty = rng.choice([1, 2, 3, 4, 5, 6, 7, 0x21, 0x7F, 0x20, 0x59])
        data = [rng.choice(TEXT_BYTES) for _ in range(n)]
        if rng.random() < 0.5:
            data = list("".join(rng.choice(["a", "Z", "é", "あ", "😀", " ", "{", "}"]) for _ in range(n)).encode("utf-8"))[:127]
            n = len(data)
        return "M:%d:0:255:%d:%d:%s" % (time, ty, n, evgen.hexs(data))
    n = rng.choice([0, 1, 4, 20, 100, 125, 126, 127, 200, 400])   # 127.. : two-byte length (count / position oracle only)
    data = [0xF0] + [rng.randrange(128) for _ in range(n)] + [0xF7]
    return "S:%d:0:0:0:0:%s" % (time, evgen.hexs(data))


def valid_song(rng):
    ntr = rng.choice([1, 1, 2, 3, 5, 17])
    tb = rng.choice([48, 96, 96, 480, 960, 32767, 1, 100, 7])
    sig = None
    if rng.random() < 0.5:
        sig = (rng.choice([1, 2, 3, 4, 5, 6, 7, 9, 12, 64, 127]), rng.choice([0, 1, 2, 3, 4, 5, 8]))
    tracks = []
    for ti in range(ntr):
        evs = []
        t = 0
        if sig and ti == 0:
            evs.append("M:0:0:255:88:4:%02x%02x1808" % sig)
        for j in range(rng.choice([0, 1, 2, 5, 12, 30])):
            t += rng.choice(DELTAS) if rng.random() < 0.75 else rng.randrange(0, 3000)
            evs.append(valid_event(rng, t, False))
        tracks.append(";".join(evs) or "-")
    return tb, "/".join(tracks)


def time_program(rng):
    tb = rng.choice([48, 96, 96, 192, 480, 960, 100, 32767, rng.randrange(48, 2000)])
    n = rng.choice([2, 3, 4, 5, 6, 7, 9, 12, 64, rng.randrange(2, 65)])
    d = rng.choice([2, 4, 4, 8, 16])
    beat = 4 * tb // d
    m = rng.choice([1, 2, 3, 10, 99, 100, 999, 1000, 2000, rng.randrange(1, 300)])
    b = rng.choice([1, n, rng.randrange(1, n + 1)])
    t = rng.choice([0, beat - 1, rng.randrange(0, beat)])
    src = "TimeBase(%d) TimeSignature(%d,%d) TIME(%d:%d:%d) c" % (tb, n, d, m, b, t)
    return src, (m, b, t)


def damage(rng, hx):
    b = bytearray(unhex(hx))
    if not b:
        return "-"
    k = rng.random()
    if k < 0.4:
        b = b[:rng.randrange(0, len(b))]
    elif k < 0.8:
        for _ in range(rng.choice([1, 1, 2, 4])):
            i = rng.randrange(len(b))
            b[i] = rng.choice([0, 0x7F, 0x80, 0xFF, 0xF0, 0xF7, 0x2F, 0x51, 0x58, 31, 30, rng.randrange(256)])
    elif k < 0.9:
        i = rng.randrange(len(b))
        del b[i:i + rng.randrange(1, 4)]
    else:
        i = rng.randrange(len(b))
        b[i:i] = bytes(rng.randrange(256) for _ in range(rng.randrange(1, 4)))
    return b.hex() or "-"


def corpus():
    p = os.path.join(vlib.VERIF, "corpus", "C20.jsonl")
    out = []
    if os.path.exists(p):
        for line in open(p, encoding="utf-8"):
            if line.strip():
                out.append(json.loads(line))
    return out


# ------------------------------------------------------------------------------------------------
def run(ctx):
    rng = ctx.rng
    quick = ctx.tier == "quick"
    # ---- corpus first ----
    cp = corpus()
    files = [(s, hx) for s, hx, tb in compile_sources(ctx, [o["src"] for o in cp if "src" in o])]
    files += [("hex:" + o["hex"], o["hex"]) for o in cp if "hex" in o]
    dump_and_check(ctx, files, "corpus")
    dl = ["read_delta\t%s" % o["delta"] for o in cp if "delta" in o]
    for o, g in zip([o for o in cp if "delta" in o], correspond(ctx, dl, "read_delta")):
        ctx.count("corpus", None)
        if "value" in o and g != "%d\t%d" % (o["value"], o["used"]):
            ctx.oracle_fail("array_readl_delta_time misreads a delta time", "read_delta\t" + o["delta"], g,
                            "%d\t%d" % (o["value"], o["used"]), input_text="delta:" + o["delta"])

    # ---- the delta reader on what the writer produces and on raw bytes ----
    n = 300 if quick else 20000
    vals = [0, 1, 126, 127, 128, 129, 255, 16383, 16384, 2 ** 21 - 1, 2 ** 21, 2 ** 28 - 1] + \
           [rng.randrange(0, 2 ** rng.choice([7, 8, 14, 15, 21, 22, 28])) for _ in range(n)]
    lines = []
    for v in vals:
        bs, x = [v & 0x7F], v >> 7
        while x:
            bs.insert(0, 0x80 | x & 0x7F)
            x >>= 7
        lines.append(("read_delta\t%s%s" % (bytes(bs).hex(), bytes(rng.randrange(256) for _ in range(rng.randrange(0, 3))).hex()),
                      v, len(bs)))
    got = correspond(ctx, [l[0] for l in lines], "read_delta")
    for (line, v, k), g in zip(lines, got):
        ctx.count("delta_reader", None)
        if g != "%d\t%d" % (v, k):
            ctx.oracle_fail("array_readl_delta_time does not return the encoded delta", line, g, "%d\t%d" % (v, k),
                            input_text="delta:%d" % v)
    raw = ["read_delta\t%s" % (bytes(rng.choice([0x7F, 0x80, 0xFF, 0x81, 0, rng.randrange(256)])
                                     for _ in range(rng.randrange(0, 14))).hex() or "-") for _ in range(n)]
    correspond(ctx, raw, "read_delta")
    for _ in raw:
        ctx.count("delta_reader_raw", None)

    # ---- (a) compiler outputs ----
    n = 250 if quick else 8000
    srcs = [mmlgen.core_program(rng) for _ in range(n)]
    srcs += mmlgen.samples()
    srcs += [mmlgen.mutate(rng, s) for s in mmlgen.samples() for _ in range(3 if quick else 60)]
    srcs += ["q100 l%127 c d", "l%128 c d", "l%16383 c l%16384 d l%2097152 e", "TR(3) c TR(1) d TR(2) e", "@128 c", "PB(8191) c p(0) d",
             "TrackName={\"abc\"} c", "Copyright={\"(c) あ\"} c", "Tempo(1) c", "Tempo(300) c", "TimeSignature(6,8) l8 cdefgab",
             "TimeSignature(3,4) TR(2) r1 c", "SysEx$=F0,41,10,42,12,40,00,7F,00,41,F7 c", "BR(12) c", "y1,127 c", "M(64) c",
             "c DirectSMF($D0,$40) d e", "c DirectSMF($A1,60,$40) d e", "TR(2) c DirectSMF($C1,5) d DirectSMF($D1,0) e DirectSMF($D1,127)"]
    # tempo values up to a bpm so large that the file says 0 microseconds per quarter
    for _ in range(12 if quick else 400):
        bpm = rng.choice([1, 2, 10, 300, 301, 59999999, 60000000, 60000001, 10 ** 9, 2 ** 40, -1, 0, rng.randrange(1, 2 ** 34)])
        srcs.append(rng.choice(["TempoChange(%d) c", "TempoChange(120,%d,1) c d", "Tempo(%d) c", "c TempoChange(%d) d", "TR(2) TempoChange(%d) c"]) % bpm)
    comp = compile_sources(ctx, srcs)
    files = [(s, hx) for s, hx, tb in comp]
    dumps = dump_and_check(ctx, files, "compiled")
    for (s, hx), g in list(zip(files, dumps))[:2]:
        ctx.sample({"source": s[:120], "bytes": hx[:120], "dump": show(g)[:400]})

    # ---- an End-of-Track written in mid-track (raw bytes): the dump goes on to the end of the chunk - every later event and every
    #      later track is still listed (the container, not a meta event inside it, says where a track ends) ----
    eots = [("TR=1 c4 DirectSMF($FF,$2F,$00) d4 e4 TR=2 g1", 4, 3), ("c DirectSMF($FF,$2F,$00) d", 2, 1),
            ("TR(2) DirectSMF($FF,$2F,$00) c d e TR(1) f", 4, 3), ("l8 c d DirectSMF($FF,$2F,$00) e DirectSMF($FF,$2F,$00) f", 4, 1)]
    comp = compile_sources(ctx, [e[0] for e in eots])
    want = {e[0]: e for e in eots}
    files = [(s_, hx) for s_, hx, tb in comp]
    for (s_, hx), g in zip(files, dump_and_check(ctx, files, "raw_end_of_track", oracle=False)):
        rows = show(g).split("\n")
        notes, tracks = sum(1 for r in rows if " NoteOn(" in r), sum(1 for r in rows if r.startswith("TRACK("))
        ctx.count("raw_end_of_track", s_)
        if (notes, tracks) != (want[s_][1], want[s_][2]) or any("[ERROR]" in r for r in rows):
            ctx.oracle_fail("an End-of-Track written in mid-track: not every later event / track is listed", "dump\t" + hx,
                            "%d note lines, %d tracks%s" % (notes, tracks, ", error lines" if any("[ERROR]" in r for r in rows) else ""),
                            "%d note lines, %d tracks, no error line" % (want[s_][1], want[s_][2]), input_text=s_)

    # ---- TIME(m:b:t) round trip ----
    progs = [time_program(rng) for _ in range(200 if quick else 6000)]
    comp = compile_sources(ctx, [p[0] for p in progs])
    want = dict(progs)
    files = [(s, hx) for s, hx, tb in comp]
    dumps = dump_and_check(ctx, files, "time_roundtrip")
    for (s, hx), g in zip(files, dumps):
        m, b, t = want[s]
        rows = [r for r in show(g).split("\n") if " NoteOn(" in r]
        exp = "TIME(%03d:%03d:%03d) NoteOn($3c,$64)  // o5c,,100" % (m, b, t)
        if rows[:1] != [exp]:
            ctx.oracle_fail("a note placed with TIME(%d:%d:%d) is not listed there" % (m, b, t), "dump\t" + hx,
                            rows[:1], exp, input_text=s)
    if comp:
        ctx.sample({"source": files[0][0], "dump": show(dumps[0])[-200:]})

    # ---- (b) constructed songs through midi::generate ----
    songs = [valid_song(rng) for _ in range(250 if quick else 8000)]
    gl = ["generate\t%d\t%s" % s for s in songs]
    gen = ctx.impl(gl)
    files = [(l[:3000], g) for l, g in zip(gl, gen) if g not in ("PANIC", "HANG", "ABORT", "MISSING")]
    dumps = dump_and_check(ctx, files, "constructed")
    if files:
        ctx.sample({"constructed": files[0][0][:200], "dump": show(dumps[0])[:300]})

    # ---- damaged files: correspondence only ----
    base = [hx for _, hx in files[:120 if quick else 3000]] + [hx for _, hx, _ in comp[:60 if quick else 1500]]
    dam = [("damaged", damage(rng, hx)) for hx in base for _ in range(2)]
    dump_and_check(ctx, dam, "damaged", oracle=False)


def replay(ctx, obj):
    """re-runs the failing input through implementation, model and oracle"""
    f = obj.get("failure") or {}
    inp = f.get("input")
    print("replay: input =", repr(inp)[:500])
    hx = None
    if isinstance(inp, str):
        if inp.startswith("hex:"):
            hx = inp[4:]
        elif inp.startswith("delta:"):
            line = f.get("case")
            print("implementation:", ctx.impl([line])[0], " model:", ctx.model([line])[0], " expected:", f.get("expected"))
        elif inp.startswith("generate\t"):
            hx = ctx.impl([inp])[0]
        else:
            comp = compile_sources(ctx, [inp])
            hx = comp[0][1] if comp else None
    if hx:
        files = [(inp, hx)]
        got = dump_and_check(ctx, files, "replay")
        print("bytes:", hx[:2000])
        print("implementation dump:\n" + show(got[0])[:4000])
    for d in obj.get("broken_correspondence", [])[:2]:
        line = d.get("case")
        print("correspondence:", str(d)[:1500])
        if isinstance(line, str) and "\t" in line:
            correspond(ctx, [line], line.split("\t")[0])
