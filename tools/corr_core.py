"""Development tool (not a registered check): correspondence of the pipeline model (`compile_core`) with the
implementation (`compile_lex`) on generated sources, with the UNSUPPORTED rate per source family.
   python3 tools/corr_core.py [N] [seed]
Exit status 1 when any pair disagrees."""
import os
import random
import sys
import collections
import tempfile

sys.path.insert(0, os.path.dirname(os.path.abspath(__file__)))
import vlib
import mmlgen


def main():
    n = int(sys.argv[1]) if len(sys.argv) > 1 else 3000
    seed = int(sys.argv[2]) if len(sys.argv) > 2 else 1
    rng = random.Random(seed)
    fams = []
    for _ in range(n):
        fams.append(("core", mmlgen.core_program(rng)))
    if hasattr(mmlgen, "ext_program"):
        for _ in range(n):
            fams.append(("ext", mmlgen.ext_program(rng)))
    if hasattr(mmlgen, "pipe_program"):
        for _ in range(n):
            fams.append(("pipe", mmlgen.pipe_program(rng)))
    smp = mmlgen.samples()
    for s in smp:
        fams.append(("samples", s))
    for _ in range(n // 4):
        s = rng.choice(smp)
        for _ in range(rng.randrange(1, 4)):
            s = mmlgen.mutate(rng, s)
        fams.append(("sample-mut", s))
    for _ in range(n // 4):
        fams.append(("junk", mmlgen.junk_program(rng)))
    srcs = [s.replace("\t", " ") for _, s in fams]
    rundir = tempfile.mkdtemp(prefix="corr_core_")
    impl = vlib.run_cases(vlib.harness_bin(), ["compile_lex\t" + vlib.enc_text(s) for s in srcs], rundir, "impl")
    model = vlib.run_cases(os.path.join(vlib.OCAML, "core_driver.bin"), ["compile_core\t" + vlib.enc_text(s) for s in srcs], rundir, "model", stall=60.0)
    tot = collections.Counter()
    uns = collections.Counter()
    why = collections.Counter()
    bad = []
    for (fam, _), s, i, m in zip(fams, srcs, impl, model):
        tot[fam] += 1
        if m.startswith("UNSUPPORTED") or m.startswith("OUTOFFUEL"):
            uns[fam] += 1
            why[m] += 1
            continue
        if i != m:
            bad.append((fam, s, i, m))
    for fam in tot:
        print("%-11s cases=%6d unsupported=%6d rate=%.3f" % (fam, tot[fam], uns[fam], uns[fam] / tot[fam]))
    print("unsupported kinds:", dict(why))
    print("disagreements:", len(bad))
    for fam, s, i, m in sorted(bad, key=lambda b: len(b[1]))[:8]:
        print("--", fam, repr(s))
        if len(i) < 400 and len(m) < 400:
            print("   impl :", i)
            print("   model:", m)
        else:
            ii, mm = i.split("\t"), m.split("\t")
            print("   impl  bytes %d, model bytes %d, equal bytes: %s" % (len(ii[0]), len(mm[0]), ii[0] == mm[0]))
            if len(ii) > 1 and len(mm) > 1 and ii[1] != mm[1]:
                print("   impl log :", vlib.dec_text(ii[1])[:600])
                print("   model log:", vlib.dec_text(mm[1])[:600])
            if ii[0] != mm[0]:
                k = next((x for x in range(min(len(ii[0]), len(mm[0]))) if ii[0][x] != mm[0][x]), None)
                print("   first difference at hex offset", k, ii[0][max(0, (k or 0) - 20):(k or 0) + 40], mm[0][max(0, (k or 0) - 20):(k or 0) + 40])
    return 1 if bad else 0


if __name__ == "__main__":
    sys.exit(main())
