"""Generators of MML sources. Every choice comes from the rng passed in (one PRNG per check run, seeded by
VERIF_SEED), so disagreements replay exactly. `core_program` yields mostly-valid programs of the core
note language; `junk_program` yields malformed / arbitrary text; `samples` returns the songs shipped in
/repo/samples (and their mutations)."""
import os

NOTES = "cdefgab"
LENS = ["", "", "", "4", "8", "16", "2", "1", "4.", "8.", "12", "6", "32", "%24", "%10", "4^8", "8^16.", "2..", "%48^%3"]
SEPS = ["", "", " ", " ", "  ", "\n", "|", ";", "\t", " | "]
COMMENTS = ["// x\n", "/* y */", "## z\n", "# w\n", "#- v\n", "/* c d e */", "// TR(3) v1\n"]


def length(rng):
    return rng.choice(LENS)


def note(rng, allow_tie=False):
    s = rng.choice(NOTES)
    r = rng.random()
    if r < 0.15:
        s += rng.choice(["+", "#", "-", "*", "++", "--"])
    s += length(rng)
    if rng.random() < 0.15:
        # ,q ,v ,t ,o
        parts = []
        n = rng.choice([1, 1, 2, 3, 4])
        pools = [["80", "100", "50", "", "120", "1"], ["100", "127", "64", "", "1", "200"], ["0", "3", "-2", ""], ["4", "6", "", "5"]]
        for i in range(n):
            parts.append(rng.choice(pools[i]))
        s += "," + ",".join(parts)
    if allow_tie and rng.random() < 0.3:
        s += "&"
    return s


def note_n(rng):
    s = "n" + str(rng.choice([60, 36, 38, 42, 72, 0, 127, 64]))
    if rng.random() < 0.5:
        s += "," + rng.choice(["4", "8", "16", "%12"])
    return s + (" " if rng.random() < 0.7 else ",")


def state_cmd(rng):
    k = rng.random()
    if k < 0.18:
        return "l" + rng.choice(["4", "8", "16", "2", "1", "4.", "12", "%30"])
    if k < 0.36:
        return "o" + str(rng.choice([3, 4, 5, 6, 7, 2, 8, 0, 10]))
    if k < 0.52:
        return "v" + str(rng.choice([100, 127, 64, 1, 0, 80, 90, 200]))
    if k < 0.64:
        return "q" + str(rng.choice([100, 90, 50, 10, 1, 120]))
    if k < 0.72:
        return "t" + str(rng.choice([0, 1, 2, 5]))
    if k < 0.82:
        return rng.choice([">", "<", ">", "<", "`", '"'])
    if k < 0.92:
        return rng.choice(["(", ")"])
    return rng.choice(["v++", "v--", "q+10", "v-10", "v+5"])


def block(rng, depth, n_items, feats):
    items = []
    for _ in range(n_items):
        items.append(item(rng, depth, feats))
        if feats.get("seps", True):
            items.append(rng.choice(SEPS))
    return "".join(items)


def item(rng, depth, feats):
    k = rng.random()
    if depth > 0 and k < 0.10 and feats.get("loop", True):
        n = rng.choice(["", "2", "3", "1", "4"])
        body = block(rng, depth - 1, rng.randrange(1, 4), feats)
        if rng.random() < 0.35:
            body += ":" + block(rng, depth - 1, rng.randrange(1, 3), feats)
        return "[" + n + " " + body + "]"
    if depth > 0 and k < 0.16 and feats.get("chord", True):
        inner = "".join(rng.choice([rng.choice(NOTES) + rng.choice(["", "", "+", "-"])] * 6 + ["r", "r8", ">", "<", "l8", "v90"])
                        for _ in range(rng.randrange(1, 5)))
        return "'" + inner + "'" + rng.choice(["", "4", "8", "2", "4,80"])
    if depth > 0 and k < 0.22 and feats.get("tuplet", True):
        inner = "".join(rng.choice(["c", "d", "e", "r", "g", "c^", "a"]) for _ in range(rng.randrange(1, 6)))
        return "{" + inner + "}" + rng.choice(["", "4", "2", "8"])
    if depth > 0 and k < 0.27 and feats.get("sub", True):
        return "Sub{" + block(rng, depth - 1, rng.randrange(1, 4), feats) + "}"
    if k < 0.62:
        return note(rng, feats.get("tie", False))
    if k < 0.70:
        return "r" + length(rng)
    if k < 0.76 and feats.get("note_n", True):
        return note_n(rng)
    if k < 0.94:
        return state_cmd(rng)
    return rng.choice(COMMENTS) if feats.get("comments", True) else " "


def track_cmd(rng, max_track=12):
    k = rng.random()
    if k < 0.5:
        return rng.choice(["TR", "Track", "TRACK"]) + "(%d)" % rng.choice([1, 2, 3, 4, 5, 0, 10, 16, rng.randrange(0, max_track + 1)])
    if k < 0.65:
        return rng.choice(["CH", "Channel"]) + "(%d)" % rng.choice([1, 2, 10, 16, 5])
    if k < 0.85:
        return "@" + str(rng.choice([1, 5, 25, 128, 40])) + " "
    return rng.choice(["Tempo(120)", "TEMPO=90;", "y7,100 ", "M(64)", "V(100)", "P(32)", "EP(90)", "REV(40)",
                       "PB(100)", "p(64)", "BR(12)", "TimeSignature(3,4)", "KeyShift(2)", "TrackKey(-1)",
                       "KF+(fc)", "KF-(b)", "KeyFlag=(0,0,0,0,0,0,0)", "TrackSync;", "TIME(2:1:0)", "Time(1:3:10)", "TIME(96)",
                       "MeasureShift(1)", "TimeSignature(6,8)", "TimeSignature(4)", "TIME(1:2)", "TIME()", "PlayFrom(1:2:0)", "?",
                       "TimeSignature(3,5)", "Tempo(500)", "T(30)"])


def core_program(rng, size=None, feats=None):
    feats = feats or {}
    size = size or rng.choice([3, 6, 10, 20, 40])
    out = []
    if rng.random() < 0.25 and feats.get("timebase", True):
        out.append("TimeBase(%d)\n" % rng.choice([48, 96, 192, 480, 960, 100, 32767, 24, 40000]))
    i = 0
    while i < size:
        if rng.random() < 0.12 and feats.get("tracks", True):
            out.append(track_cmd(rng))
            out.append(rng.choice([" ", "\n", ";"]))
        else:
            n = rng.randrange(1, 6)
            out.append(block(rng, feats.get("depth", 3), n, feats))
            i += n
        i += 1
    return "".join(out)


# ---- controllers, bends, RPN/NRPN (pipeline model, step 1) and later extensions --------------------------------
CC_NAMES = ["M", "Modulation", "PT", "PortamentoTime", "V", "MainVolume", "P", "Panpot", "EP", "Expression", "PS",
            "PortamentoSwitch", "REV", "Reverb", "CHO", "Chorus", "VAR", "Variation"]
RPN_NAMES = ["PitchBendSensitivity", "BEND_RANGE", "BendRange", "BR", "FineTune", "CoarseTune", "VibratoRate", "VibratoDepth",
             "VibratoDelay", "FilterCutoff", "FilterResonance", "EGAttack", "EGDecay", "EGRelease"]
CC_VALUES = ["0", "1", "63", "64", "100", "127", "128", "200", "-1", "-5", "$7F", "$40", "0x10", "!4", "!8.", "8191", "16383"]
BEND_VALUES = ["0", "64", "127", "1", "63", "65", "-1", "128", "8191", "-8192", "8192", "100", "-100", "$40", "16383", "-20000"]


def cc_value(rng):
    return rng.choice(CC_VALUES)


def ctrl_cmd(rng):
    """one controller / bend / RPN command, mostly well-formed, with the spellings the readers accept"""
    k = rng.random()
    sp = rng.choice(["", "", "", " "])
    if k < 0.22:
        no = rng.choice(["1", "7", "10", "11", "64", "91", "0", "127", "128", "$5B", ""])
        v = cc_value(rng)
        return "y" + sp + no + rng.choice([",", ",", ", ", " ,", " , "]) + v + rng.choice([" ", ";", "", "\n"])
    if k < 0.34:
        name = rng.choice(["CC", "ControlChange", "CONTROL_CHANGE", "PlayFrom.CtrlChg"])
        no = rng.choice(["1", "7", "10", "11", "64", "91", "0", "127", "200"])
        return name + rng.choice(["(%s,%s)", "(%s, %s)", "( %s ,%s )", "(%s,%s", "%s,%s", "(%s %s)", "(%s,%.0s)"]) % (no, cc_value(rng))
    if k < 0.62:
        name = rng.choice(CC_NAMES)
        v = cc_value(rng)
        return name + rng.choice(["(%s)", "(%s)", "=%s;", "%s ", " (%s)", "( %s )", "(%s", "(%s)", "(%s)", "(%s,1)", "(){0}", "=(%s)"]).replace("{0}", "%.0s") % v
    if k < 0.74:
        v = rng.choice(BEND_VALUES)
        return "p" + rng.choice(["(%s)", "%s ", "=%s;", " %s ", "( %s )", "(%s"]) % v
    if k < 0.84:
        v = rng.choice(BEND_VALUES)
        return rng.choice(["PB", "PitchBend"]) + rng.choice(["(%s)", "=%s;", "%s ", " (%s)", "(%s"]) % v
    if k < 0.93:
        return rng.choice(RPN_NAMES) + rng.choice(["(%s)", "(%s)", " (%s)", "=%s ", "(%s", "(%s)", "(%s)", "(%s,2)", "()%.0s"]) % cc_value(rng)
    if k < 0.97:
        n = rng.choice([3, 3, 3, 2, 4, 1])
        return rng.choice(["RPN", "NRPN"]) + rng.choice(["(%s)", "=%s;", " (%s)"]) % ",".join(cc_value(rng) for _ in range(n))
    return rng.choice(["Voice", "VOICE"]) + rng.choice(["(%s)", "=%s;"]) % ",".join(rng.choice(["1", "5", "128", "0", "40"]) for _ in range(rng.choice([1, 1, 2, 3])))


RES_INTS = ["0", "1", "64", "100", "127", "40", "90", "-1", "-3", "2", "5", "200", "!4", "!8", "!16", "!1", "!2", "48", "24", "96", "$7F", "8191", "-8192"]


def int_array(rng, n=None, kind="any"):
    n = n if n is not None else rng.choice([1, 2, 3, 3, 3, 4, 6, 6, 0])
    pools = {"vel": ["100", "127", "64", "1", "0", "80", "40", "200", "-1"], "oct": ["4", "5", "6", "3", "7", "0", "10", "11", "-1"],
             "len": ["!4", "!8", "!16", "48", "24", "96", "!2", "0", "1", "!4."], "tim": ["0", "1", "-1", "3", "-3", "10"],
             "gate": ["100", "50", "90", "10", "1", "120", "0"]}
    if kind == "ramp":
        vals = []
        for _ in range(rng.choice([1, 1, 2, 3])):
            vals += [rng.choice(["0", "127", "64", "40", "100", "-10", "200", "8191", "-8192"]), rng.choice(["0", "127", "64", "40", "100", "8191", "-100"]),
                     rng.choice(["!4", "!2", "!1", "!8", "96", "48", "10", "1", "0", "-5", "!1^2", "7"])]
        if rng.random() < 0.15:
            vals = vals[:-rng.choice([1, 2])]
    else:
        vals = [rng.choice(pools.get(kind, RES_INTS)) for _ in range(n)]
    sep = rng.choice([",", ",", ", ", " ,"])
    return sep.join(vals)


def arr_form(rng, body):
    return rng.choice(["(%s)", "(%s)", "(%s)", "=%s;", "( %s )", "(%s", " (%s)", "=%s "]) % body


def res_cmd(rng):
    """one reservation command (pipeline model, step 2)"""
    k = rng.random()
    if k < 0.30:
        x, kind = rng.choice([("v", "vel"), ("q", "gate"), ("t", "tim"), ("o", "oct"), ("l", "len")])
        w = rng.choice(["onNote", "onNote", "N", "onCycle", "onCycle", "C"])
        return x + "." + w + arr_form(rng, int_array(rng, kind=kind))
    if k < 0.40:
        return "v." + rng.choice(["onTime", "onTime", "T"]) + arr_form(rng, int_array(rng, kind="ramp"))
    if k < 0.52:
        x = rng.choice(["v", "q", "t", "o", "v", "l"])
        return x + ".Random" + rng.choice(["(%s)", "=%s;", "=%s ", "(%s", " (%s)"]) % rng.choice(["0", "1", "2", "3", "5", "10", "20", "64", "-4", "200"])
    if k < 0.72:
        head = rng.choice(["y7", "y1", "y11", "y10", "y91", "M", "V", "EP", "P", "REV", "Modulation", "Expression", "CC(7)", "y 64"])
        w = rng.choice(["onTime", "onTime", "T", "onNote", "N", "onNoteWave", "W", "onNoteWave"])
        kind = "ramp" if w in ("onTime", "T", "onNoteWave", "W") else "vel"
        return head + "." + w + arr_form(rng, int_array(rng, kind=kind))
    if k < 0.78:
        head = rng.choice(["M", "V", "EP", "y7", "P"])
        return head + ".Frequency" + rng.choice(["(%s)", "=%s;", "(%s"]) % rng.choice(["1", "2", "4", "8", "0", "-1", "24", "96"])
    if k < 0.86:
        head = rng.choice(["PB", "PitchBend", "p", "p"])
        return head + rng.choice([".onTime", ".T"]) + arr_form(rng, int_array(rng, kind="ramp"))
    if k < 0.90:
        head = rng.choice(["M", "V", "EP", "y7"])
        return head + "." + rng.choice(["onCycle", "C", "Sine", "onNoteSine", "onNoteWaveEx", "WE", "Foo", "x"]) + arr_form(rng, int_array(rng))
    if k < 0.95:
        return rng.choice(["Fadein", "Fadeout"]) + rng.choice(["(%s)", "=%s;", "(%s"]) % rng.choice(["1", "2", "0", "-1", "4"])
    return rng.choice(["Cresc", "Decresc", "CRESC", "DECRESC"]) + rng.choice(
        ["(%s)", "=%s;", " %s ", "(%s,100,20)", "=%s,30;", "(%s,,5)", "()%.0s"]) % rng.choice(["!2", "4", "1", "!1", "2.", "", "8^8"])


STR_NAMES = ["A", "B", "Mel", "A01", "X_1", "Bass", "#M", "ZZ"]


def part_text(rng, depth=1, names=True):
    """the text of a PLAY part / a string variable: balanced braces only; the text of a string variable never uses a
    variable (a variable that uses itself is unbounded recursion: the process aborts, which C07 excludes)"""
    n = rng.randrange(1, 6)
    t = block(rng, depth, n, {"sub": True, "tuplet": True, "comments": False})
    if rng.random() < 0.15:
        t = track_cmd(rng) + " " + t
    if names and rng.random() < 0.1:
        t += " " + rng.choice(STR_NAMES)
    return t.replace("//", "/ /")


def play_cmd(rng):
    k = rng.random()
    n = rng.choice([1, 2, 2, 3, 4])
    parts = []
    for _ in range(n):
        r = rng.random()
        if r < 0.8:
            parts.append("{" + part_text(rng) + "}")
        elif r < 0.88:
            parts.append(rng.choice(["1", "60", "", "-3"]))
        else:
            parts.append("{" + rng.choice(["", " ", "c", "r1", "l8"]) + "}")
    sep = rng.choice([",", ", ", " ,\n", ","])
    body = sep.join(parts)
    return rng.choice(["PLAY", "Play"]) + rng.choice(["(%s)", "(%s)", "( %s )", "(%s", " (%s);"]) % body


def str_def(rng):
    name = rng.choice(STR_NAMES + ["", "TR", "Tempo", "c"])
    k = rng.random()
    if k < 0.8:
        val = "{" + part_text(rng, names=False) + "}"
    elif k < 0.9:
        val = rng.choice(["5", "-1", "!4", ""])
    else:
        return rng.choice(["Str ", "STR "]) + name + " "
    return rng.choice(["Str ", "STR ", "Str  ", "STR\t"]) + name + rng.choice([" = ", "=", " =", "= "]) + val + rng.choice(["", " ", "\n", ";"])


def script_item(rng):
    k = rng.random()
    if k < 0.35:
        return play_cmd(rng)
    if k < 0.7:
        return str_def(rng)
    return rng.choice(STR_NAMES) + rng.choice([" ", " ", ";", "\n"])


# ---- text metas, Port, TempoChange, SysEx / resets / universal SysEx / GS effects (pipeline model, step 5) ----
META_NAMES = ["MetaText", "Text", "TEXT", "Copyright", "COPYRIGHT", "TrackName", "TRACK_NAME", "InstrumentName", "Lyric", "LYRIC",
              "MAKER", "Maker", "CuePoint"]
META_TEXTS = ["", "", "a", "abc", "Hello World", "\u3042\u3044\u3046", "\u65e5\u672c\u8a9e\u306e\u30c6\u30ad\u30b9\u30c8", "\u00e9", "\U0001F600",
              "a{b}c", "x" * 126, "x" * 127, "x" * 128, "x" * 200, "\u3042" * 42, "\u3042" * 43, "\u3042" * 50, "\U0001F600" * 31, "\U0001F600" * 32,
              "x" * 125 + "\u3042", "x" * 126 + "\u00e9", "x" * 124 + "\U0001F600", "x" * 123 + "\U0001F600", "line1\nline2", "a b", "12", "-5", "c d e",
              "#?1", "\uff21\uff22", "\u3000", "\u00e9" * 63, "\u00e9" * 64, "a\"b", "(c)", "/* x */", "// y", "a,b", "1+2"]


def meta_cmd(rng):
    name = rng.choice(META_NAMES)
    txt = rng.choice(META_TEXTS)
    k = rng.random()
    if k < 0.70:
        form = rng.choice(['{"%s"}', '{"%s"}', "{%s}", "{%s}", "={%s}", ' = {"%s"}', '("%s")', "({%s})", ' "%s"', '="%s"', "( {%s} )",
                           "{%s", '("%s', '"%s', "({%s}", "({%s},{z})", '{"%s"},1', "{%s} ", "{%s};", "\n{%s}", " (\n{%s}\n)"])
        return name + form % txt
    if k < 0.85:
        return name + rng.choice(["(%s)", "=%s;", " %s ", "(%s", "(%s,2)"]) % rng.choice(["0", "1", "12", "-5", "127", "128", "255", "256", "$7F", "!4", "0x10", "99999"])
    if k < 0.95:
        return name + rng.choice([";", "();", "()", "=;", "(,)", "(;", " ;", "( );", "", "="])      # (a word after the name would be a variable)
    return name + rng.choice(["{a}+{b}", "(A)", "({a}{b})", "(1+1)", "{a} - 1", "=Foo"])


BYTE_VALUES = ["0", "1", "2", "15", "16", "127", "128", "255", "256", "257", "-1", "-128", "-256", "$7F", "$FF", "0x10", "!4", "!1", "65535", "99999999999"]


def arg_form(rng, body, eq=True):
    """the spellings read_upper_command accepts for an 'I' / 'A' argument list"""
    forms = ["(%s)", "(%s)", "(%s)", "( %s )", "(%s", " (%s)", "(%s);"]
    if eq:
        forms += ["=%s;", "=%s ", " = %s ", "%s "]
    return rng.choice(forms) % body


def port_cmd(rng):
    k = rng.random()
    if k < 0.82:
        return rng.choice(["Port", "PORT"]) + arg_form(rng, rng.choice(BYTE_VALUES))
    if k < 0.96:
        return rng.choice(["Port", "PORT"]) + rng.choice(["()", "(,)", ";", "(1,2)", "(,3)", "(1,,)", "=;", "(1:2)"])
    return rng.choice(["Port", "PORT"]) + rng.choice(["(1+1)", "(A)", "({3})", "(-X)"])


TEMPO_VALUES = ["120", "60", "80", "200", "300", "301", "10", "9", "1", "0", "-1", "-120", "500", "1000", "60000000", "60000001", "$78", "255", "256",
                "16777215", "16777217", "2147483647"]
TEMPO_LENS = ["!1", "!2", "!4", "!8", "!16", "!1.", "!2^4", "0", "1", "23", "24", "25", "96", "384", "100", "-1", "-96", "1000", "4000", "40000", "40001", "!1^1^1"]


def tempo_change_cmd(rng):
    k = rng.random()
    name = "TempoChange"
    if k < 0.25:
        return name + arg_form(rng, rng.choice(TEMPO_VALUES))
    if k < 0.50:
        return name + arg_form(rng, rng.choice(TEMPO_VALUES) + rng.choice([",", ", ", " ,"]) + rng.choice(TEMPO_LENS))
    if k < 0.86:
        return name + arg_form(rng, rng.choice(TEMPO_VALUES) + rng.choice([",", ", "]) + rng.choice(TEMPO_VALUES) + rng.choice([",", ", ", " , "]) + rng.choice(TEMPO_LENS))
    if k < 0.96:
        return name + rng.choice(["()", ";", "(,)", "(,,)", "(120,,)", "(,80,!4)", "(1,2,3,4)", "(80,120,!1,5)", "=;", "(80:120:!4)", "(80,)"])
    return name + rng.choice(["(80+1)", "(A,120,!4)", "(80,120,!4+1)", "(Tempo,90,!2)"])


HEX_BYTES = ["00", "01", "7f", "7F", "80", "ff", "f0", "F0", "f7", "F7", "41", "10", "42", "12", "40", "100", "1ff", "0", "a", "-1", "-2", "$10", "0x7f", "", "g", "0xF0"]
DEC_BYTES = ["0", "1", "127", "128", "255", "256", "240", "247", "$f0", "$F7", "$41", "16", "0x10", "", "-1", "300", "65535"]
GS_NAMES = ["GSReverbMacro", "GSReverbCharacter", "GSReverbPRE_LPE", "GSReverbLevel", "GSReverbTime", "GSReverbFeedback", "GSReverbSendToChorus",
            "GSChorusMacro", "GSChorusPRE_LPF", "GSChorusLevel", "GSChorusFeedback", "GSChorusDelay", "GSChorusRate", "GSChorusDepth",
            "GSChorusSendToReverb", "GSChorusSendToDelay", "GS_RHYTHM"]


def sysex_cmd(rng):
    name = rng.choice(["SysEx", "SysEx", "SysEx", "PlayFrom.SysEx"])
    hexm = rng.random() < 0.6
    pool = HEX_BYTES if hexm else DEC_BYTES
    n = rng.choice([0, 1, 2, 3, 5, 8, 8, 11, 20])
    vals = [rng.choice(pool) for _ in range(n)]
    k = rng.random()
    if n >= 2 and k < 0.55:
        # one or two checksum groups, sometimes unbalanced
        i = rng.randrange(0, n)
        j = rng.randrange(i, n)
        vals[i] = "{" + rng.choice(["", "", " "]) + vals[i]
        if rng.random() < 0.85:
            vals[j] = vals[j] + rng.choice(["", "", " "]) + "}"
        if rng.random() < 0.2 and j + 1 < n:
            vals[j + 1] = "{" + vals[j + 1]
            vals[-1] = vals[-1] + "}"
    if rng.random() < 0.3 and n >= 1:
        vals[0] = rng.choice(["f0", "F0"]) if hexm else rng.choice(["240", "$f0"])
        if rng.random() < 0.7:
            vals[-1] = vals[-1][:1].replace("{", "{") and (("f7" if hexm else "247") + ("}" if vals[-1].endswith("}") else ""))
    sep = rng.choice([",", ",", ", ", " ,", " , "])
    body = sep.join(vals)
    if rng.random() < 0.05:
        body += rng.choice([",", ",,", " X", ",A,1", "}", "{"])
    return name + ("$" if hexm else "") + rng.choice(["=", "=", "=", " =", "", "= "]) + body + rng.choice([";", " ", "\n", ""])


def reset_cmd(rng):
    return rng.choice(["ResetGM", "ResetGS", "ResetXG"]) + rng.choice([";", ";", "\n", "()", "(0)", "(1)", " ;", "=1;", "(1,2)", "(", " 5 "])


def sysex_command_cmd(rng):
    k = rng.random()
    if k < 0.5:
        return "MasterVolume" + arg_form(rng, rng.choice(BYTE_VALUES + ["100", "64"]))
    if k < 0.9:
        return "MasterBalance" + arg_form(rng, rng.choice(["0", "1", "-1", "8191", "8192", "-8192", "-8193", "64", "127", "128", "16383", "16384", "$2000", "100000", "-100000"]))
    return rng.choice(["MasterVolume", "MasterBalance"]) + rng.choice([";", "()", "(,)", "(1,2)", "=;"])


def gs_cmd(rng):
    k = rng.random()
    if k < 0.45:
        return rng.choice(GS_NAMES) + arg_form(rng, rng.choice(BYTE_VALUES))
    if k < 0.60:
        return "GSEffect" + arg_form(rng, rng.choice(["$30", "$31", "0", "1", "127", "128", "255", "256", "-1"]) + rng.choice([",", ", "]) + rng.choice(BYTE_VALUES), eq=False)
    if k < 0.70:
        return "GSEffect" + rng.choice(["(5)", "()", ";", "(1,2,3)", "(,7)"])
    if k < 0.90:
        n = rng.choice([12, 12, 12, 11, 13, 1, 0, 24])
        return "GSScaleTuning" + arg_form(rng, ",".join(rng.choice(["0", "64", "-64", "1", "127", "128", "-1", "10", "255", "256"]) for _ in range(n)), eq=False)
    if k < 0.96:
        return rng.choice(GS_NAMES) + rng.choice([";", "()", "(,)", "(1,2)", "=;"])
    return rng.choice(["CH(10) ", "CH(9) ", "CH(11) ", "CH(16) ", "CH(1) "]) + "GS_RHYTHM" + arg_form(rng, rng.choice(["0", "1", "2", "3", "255"]))


def device_cmd(rng):
    return "DeviceNumber" + arg_form(rng, rng.choice(["$10", "$11", "16", "17", "0", "127", "128", "255", "256", "-1", "", "1,2"])) + " " + \
        rng.choice([reset_cmd(rng), gs_cmd(rng), "ResetGS;", "ResetXG;", "GSReverbMacro(1)"])


def misc_noop_cmd(rng):
    return rng.choice(["q2Add(3)", "System.q2Add=5;", "q2Add;", "SoundType({pico})", "SoundType=1;", 'SoundType("sc88")', "SoundType;"])


def sys_cmd(rng):
    """one command of the families the pipeline model gained last"""
    k = rng.random()
    if k < 0.22:
        return meta_cmd(rng)
    if k < 0.32:
        return port_cmd(rng)
    if k < 0.47:
        return tempo_change_cmd(rng)
    if k < 0.67:
        return sysex_cmd(rng)
    if k < 0.74:
        return reset_cmd(rng)
    if k < 0.82:
        return sysex_command_cmd(rng)
    if k < 0.93:
        return gs_cmd(rng)
    if k < 0.98:
        return device_cmd(rng)
    return misc_noop_cmd(rng)


def pipe_program(rng, size=None):
    """programs that USE the commands of sys_cmd: at the top level, on several tracks, inside loops, Sub blocks, tuplets,
    macros (with and without arguments) and string variables"""
    size = size or rng.choice([2, 4, 8, 14])
    out = []
    if rng.random() < 0.25:
        out.append("TimeBase(%d)\n" % rng.choice([48, 96, 192, 480, 24, 100]))
    notes = lambda: block(rng, 1, rng.randrange(0, 3), {"comments": False})
    for _ in range(size):
        k = rng.random()
        c = sys_cmd(rng)
        if k < 0.40:
            out.append(c)
        elif k < 0.50:
            out.append(track_cmd(rng) + " " + c)
        elif k < 0.60:
            out.append("[" + rng.choice(["", "2", "3", "1", "0"]) + " " + notes() + c + " " + notes() + rng.choice(["", ": " + sys_cmd(rng) + " "]) + "]")
        elif k < 0.68:
            out.append("Sub{" + notes() + c + " " + notes() + "}")
        elif k < 0.72:
            out.append("{" + notes() + c + " c}" + rng.choice(["", "4", "2"]))
        elif k < 0.82:
            nm = rng.choice(["#A", "#B", "Mac", "X1"])
            body = notes() + c.replace("//", "/ /") + " " + notes()
            out.append(nm + "={" + body + "} " + rng.choice([nm, nm + " " + nm, "TR(2) " + nm, nm + "(5)", nm + "{zz}"]))
        elif k < 0.88:
            nm = rng.choice(["SA", "SB"])
            out.append("Str " + nm + "={" + c.replace("//", "/ /") + " c} " + nm + " ")
        elif k < 0.94:
            out.append(item(rng, 2, {}))
        else:
            out.append(ext_item(rng, {}))
        out.append(rng.choice([" ", " ", "\n", ";", "\t", "  ", " ; "]))     # ('|' after an argument is an operator: an expression)
    return "".join(out)


def ext_item(rng, feats):
    k = rng.random()
    if k < 0.30:
        return ctrl_cmd(rng)
    if k < 0.50 and feats.get("reservations", True):
        return res_cmd(rng)
    if k < 0.62 and feats.get("play", True):
        return script_item(rng)
    if k < 0.70 and feats.get("sys", True):
        return sys_cmd(rng)
    return item(rng, feats.get("depth", 2), feats)


def ext_program(rng, size=None, feats=None):
    """core programs interleaved with the commands the extended pipeline model covers"""
    feats = feats or {}
    size = size or rng.choice([3, 6, 10, 20])
    out = []
    if rng.random() < 0.2:
        out.append("TimeBase(%d)\n" % rng.choice([48, 96, 192, 480, 24]))
    for _ in range(size):
        r = rng.random()
        if r < 0.10:
            out.append(track_cmd(rng))
        else:
            out.append(ext_item(rng, feats))
        out.append(rng.choice(SEPS))
    return "".join(out)


JUNK_ALPHA = list("cdefgabrnlovqt0123456789.^%-+#*,()[]{}':;|<>@$!?&=\"`~\\/ \n\t") + \
    ["TR(", "CH(", "Tempo", "TimeBase", "Sub{", "Div{", "Rhythm{", "INT ", "STR ", "PRINT(", "IF(", "FOR(", "WHILE(",
     "FUNCTION ", "PLAY(", "SysEx$=", "KF", "TIME(", "End", "y", "PB(", ".onNote(", ".onTime(", ".Random", "=", "ド", "レ", "ミ",
     "ッ", "音階", "「", "」", "あ", "　", "Ｃ", "ｄ", "TrackSync", "Slur(", "M(", "TimeSignature(", "MasterVolume(", "ResetGM", "//", "/*", "*/",
     "#A", "#?1", "{\"", "\"}", "0x1F", "$7F"]


def junk_program(rng, n=None):
    n = n if n is not None else rng.randrange(0, 30)
    return "".join(rng.choice(JUNK_ALPHA) for _ in range(n))


def samples():
    d = os.path.join(os.environ.get("SAKURA_REPO", "/repo"), "samples")
    out = []
    if os.path.isdir(d):
        for fn in sorted(os.listdir(d)):
            if fn.endswith(".mml"):
                try:
                    out.append(open(os.path.join(d, fn), encoding="utf-8").read())
                except (OSError, UnicodeDecodeError):
                    pass
    return out


def mutate(rng, s):
    if not s:
        return s
    k = rng.random()
    i = rng.randrange(0, len(s))
    if k < 0.3:
        return s[:i]
    if k < 0.5:
        j = min(len(s), i + rng.randrange(1, 20))
        return s[:i] + s[j:]
    if k < 0.7:
        j = min(len(s), i + rng.randrange(1, 20))
        return s[:j] + s[i:j] + s[j:]
    if k < 0.85:
        return s[:i] + rng.choice(JUNK_ALPHA) + s[i:]
    j = min(len(s), i + rng.randrange(1, 40))
    return s[i:j]


JAPANESE = ["ドレミファソラシ", "ドッレッミ", "音階5 ドレミ", "音符8 ドレミ", "トラック2 ドー", "「ドミソ」", "ド＃レ♭", "【3 ドレ】",
            "上ド下ド", "音量100 ド", "ゲート80 ミ", "テンポ120 ソ", "ンドレ", "ド^レ"]


def japanese_program(rng):
    return "".join(rng.choice(JAPANESE + [" ", "\n", "c", "d4"]) for _ in range(rng.randrange(1, 8)))
