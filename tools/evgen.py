"""Random constructed songs (event lists) for the writer/dump checks."""
VALS = [0, 1, 63, 64, 100, 127, 128, 200, 255, 256, -1, -5, 8191, 8192, 16383, 16384, 20000]
CHS = list(range(16)) + [16, -1, 20]
DELTAS = [0, 0, 0, 1, 10, 96, 127, 128, 129, 480, 16383, 16384, 2 ** 21 - 1, 2 ** 21, 2 ** 28 - 1]


def hexs(bs):
    return "".join("%02x" % b for b in bs) if bs else "e"


def event(rng, time, wild):
    k = rng.random()
    ch = rng.choice(CHS) if wild else rng.randrange(16)
    val = (lambda: rng.choice(VALS)) if wild else (lambda: rng.randrange(128))
    if k < 0.35:
        return "N:%d:%d:%d:%d:%d:-" % (time, ch, val(), rng.choice([1, 10, 48, 96, 0, 200, 127, 128]), val())
    if k < 0.50:
        return "C:%d:%d:%d:%d:0:-" % (time, ch, val(), val())
    if k < 0.58:
        return "V:%d:%d:%d:0:0:-" % (time, ch, val())
    if k < 0.68:
        return "P:%d:%d:%d:0:0:-" % (time, ch, rng.choice(VALS + [4096, 12000]) if wild else rng.randrange(16384))
    if k < 0.74:
        return "R:%d:%d:%d:0:0:-" % (time, ch, rng.choice([0, 2, 12, 24, 25, -1, 100]))
    if k < 0.86:
        n = rng.choice([0, 1, 3, 10, 127, 50])
        ty = rng.choice([1, 2, 3, 4, 5, 6, 7, 0x51, 0x58, 0x21, 0x7f])
        data = [rng.randrange(256) for _ in range(n)]
        return "M:%d:0:255:%d:%d:%s" % (time, ty, n, hexs(data))
    n = rng.choice([0, 1, 2, 6, 20, 127, 128, 129, 300, 400])
    data = [rng.randrange(128) for _ in range(n)]
    if data and rng.random() < 0.8:
        data[0] = 0xF0
        data[-1] = 0xF7 if len(data) > 1 else data[-1]
    return "S:%d:0:0:0:0:%s" % (time, hexs(data))


def track(rng, n, wild):
    t = rng.choice([0, 0, 0, 5, -10 if wild else 0])
    evs = []
    for _ in range(n):
        t += rng.choice(DELTAS) if rng.random() < 0.7 else rng.randrange(0, 2000)
        evs.append(event(rng, t, wild))
    if wild and rng.random() < 0.3:
        rng.shuffle(evs)
    return ";".join(evs) or "-"


def song(rng, wild=True):
    ntr = rng.choice([1, 1, 2, 3, 5, 16, 17, 40])
    tb = rng.choice([48, 96, 480, 960, 32767, 1, 100])
    tracks = [track(rng, rng.choice([0, 1, 2, 5, 12, 30]), wild) for _ in range(ntr)]
    return tb, "/".join(tracks)
