"""Regenerate the verbatim copy of the inner loop of lex_f (model/LexCore.v) inside proofs/LayoutP.v (LOOPG),
as the header comment of LayoutP.v describes."""
import os, re, sys
root = os.path.dirname(os.path.dirname(os.path.abspath(__file__)))
lex = open(os.path.join(root, "coq/model/LexCore.v"), encoding="utf-8").read().split("\n")
i0 = next(i for i, l in enumerate(lex) if l.startswith("    (fix loop (n : nat)"))
i1 = next(i for i, l in enumerate(lex) if l.startswith("       end) (S (length src))"))
body = lex[i0 + 1:i1] + ["       end"]
body = [l.replace("lex_f f", "sublex").replace("loop n'", "LOOPG n'") for l in body]
p = os.path.join(root, "coq/proofs/LayoutP.v")
lay = open(p, encoding="utf-8").read().split("\n")
b = next(i for i, l in enumerate(lay) if l.startswith("(* ---- BEGIN copy of the inner loop of lex_f"))
e = next(i for i, l in enumerate(lay) if l.startswith("(* ---- END copy"))
lay[b + 1:e] = body
open(p, "w", encoding="utf-8").write("\n".join(lay))
print("LOOPG regenerated:", len(body), "lines")
