"""Shared machinery of the checks: builds (Coq cone, extraction driver, Rust harness) under one
lock, running the implementation and the extracted model on case files, verdict bookkeeping
(correspondence disagreements, oracle failures, known findings), evidence and replay files."""
import fcntl, hashlib, json, os, random, re, shutil, subprocess, sys, threading, time

VERIF = os.path.dirname(os.path.dirname(os.path.abspath(__file__)))
REPO = os.environ.get("SAKURA_REPO", "/repo")
COQ = os.path.join(VERIF, "coq")
OCAML = os.path.join(VERIF, "ocaml")
HARNESS = os.path.join(VERIF, "harness")
CACHE = os.path.join(VERIF, ".cache")
GUARD_CFG = "sakuramml_verif"
NPROC = min(16, os.cpu_count() or 4)

FORBIDDEN = re.compile(r"\b(Admitted|admit|Axiom|Axioms|Parameter|Parameters|Conjecture|Hypothesis|Variable|"
                       r"Unset\s+Guard|bypass_check|type-in-type|impredicative-set|Admit\s+Obligations)\b")


def sh(cmd, cwd=None, timeout=600, env=None):
    e = dict(os.environ)
    e.update({"CARGO_NET_OFFLINE": "true", "LC_ALL": "C.UTF-8"})
    if env:
        e.update(env)
    try:
        p = subprocess.run(cmd, cwd=cwd, shell=isinstance(cmd, str), stdout=subprocess.PIPE,
                           stderr=subprocess.STDOUT, timeout=timeout, env=e)
        return p.returncode, p.stdout.decode("utf-8", "replace")
    except subprocess.TimeoutExpired as ex:
        return 124, (ex.stdout or b"").decode("utf-8", "replace") + "\n[timeout]"


class Lock:
    def __enter__(self):
        os.makedirs(CACHE, exist_ok=True)
        self.f = open(os.path.join(VERIF, ".build.lock"), "w")
        fcntl.flock(self.f, fcntl.LOCK_EX)
        return self

    def __exit__(self, *a):
        fcntl.flock(self.f, fcntl.LOCK_UN)
        self.f.close()


def tree_hash(paths, exts=None):
    h = hashlib.sha256()
    for p in paths:
        if os.path.isfile(p):
            h.update(p.encode()); h.update(open(p, "rb").read())
            continue
        for root, dirs, files in sorted(os.walk(p)):
            dirs[:] = sorted(d for d in dirs if d not in ("target", "_build", ".git"))
            for fn in sorted(files):
                if exts and not fn.endswith(tuple(exts)):
                    continue
                fp = os.path.join(root, fn)
                h.update(fp.encode())
                try:
                    h.update(open(fp, "rb").read())
                except OSError:
                    pass
    return h.hexdigest()


def stamp_ok(name, value):
    p = os.path.join(CACHE, name)
    return os.path.exists(p) and open(p).read() == value


def stamp_set(name, value):
    os.makedirs(CACHE, exist_ok=True)
    open(os.path.join(CACHE, name), "w").write(value)


# ------------------------------------------------------------------------------------------------
# builds
# ------------------------------------------------------------------------------------------------
def gen_tables():
    rc, out = sh([sys.executable, os.path.join(VERIF, "tools", "gen_tables.py")], timeout=120)
    return rc, out


def coq_project_files():
    files = []
    for line in open(os.path.join(COQ, "_CoqProject")):
        line = line.strip()
        if line.endswith(".v") and not line.startswith("-"):
            files.append(line)
    return files


def coq_cone(vfile, seen=None):
    """files (relative to coq/) that vfile transitively Requires inside the project"""
    seen = seen if seen is not None else []
    if vfile in seen:
        return seen
    path = os.path.join(COQ, vfile)
    if not os.path.exists(path):
        return seen
    txt = open(path, encoding="utf-8").read()
    txt = re.sub(r"\(\*.*?\*\)", " ", txt, flags=re.S)
    dirs = {"Model": "model", "Spec": "spec", "Proofs": "proofs", "Props": "props", "Gen": "gen", "Extract": "extract"}
    for m in re.finditer(r"From\s+Sakura\.(\w+)\s+Require\s+(?:Import|Export)\s+([^.]*)\.", txt):
        d = dirs.get(m.group(1))
        for name in m.group(2).split():
            coq_cone(os.path.join(d, name + ".v"), seen)
    seen.append(vfile)
    return seen


def count_obligations(files):
    n = 0
    names = []
    for f in files:
        p = os.path.join(COQ, f)
        if not os.path.exists(p):
            continue
        txt = open(p, encoding="utf-8").read()
        txt = re.sub(r"\(\*.*?\*\)", " ", txt, flags=re.S)
        for m in re.finditer(r"\b(Lemma|Theorem|Corollary|Example|Fact|Remark|Proposition)\s+([\w']+)", txt):
            names.append(m.group(2))
        n += len(re.findall(r"\b(Qed|Defined)\s*\.", txt))
    return n, names


def forbidden_scan():
    bad = []
    for root, dirs, files in os.walk(COQ):
        for fn in files:
            if not fn.endswith(".v"):
                continue
            p = os.path.join(root, fn)
            txt = open(p, encoding="utf-8").read()
            txt = re.sub(r"\(\*.*?\*\)", " ", txt, flags=re.S)
            for i, line in enumerate(txt.split("\n")):
                m = FORBIDDEN.search(line)
                if m:
                    # Variable/Hypothesis are allowed inside a Section only
                    if m.group(1) in ("Variable", "Hypothesis"):
                        before = "\n".join(txt.split("\n")[:i])
                        if len(re.findall(r"\bSection\s+\w+", before)) > len(re.findall(r"\bEnd\s+\w+\s*\.", before)):
                            continue
                    bad.append("%s:%d:%s" % (os.path.relpath(p, COQ), i + 1, m.group(1)))
    return bad


def ensure_makefile():
    """Makefile from _CoqProject restricted to files that exist (a listed but missing file would stop coqdep for
    every target); regenerated whenever that filtered project changes"""
    lines = []
    for line in open(os.path.join(COQ, "_CoqProject"), encoding="utf-8"):
        t = line.strip()
        if t.endswith(".v") and not t.startswith("-") and not os.path.exists(os.path.join(COQ, t)):
            continue
        lines.append(line if line.endswith("\n") else line + "\n")
    text = "".join(lines)
    gen = os.path.join(COQ, "_CoqProject.gen")
    if os.path.exists(gen) and open(gen, encoding="utf-8").read() == text and os.path.exists(os.path.join(COQ, "Makefile")) \
            and os.path.getmtime(os.path.join(COQ, "Makefile")) >= os.path.getmtime(gen):
        return 0, ""
    open(gen, "w", encoding="utf-8").write(text)
    return sh("coq_makefile -f _CoqProject.gen -o Makefile", cwd=COQ, timeout=120)


def coq_build(target_v, timeout=1500):
    """make the cone of target_v, then compile target_v itself with coqc to capture Print Assumptions.
    returns dict(ok, log, assumptions=[(theorem, [axioms])], closed=[theorems])"""
    res = {"ok": False, "log": "", "assumptions": {}, "cmd": ""}
    rc, out = ensure_makefile()
    if rc != 0:
        res["log"] = out
        return res
    vo = target_v[:-2] + ".vo"
    cone = coq_cone(target_v)
    deps = [f[:-2] + ".vo" for f in cone if f != target_v]
    cmd = "make -j%d %s" % (NPROC, " ".join(deps)) if deps else "true"
    rc, out = sh("timeout %d %s" % (timeout, cmd), cwd=COQ, timeout=timeout + 30)
    res["log"] += out[-6000:]
    if rc != 0:
        res["failed_in"] = "dependencies"
        return res
    # the property file itself: always recompiled, output captured
    try:
        os.remove(os.path.join(COQ, vo))
    except OSError:
        pass
    cmd2 = "make %s" % vo
    res["cmd"] = "cd coq && %s && %s" % (cmd, cmd2)
    rc, out = sh("timeout %d %s" % (timeout, cmd2), cwd=COQ, timeout=timeout + 30)
    res["log"] += out[-6000:]
    if rc != 0:
        res["failed_in"] = target_v
        return res
    res["ok"] = True
    res["assumptions"] = parse_assumptions(target_v, out)
    return res


def parse_assumptions(target_v, out):
    """Print Assumptions blocks appear in file order; pair them with the `Print Assumptions X.` commands"""
    txt = open(os.path.join(COQ, target_v), encoding="utf-8").read()
    txt = re.sub(r"\(\*.*?\*\)", " ", txt, flags=re.S)
    names = re.findall(r"Print\s+Assumptions\s+([\w'.]+)\s*\.", txt)
    blocks = []
    cur = None
    for line in out.split("\n"):
        if line.startswith("Closed under the global context"):
            blocks.append([])
            cur = None
        elif line.startswith("Axioms:"):
            cur = []
            blocks.append(cur)
        elif cur is not None:
            if line.startswith(" ") or line.startswith("\t"):
                if cur and not re.match(r"^\s*[\w'.]+\s*:", line):
                    continue
                m = re.match(r"^\s*([\w'.]+)\s*:", line)
                if m:
                    cur.append(m.group(1))
            elif re.match(r"^[\w'.]+\s*:", line):
                cur.append(re.match(r"^([\w'.]+)\s*:", line).group(1))
            else:
                cur = None
    d = {}
    for i, n in enumerate(names):
        d[n] = blocks[i] if i < len(blocks) else ["<no output>"]
    return d


def build_driver(name="core"):
    """ocaml/<name>_driver.ml (body) + common.ml.inc + main.ml.inc over the extracted <name>_model.ml"""
    model = os.path.join(OCAML, "%s_model.ml" % name)
    body = os.path.join(OCAML, "%s_driver.ml" % name)
    binp = os.path.join(OCAML, "%s_driver.bin" % name)
    key = tree_hash([model, body, os.path.join(OCAML, "common.ml.inc"), os.path.join(OCAML, "main.ml.inc")])
    if stamp_ok("driver_" + name, key) and os.path.exists(binp):
        return 0, "cached"
    full = os.path.join(OCAML, "_%s_main.ml" % name)
    with open(full, "w", encoding="utf-8") as f:
        f.write("open %s_model\ntype string = Stdlib.String.t\n" % name.capitalize())
        f.write(open(os.path.join(OCAML, "common.ml.inc"), encoding="utf-8").read())
        f.write(open(body, encoding="utf-8").read())
        f.write(open(os.path.join(OCAML, "main.ml.inc"), encoding="utf-8").read())
    rc, out = sh("ocamlfind ocamlopt -w -a %s_model.mli %s_model.ml _%s_main.ml -o %s_driver.bin" % (name, name, name, name),
                 cwd=OCAML, timeout=900)
    if rc == 0:
        stamp_set("driver_" + name, key)
    return rc, out


def harness_dir():
    """/verif/harness builds against /repo. With SAKURA_REPO=<other tree> (used to try a seeded change without
    touching /repo) a copy of the harness crate with the dependency path rewritten lives under .cache/."""
    if os.path.realpath(REPO) == "/repo":
        return HARNESS
    d = os.path.join(CACHE, "harness_" + hashlib.sha256(os.path.realpath(REPO).encode()).hexdigest()[:10])
    os.makedirs(d, exist_ok=True)
    for sub in ("src", ".cargo"):
        dst = os.path.join(d, sub)
        if os.path.exists(dst):
            shutil.rmtree(dst)
        if os.path.exists(os.path.join(HARNESS, sub)):
            shutil.copytree(os.path.join(HARNESS, sub), dst)
    toml = open(os.path.join(HARNESS, "Cargo.toml"), encoding="utf-8").read().replace('path = "/repo"', 'path = "%s"' % os.path.realpath(REPO))
    open(os.path.join(d, "Cargo.toml"), "w", encoding="utf-8").write(toml)
    return d


def harness_bin():
    return os.path.join(harness_dir(), "target", "debug", "sakura_harness")


def build_harness():
    hd = harness_dir()
    key = tree_hash([os.path.join(REPO, "src"), os.path.join(REPO, "Cargo.toml"), os.path.join(REPO, "build.rs"),
                     os.path.join(hd, "src"), os.path.join(hd, "Cargo.toml")])
    binp = os.path.join(hd, "target", "debug", "sakura_harness")
    stamp = "harness_" + os.path.basename(hd)
    if stamp_ok(stamp, key) and os.path.exists(binp):
        return 0, "cached"
    lock = os.path.join("/repo", "Cargo.lock")
    if os.path.exists(lock) and not os.path.exists(os.path.join(hd, "Cargo.lock")):
        shutil.copy(lock, os.path.join(hd, "Cargo.lock"))
    rc, out = sh("cargo build --offline", cwd=hd, timeout=1200,
                 env={"RUSTFLAGS": "--cfg %s" % GUARD_CFG})
    if rc == 0:
        stamp_set(stamp, key)
    return rc, out


# ------------------------------------------------------------------------------------------------
# running cases
# ------------------------------------------------------------------------------------------------
def _run_shard(binp, lines, rundir, tag, stall, results, idx, capture_stdout=None):
    cases = os.path.join(rundir, "%s.%d.cases" % (tag, idx))
    outp = os.path.join(rundir, "%s.%d.out" % (tag, idx))
    open(cases, "w", encoding="utf-8").write("".join(l + "\n" for l in lines))
    if os.path.exists(outp):
        os.remove(outp)
    open(outp, "w").close()
    skip = 0
    extra = {}
    stdout_chunks = []
    while skip < len(lines):
        p = subprocess.Popen([binp, cases, outp, str(skip)], stdout=subprocess.PIPE, stderr=subprocess.DEVNULL,
                             env=(dict(os.environ, **EXTRA_ENV) if EXTRA_ENV else None), preexec_fn=_big_stack)
        # read stdout in a thread so the pipe never fills
        buf = []
        t = threading.Thread(target=lambda: buf.append(p.stdout.read()))
        t.start()
        last_n = -1
        last_change = time.time()
        while True:
            try:
                p.wait(timeout=0.25)
                break
            except subprocess.TimeoutExpired:
                n = os.path.getsize(outp)
                if n != last_n:
                    last_n = n
                    last_change = time.time()
                elif time.time() - last_change > stall:
                    p.kill()
                    p.wait()
                    break
        t.join()
        stdout_chunks.append(buf[0] if buf else b"")
        done = open(outp, encoding="utf-8", errors="replace").read().split("\n")
        done = done[:-1] if done and done[-1] == "" else done
        ndone = len(done)
        if ndone >= len(lines):
            break
        # the case after the last completed one did not finish
        why = "HANG" if p.returncode in (-9, None) else "ABORT"
        with open(outp, "a") as f:
            f.write(why + "\n")
        skip = ndone + 1
    out = open(outp, encoding="utf-8", errors="replace").read().split("\n")
    out = out[:-1] if out and out[-1] == "" else out
    results[idx] = out[:len(lines)] + ["MISSING"] * max(0, len(lines) - len(out))
    if capture_stdout is not None:
        capture_stdout[idx] = b"".join(stdout_chunks)


def _big_stack():
    """extracted Coq functions recurse over lists of 10^5 elements: give the child the largest stack allowed"""
    try:
        import resource
        soft, hard = resource.getrlimit(resource.RLIMIT_STACK)
        resource.setrlimit(resource.RLIMIT_STACK, (hard, hard))
    except Exception:
        pass


EXTRA_ENV = None   # a plugin may set this around one batch: the processes of that batch get these extra environment variables


def run_cases(binp, lines, rundir, tag, stall=10.0, shards=None, capture_stdout=None):
    if not lines:
        return []
    for l in lines:
        if "\n" in l:
            raise ValueError("newline in case line")
    shards = shards or (NPROC if len(lines) >= 64 else 1)
    size = (len(lines) + shards - 1) // shards
    chunks = [lines[i:i + size] for i in range(0, len(lines), size)]
    results = [None] * len(chunks)
    cap = [None] * len(chunks) if capture_stdout is not None else None
    ths = []
    for i, c in enumerate(chunks):
        t = threading.Thread(target=_run_shard, args=(binp, c, rundir, tag, stall, results, i, cap))
        t.start()
        ths.append(t)
    for t in ths:
        t.join()
    if capture_stdout is not None:
        capture_stdout.append(b"".join(x or b"" for x in cap))
    return [r for chunk in results for r in chunk]


def enc_text(s):
    return ",".join(str(ord(c)) for c in s) if s else "-"


def dec_text(f):
    return "" if f == "-" else "".join(chr(int(x)) for x in f.split(","))


# ------------------------------------------------------------------------------------------------
# the context of one check run
# ------------------------------------------------------------------------------------------------
class Ctx:
    def __init__(self, pid, tier, seed, plugin):
        self.pid = pid
        self.tier = tier
        self.seed = seed
        self.rng = random.Random(seed)
        self.plugin = plugin
        self.drivers = list(getattr(plugin, "DRIVERS", ["core"]))
        self.t0 = time.time()
        self.rundir = os.path.join(VERIF, ".run", "%s-%d" % (pid, os.getpid()))
        os.makedirs(self.rundir, exist_ok=True)
        self.evaluations = 0
        self.nontrivial = set()
        self.samples = []
        self.dist = {}
        self.disagreements = []      # broken correspondence (model vs implementation)
        self.oracle_failures = []    # property fails on the implementation
        self.known_hits = []
        self.proof = None
        self.proof_problems = []
        self.notes = []
        self.batch = 0
        self.unsupported = 0
        self.known = [k for k in json.load(open(os.path.join(VERIF, "known_findings.json")))["findings"]
                      if k["property"] == pid]

    # --- builds ---
    def build(self):
        with Lock():
            rc, out = gen_tables()
            if rc != 0:
                self.proof_problems.append("translator failed (anchor moved?): " + out[-800:])
            target = self.plugin.COQ_TARGET
            self.proof = coq_build(target)
            if not self.proof["ok"]:
                self.proof_problems.append("proof obligation fails in %s: %s" % (
                    self.proof.get("failed_in", "?"), self.proof["log"][-1500:]))
            else:
                allow = set(getattr(self.plugin, "AXIOM_ALLOW", []))
                for thm, axs in self.proof["assumptions"].items():
                    extra = [a for a in axs if a not in allow]
                    if extra:
                        self.proof_problems.append("theorem %s depends on axioms outside the allow-list: %s" % (thm, extra))
                want = set(getattr(self.plugin, "THEOREMS", []))
                missing = want - set(self.proof["assumptions"].keys())
                if missing:
                    self.proof_problems.append("property theorems missing from %s: %s" % (target, sorted(missing)))
            bad = forbidden_scan()
            cone_files = set(coq_cone(target))
            mine = [b for b in bad if b.split(":")[0] in cone_files]
            if mine:
                self.proof_problems.append("forbidden constructs in the cone of %s: %s" % (target, mine[:10]))
            others = [b for b in bad if b.split(":")[0] not in cone_files]
            if others:
                self.notes.append("forbidden constructs elsewhere in the development (not in this property's cone): %s" % others[:10])
            # extraction is part of the cone of the driver
            for drv in self.drivers:
                ex = coq_build("extract/Extract_%s.v" % drv)
                if not ex["ok"]:
                    self.fatal("extraction of the model (%s) failed:\n" % drv + ex["log"][-2000:])
                rc, out = build_driver(drv)
                if rc != 0:
                    self.fatal("OCaml driver %s build failed:\n" % drv + out[-2000:])
            rc, out = build_harness()
            if rc != 0:
                self.fatal("/repo does not build (nothing can be decided):\n" + out[-3000:])
        cone = coq_cone(self.plugin.COQ_TARGET)
        self.obligations, self.lemma_names = count_obligations(cone)
        self.cone = cone

    def fatal(self, msg):
        print("CHECK-ERROR property=%s %s" % (self.pid, msg))
        shutil.rmtree(self.rundir, ignore_errors=True)
        sys.exit(2)

    # --- running ---
    def impl(self, lines, stall=10.0, capture_stdout=None):
        self.batch += 1
        return run_cases(harness_bin(), lines, self.rundir,
                         "impl%d" % self.batch, stall=stall, capture_stdout=capture_stdout)

    def model(self, lines, stall=60.0, driver=None):
        self.batch += 1
        driver = driver or self.drivers[0]
        return run_cases(os.path.join(OCAML, "%s_driver.bin" % driver), lines, self.rundir, "model%d" % self.batch, stall=stall)

    # --- bookkeeping ---
    def count(self, key, nontrivial_key=None):
        self.evaluations += 1
        self.dist[key] = self.dist.get(key, 0) + 1
        if nontrivial_key is not None:
            self.nontrivial.add(nontrivial_key)

    def sample(self, s):
        if len(self.samples) < 12:
            self.samples.append(s)

    def disagree(self, kind, case, impl_out, model_out):
        self.disagreements.append({"correspondence": kind, "case": case, "implementation": impl_out, "model": model_out})

    def oracle_fail(self, what, case, observed, expected, input_text=None):
        """the property itself fails on the implementation for this input"""
        key = input_text if input_text is not None else case
        for k in self.known:
            if k.get("status") == "known" and k.get("input") == key:
                if k["id"] not in [h["id"] for h in self.known_hits]:
                    self.known_hits.append(k)
                return
        self.oracle_failures.append({"what": what, "case": case, "input": input_text,
                                     "observed": observed, "expected": expected})

    # --- shrinking (delta debugging on the failing source; the plugin says whether a candidate still fails) ---
    def shrink(self, text, still_fails, budget=120):
        import re as _re
        calls = [0]

        def test(parts):
            if calls[0] >= budget:
                return False
            calls[0] += 1
            try:
                return bool(still_fails(self, "".join(parts)))
            except Exception:
                return False

        def ddmin(parts):
            n = 2
            while len(parts) >= 2 and calls[0] < budget:
                size = max(1, len(parts) // n)
                chunks = [parts[i:i + size] for i in range(0, len(parts), size)]
                reduced = False
                for i in range(len(chunks)):
                    cand = [x for j, c in enumerate(chunks) if j != i for x in c]
                    if cand and test(cand):
                        parts, n, reduced = cand, max(n - 1, 2), True
                        break
                if not reduced:
                    if size == 1:
                        break
                    n = min(len(parts), n * 2)
            return parts

        parts = [x for x in _re.split(r"(\s+)", text) if x != ""]
        parts = ddmin(parts)
        if len("".join(parts)) <= 60:
            parts = ddmin(list("".join(parts)))
        return "".join(parts), calls[0]

    # --- verdict ---
    def finish(self):
        wall = time.time() - self.t0
        rc = 0
        for k in self.known_hits:
            print("KNOWN-FINDING: property=%s %s (%s)" % (self.pid, k["what"], k["id"]))
        replay = None
        if self.oracle_failures:
            self.oracle_failures.sort(key=lambda x: len(str(x.get("input") or x.get("case") or "")))
            f = self.oracle_failures[0]
            hook = getattr(self.plugin, "still_fails", None)
            if hook and isinstance(f.get("input"), str) and len(f["input"]) > 12:
                small, ncalls = self.shrink(f["input"], hook)
                if small and small != f["input"]:
                    f = dict(f)
                    f["shrunk_from"] = f["input"][:400]
                    f["input"] = small
                    f["shrink_calls"] = ncalls
            replay = self.write_replay({"property": self.pid, "kind": "failing-input", "failure": f,
                                        "others": [{"what": o["what"], "input": str(o.get("input"))[:300]} for o in self.oracle_failures[1:6]],
                                        "failing_inputs_found": len(self.oracle_failures),
                                        "broken_correspondence": self.disagreements[:3],
                                        "proof_problems": self.proof_problems, "seed": self.seed, "tier": self.tier})
            print("VIOLATION property=%s replay=%s" % (self.pid, replay))
            rc = 1
        elif self.proof_problems or self.disagreements:
            replay = self.write_replay({"property": self.pid, "kind": "no-failing-input-found",
                                        "no_longer_checks": self.proof_problems +
                                        ["correspondence %s" % d["correspondence"] for d in self.disagreements[:5]],
                                        "broken_correspondence": self.disagreements[:10],
                                        "seed": self.seed, "tier": self.tier,
                                        "searched": {"evaluations": self.evaluations, "distribution": self.dist}})
            print("VIOLATION property=%s replay=%s no-failing-input-found" % (self.pid, replay))
            rc = 1
        self.write_evidence(wall, rc)
        shutil.rmtree(self.rundir, ignore_errors=True)
        print("%s property=%s tier=%s evaluations=%d obligations=%d wall=%.1fs" % (
            "OK" if rc == 0 else "FAIL", self.pid, self.tier, self.evaluations, self.obligations, wall))
        sys.exit(rc)

    def write_replay(self, obj):
        os.makedirs(os.path.join(VERIF, "replay"), exist_ok=True)
        h = hashlib.sha256(json.dumps(obj, sort_keys=True, default=str).encode()).hexdigest()[:10]
        p = os.path.join(VERIF, "replay", "%s-%s.json" % (self.pid, h))
        json.dump(obj, open(p, "w"), indent=1, ensure_ascii=False, default=str)
        return p

    def write_evidence(self, wall, rc):
        discharged = self.obligations if (self.proof and self.proof["ok"]) else 0
        axioms = {}
        if self.proof:
            axioms = {k: (v if v else "Closed under the global context") for k, v in self.proof["assumptions"].items()}
        ev = {
            "property_id": self.pid, "tier": self.tier, "seed": self.seed, "level": "proof",
            "coverage": {
                "obligations": max(self.obligations, 1), "discharged": max(discharged, 0),
                "checker_cmd": (self.proof or {}).get("cmd", "") or "make (failed)",
                "trusted_base": TRUSTED_BASE + list(getattr(self.plugin, "TRUSTED", [])),
                "theorems": getattr(self.plugin, "THEOREMS", []),
                "print_assumptions": axioms,
                "cone_files": self.cone,
                "lemmas_in_cone": len(self.lemma_names),
                "evaluations": self.evaluations,
                "distinct_nontrivial": len(self.nontrivial),
                "rule": getattr(self.plugin, "RULE", ""),
                "samples": self.samples,
                "distribution": self.dist,
                "unsupported_by_model": self.unsupported,
                "correspondence_disagreements": len(self.disagreements),
                "oracle_failures_on_implementation": len(self.oracle_failures),
                "known_findings_reported": [k["id"] for k in self.known_hits],
                "notes": self.notes,
            },
            "assumptions": list(getattr(self.plugin, "ASSUMES", [])),
            "wall_s": round(wall, 2),
            "violations": (1 if rc else 0),
        }
        if discharged == 0:
            ev["coverage"]["discharged"] = 0
        # evidence/ describes runs against /repo only; a run against another tree (SAKURA_REPO) writes beside the caches
        evdir = os.path.join(VERIF, "evidence") if not os.environ.get("SAKURA_REPO") else os.path.join(VERIF, ".cache", "evidence_other_tree")
        os.makedirs(evdir, exist_ok=True)
        json.dump(ev, open(os.path.join(evdir, "%s.json" % self.pid), "w"), indent=1, ensure_ascii=False)


TRUSTED_BASE = [
    "Coq 8.16.1 kernel (coqc), vm_compute conversion; no native_compute",
    "axioms: none beyond what Print Assumptions reports per theorem (see print_assumptions)",
    "tools/gen_tables.py (translator of tables/constants from /repo into coq/gen)",
    "Coq extraction with ExtrOcamlBasic only (no Extract Constant/Inductive of ours), OCaml 4.13.1, ocaml/driver.ml",
    "correspondence harness: harness/src (Rust), tools/*.py generators and differ",
    "hand-written Gallina model of the Rust functions named in DESIGN.md section 12 (modelled, tied by correspondence)",
]
