#!/usr/bin/env python3
"""./check <Cxx> [--tier quick|thorough] [--replay <path>]
Decides one property: rebuilds the Coq cone of props/<Cxx>.v (theorems + Print Assumptions),
rebuilds harness and extracted driver from /repo's working tree, runs the correspondence and the
property's oracle search, prints VIOLATION / KNOWN-FINDING lines, writes evidence/<Cxx>.json."""
import argparse, importlib, json, os, sys
sys.path.insert(0, os.path.dirname(os.path.abspath(__file__)))
import vlib


def main():
    ap = argparse.ArgumentParser()
    ap.add_argument("pid")
    ap.add_argument("--tier", default=os.environ.get("VERIF_TIER", "quick"))
    ap.add_argument("--replay")
    a = ap.parse_args()
    tier = a.tier if a.tier in ("quick", "thorough") else "quick"
    seed = int(os.environ.get("VERIF_SEED", "20260930") or 20260930)
    plugin = importlib.import_module("props.%s" % a.pid.lower())
    ctx = vlib.Ctx(a.pid, tier, seed, plugin)
    ctx.build()
    if a.replay:
        obj = json.load(open(a.replay))
        plugin.replay(ctx, obj)
    else:
        plugin.run(ctx)
    ctx.finish()


if __name__ == "__main__":
    main()
