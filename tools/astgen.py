"""Generator of programs of the core note language as syntax trees, serialised as the token stream the
core driver parses (kind `note_spec`): the extracted Coq printer turns the tree into source text and the
extracted specification `NoteSem.denote_prog` gives the notes it must sound."""

BASES = [0, 2, 4, 5, 7, 9, 11]


def olen(rng, chord=False, allow_none=True):
    if allow_none and rng.random() < 0.45:
        return "-"
    def atom(head):
        step = 1 if (rng.random() < 0.12 and not chord) else 0
        # (small and odd tick counts with several dots: the dotted value is ONE truncation of x * (2 - 1/2^k), not a sum of truncated halves)
        ds = (rng.choice(["1", "2", "4", "4", "8", "8", "16", "3", "6", "12", "32", "24", "64", "128", "48", "5", "7"]) if not step
              else str(rng.choice([1, 10, 24, 48, 96, 100, 3, 7, 15, 5])))
        dots = rng.choice([0, 0, 0, 1, 1, 2, 2, 3])
        return "%d:0:%s:%d" % (step, ds, dots)
    head = atom(True)
    n = rng.choice([0, 0, 0, 1, 1, 2])
    parts = ";".join(rng.choice("^^+") + atom(False) for _ in range(n)) or "-"
    if chord:
        parts = parts.replace("+", "^")
    return head + "|" + parts


def opt(rng, pool, p=0.2):
    return str(rng.choice(pool)) if rng.random() < p else "-"


def note(rng, params=True):
    acc = rng.choice([0, 0, 0, 0, 1, -1, 2])
    nat = 1 if rng.random() < 0.08 else 0
    if not params:
        return "N %d %d %d - - - - -" % (rng.choice(BASES), acc, nat)
    g = opt(rng, [1, 50, 80, 100, 120, 99], 0.15)
    v = opt(rng, [0, 1, 64, 100, 127, 200], 0.15) if g != "-" or rng.random() < 0.1 else "-"
    t = opt(rng, [0, 1, 3, -2, 10], 0.1) if v != "-" else "-"
    o = opt(rng, [0, 3, 5, 7, 10, 11], 0.1) if t != "-" else "-"
    return "N %d %d %d %s %s %s %s %s" % (rng.choice(BASES), acc, nat, olen(rng), g, v, t, o)


def once(rng):
    """octave-once marks (1 = ` , -1 = ") directly in front of a lettered note; sometimes right after an octave command at or
    near the limits 0 / 10, so that the clamp of a mark is exercised"""
    marks = ",".join(str(rng.choice([1, -1])) for _ in range(rng.choice([1, 1, 1, 2, 2, 3])))
    c = "U %s %s" % (marks, note(rng))
    if rng.random() < 0.5:
        c = "O %d %s" % (rng.choice([0, 0, 1, 9, 10, 10]), c)
    if rng.random() < 0.5:
        c += " " + note(rng)          # the note after it sounds in the old octave again
    return c


def leaf(rng):
    k = rng.random()
    if k < 0.06:
        return once(rng)
    if k < 0.5:
        return note(rng)
    if k < 0.58:
        return "R " + olen(rng)
    if k < 0.64:
        g = opt(rng, [50, 100, 10], 0.3)
        v = opt(rng, [0, 90, 127], 0.5) if g != "-" else "-"
        return "M %d %s %s %s -" % (rng.choice([0, 36, 60, 61, 72, 127, 120]), olen(rng), g, v)
    if k < 0.70:
        return "L " + olen(rng, allow_none=(rng.random() < 0.1))
    if k < 0.76:
        return "O %d" % rng.choice([0, 1, 2, 3, 4, 5, 6, 7, 8, 9, 10, 11, -1])
    if k < 0.81:
        return "V %d" % rng.choice([0, 1, 40, 64, 100, 127, 128, 200])
    if k < 0.85:
        return "Q %d" % rng.choice([0, 1, 50, 90, 100, 101, 150])
    if k < 0.88:
        return "T %d" % rng.choice([0, 0, 1, 2, 5])
    if k < 0.96:
        return rng.choice([">", "<", ">", "<", ")", "("])
    return rng.choice(["KS %d" % rng.choice([0, 1, -1, 3, 12]), "TK %d" % rng.choice([0, 2, -3]),
                       "KF + %s" % ",".join(str(b) for b in rng.sample(BASES, rng.choice([1, 2, 3]))),
                       "KF - %s" % ",".join(str(b) for b in rng.sample(BASES, rng.choice([1, 2])))])


def item(rng, depth):
    k = rng.random()
    if depth > 0 and k < 0.10:
        n = rng.choice(["-", "1", "2", "3", "4"])
        body = block(rng, depth - 1, rng.randrange(1, 4))
        if n == "-" and body.startswith("("):
            n = "2"     # "[ (" would be read as a parenthesised loop count
        if rng.random() < 0.35:
            return "[ %s %s : %s ]" % (n, body, block(rng, depth - 1, rng.randrange(1, 3)))
        return "[ %s %s ]" % (n, body)
    if k < 0.17:
        items = " ".join(rng.choice([note(rng, False)] * 5 + [">", "<"]) for _ in range(rng.randrange(1, 5)))
        l = olen(rng, chord=True)
        g = opt(rng, [50, 100, 80], 0.3) if l != "-" or rng.random() < 0.5 else "-"
        v = opt(rng, [100, 60, 127], 0.4) if g != "-" else "-"
        return "H{ %s }H %s %s %s" % (items, l, g, v)
    if depth > 0 and k < 0.24:
        return "D{ %s }D %s" % (block(rng, depth - 1, rng.randrange(1, 5), tuplet=True), olen(rng))
    if depth > 0 and k < 0.29:
        return "S{ %s }S" % block(rng, depth - 1, rng.randrange(1, 4))
    return leaf(rng)


def block(rng, depth, n, tuplet=False):
    return " ".join(item(rng, depth) for _ in range(n))


def program(rng, size=None, depth=3, tracks=True):
    size = size or rng.choice([2, 4, 8, 15, 30])
    out = []
    for _ in range(size):
        if tracks and rng.random() < 0.1:
            out.append(rng.choice(["TR %d" % rng.choice([0, 1, 2, 3, 5, 9, 16, 17]), "CH %d" % rng.choice([1, 2, 10, 16, 0, 20]),
                                   "@ %d" % rng.choice([1, 5, 128])]))
        else:
            out.append(item(rng, depth))
    return " ".join(out)
