"""Pairs the note-on / note-off messages of a decoded track (output of the core driver kind `decode_track`)
into sounded notes (channel, key, start tick, duration, velocity)."""
import re

ITEM = re.compile(r"(\d+):(\w+)\(([^)]*)\)")


def notes_of_decoded(decoded_field):
    """decoded_field: '<items> TAB <abs ticks>' as printed by the driver"""
    parts = decoded_field.split("\t")
    if parts[0] == "DECODE-FAIL":
        return None
    items = ITEM.findall(parts[0])
    ticks = [int(x) for x in parts[1].split(",")] if len(parts) > 1 and parts[1] else []
    open_notes = {}
    notes = []
    for (d, kind, args), t in zip(items, ticks):
        if kind == "NoteOn":
            ch, key, vel = [int(x) for x in args.split(",")]
            open_notes.setdefault((ch, key), []).append((t, vel))
        elif kind == "NoteOff":
            ch, key, vel = [int(x) for x in args.split(",")]
            q = open_notes.get((ch, key))
            if q:
                st, v = q.pop(0)
                notes.append((ch, key, st, t - st, v))
            else:
                notes.append((ch, key, None, None, vel))
    for (ch, key), q in open_notes.items():
        for st, v in q:
            notes.append((ch, key, st, None, v))
    return sorted(notes, key=lambda n: (n[2] if n[2] is not None else -1, n[0], n[1], n[3] if n[3] is not None else -1, n[4]))


def other_events(decoded_field):
    parts = decoded_field.split("\t")
    if parts[0] == "DECODE-FAIL":
        return None
    items = ITEM.findall(parts[0])
    ticks = [int(x) for x in parts[1].split(",")] if len(parts) > 1 and parts[1] else []
    return [(t, kind, args) for (d, kind, args), t in zip(items, ticks) if kind not in ("NoteOn", "NoteOff")]


def onoff_of_decoded(decoded_field):
    """multiset view that stays meaningful when notes of one pitch overlap: sorted note-on (ch,key,tick,vel)
    and note-off (ch,key,tick) lists"""
    parts = decoded_field.split("\t")
    if parts[0] == "DECODE-FAIL":
        return None
    items = ITEM.findall(parts[0])
    ticks = [int(x) for x in parts[1].split(",")] if len(parts) > 1 and parts[1] else []
    ons, offs = [], []
    for (d, kind, args), t in zip(items, ticks):
        if kind == "NoteOn":
            ch, key, vel = [int(x) for x in args.split(",")]
            ons.append((ch, key, t, vel))
        elif kind == "NoteOff":
            ch, key, vel = [int(x) for x in args.split(",")]
            offs.append((ch, key, t))
    return (sorted(ons), sorted(offs))


def onoff_of_notes(notes):
    """notes: (ch,key,start,dur,vel) as the specification gives them; what the file must contain (times never
    run backwards in a track: an event earlier than its predecessor is written at the predecessor's tick)"""
    ons = sorted((ch, key, max(st, 0), vel) for (ch, key, st, dur, vel) in notes)
    offs = sorted((ch, key, max(st + dur, 0)) for (ch, key, st, dur, vel) in notes)
    return (ons, offs)
