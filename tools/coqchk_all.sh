#!/bin/bash
# independent re-check of every compiled property file and all it loads; prints the axiom summary (about 6 minutes)
cd "$(dirname "$0")/../coq"
Q="-Q model Sakura.Model -Q spec Sakura.Spec -Q proofs Sakura.Proofs -Q props Sakura.Props -Q gen Sakura.Gen"
timeout 3000 coqchk -o -silent $Q $(ls props/*.vo | sed 's#props/\(.*\)\.vo#Sakura.Props.\1#') 2>&1 | tail -20
