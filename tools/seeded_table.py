#!/usr/bin/env python3
"""Rewrites the table of section 13.5 of DESIGN.md from seeded/*/meta.json."""
import glob, json, os, re
V = os.path.dirname(os.path.dirname(os.path.abspath(__file__)))
rows = []
for p in sorted(glob.glob(os.path.join(V, "seeded", "*", "meta.json"))):
    m = json.load(open(p, encoding="utf-8"))
    sid = os.path.basename(os.path.dirname(p))
    c = m.get("caught_by", {})
    esc = lambda s: str(s).replace("|", "\\|").replace("\n", " ")
    rows.append("| %s | %s | %s | %s: %s |" % (sid, esc(m.get("what", ""))[:260], esc(m.get("needs", ""))[:200],
                                                esc(c.get("check", "")), esc(c.get("verdict", ""))[:330]))
table = "| id | change | needs | caught by |\n|---|---|---|---|\n" + "\n".join(rows) + "\n"
d = os.path.join(V, "DESIGN.md")
s = open(d, encoding="utf-8").read()
a = s.index("| id | change | needs | caught by |")
b = s.index("### 13.6")
s = s[:a] + table + "\n" + s[b:]
open(d, "w", encoding="utf-8").write(s)
print(len(rows), "rows")
