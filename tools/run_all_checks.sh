#!/bin/bash
# runs every registered check (quick tier by default) against /repo, 4 at a time; prints one verdict line per check
cd "$(dirname "$0")/.."
TIER=${1:-quick}
python3 tools/gen_tables.py >/dev/null
ls tools/props/c*.py | sed 's#.*/c\([0-9]*\)\.py#C\1#' | xargs -P 4 -I{} sh -c "./check {} --tier $TIER 2>&1 | grep -E '^(VIOLATION|OK|FAIL|KNOWN|CHECK-ERROR)' | sed 's/^/{}: /'"
