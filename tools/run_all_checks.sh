#!/bin/bash
# development helper: every registered check, one line each
cd "$(dirname "$0")/.."
for p in C01 C02 C03 C04 C05 C06 C07 C08 C09 C10 C11 C12 C13 C14 C15 C16 C17 C18 C19 C20; do
  if [ ! -f coq/props/$p.v ]; then echo "$p: (no props file in this clone)"; continue; fi
  out=$(timeout 3000 ./check $p "$@" 2>&1); rc=$?
  echo "$p: exit=$rc $(echo "$out" | grep -E '^(OK|VIOLATION|KNOWN-FINDING|ERROR)' | tr '\n' ' ' | cut -c1-300)"
  if [ $rc -ne 0 ]; then echo "$out" | tail -15 | sed 's/^/    /'; fi
done
