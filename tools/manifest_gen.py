#!/usr/bin/env python3
"""Regenerates MANIFEST.json from the table below (one entry per claimed property)."""
import json, os
VERIF = os.path.dirname(os.path.dirname(os.path.abspath(__file__)))
TECH = "machine-checked proof in Coq (Gallina model vs specification) + model/implementation correspondence"
CHECKS = {
 "C01": ("Coq theorems C01_container / C01_bigendian16 / C01_bigendian32: for every list of tracks and every dimension that fits the SMF fields, the bytes of the writer model parse - under a strict chunk parser that admits nothing before, between or after chunks - as one MThd (length 6, format 1, count = tracks, division = time base) followed by exactly the track bodies, each ending in End-of-Track. Closed under the global context. Model tied to midi::generate by differential runs on constructed songs; the extracted parser is applied to every byte vector the implementation returns for constructed songs and compiled sources (well-formed, malformed, Japanese, TR 0..999, TimeBase 24..10^7).",
         "Trusted: Coq kernel; hand-written model of generate/array_push_* (correspondence only); SMF chunk grammar in spec/SmfSpec.v; dims_ok (bodies < 2^32 bytes, <= 65535 tracks) is a hypothesis; that compiled sources always meet it (time base clamp 48..32767) is checked on the implementation, the lexer-side lemma is not yet part of the proof.",
         TECH + " + extracted specification parser as oracle on the implementation", "DESIGN.md 6/C01"),
 "C02": ("Coq theorems C02_vlq_roundtrip (whole 0..2^28-1 range, <= 4 bytes), C02_track_decodes (the track writer model followed by the specification decoder gives exactly the (delta, message) sequence the event list denotes, for EVERY value of v1..v3/channel - saturated - so the stream is always legal; End-of-Track once and last), C02_abs_ticks, C02_normalize (permutation, sorted, stable, every note-on paired with its note-off at start+gate) and C02_stable_sort_unique. Closed under the global context. Model tied to midi::generate on constructed songs of every event kind; the extracted decoder is applied to the implementation's track bodies and compared with the event snapshot taken before generate().",
         "Trusted: Coq kernel; hand-written model of generate_track/split_note_off/events_sort (correspondence only); slice::sort_by stable (uniqueness theorem makes the model independent of the algorithm); SMF event grammar in spec/SmfSpec.v. DirectSMF payloads and hand-built Meta events with inconsistent length byte are excluded as the property says.",
         TECH + " + extracted SMF decoder as oracle on the implementation", "DESIGN.md 6/C02"),
 "C03": ("Partial proof: C03_defaults (documented defaults = initial state of the model). The full pipeline model (lexer, token machine over the generic loop machine, writer) is tied to the implementation on every run (bytes and log equal on generated programs), and the documented semantics spec/NoteSem.v (extracted) is used as oracle: programs are generated as syntax trees, printed by the extracted Coq printer, and the notes decoded from the implementation's bytes must be exactly those the specification denotes. The simulation theorem model-vs-NoteSem is not proved yet.",
         "Trusted: Coq kernel; hand-written model LexCore/RunCore (correspondence only); reading of README/command.md in NoteSem; f32 gate arithmetic assumed exact in range. Sentinel values (gate 0, velocity<0, octave<0) excluded as DESIGN states.",
         "Coq model + extracted documented-semantics oracle + model/implementation correspondence (simulation theorem pending)", "DESIGN.md 6/C03"),
 "C04": ("Coq theorems C04_denotes / C04_additive / C04_literals: the Gallina model of calc_length equals the documented denotation for every well-formed length expression, every time base and default (induction over the part list, no bounds); closed under the global context. The model is tied to runner::calc_length by differential runs on grammar and junk strings each check.",
         "Trusted: Coq kernel; hand-written model of calc_length/get_int (correspondence only); f32 dot arithmetic assumed exact below 2^20; extraction + OCaml driver; Rust harness.",
         TECH, "DESIGN.md 6/C04"),
 "C17": ("Coq theorems C17_* over a Gallina model of sutoton::convert, zen2han and the regenerated vocabulary, all closed under the global context: the list stays sorted by descending length with unique non-empty names after init and every definition; the first match of the scan is the longest vocabulary prefix and equals the specification's longest_match; the width map is proved for all code points by arithmetic; closed strings and comments are verbatim; ASCII text without '~' converts to itself stripped; unambiguous readings convert to the concatenation of their MML, so Japanese and transliterated sources give the same MML; convert is total. Model tied to sutoton::convert by differential runs every check (all scalar values in the thorough tier).",
         "Trusted: Coq kernel and vm_compute; the hand-written model (correspondence only); stability of slice::sort_by (model sort proved to be the unique stable sort); char::is_whitespace as listed; tools/gen_tables.py; extraction, OCaml driver, Rust harness. Known findings C17-hash-comment-text / C17-hash-comment-midi: '#' comment forms are not protected by convert(). Definition spacing variants and the degenerate {\"} and /*/ are covered by correspondence only.",
         "machine-checked proof in Coq (model vs longest-match rewriting specification, table facts by vm_compute on the regenerated table) + model/implementation correspondence + Japanese-vs-transliteration compile law", "DESIGN.md 6/C17"),
}
PENDING = "check being built (see DESIGN.md section 10); not claimed yet"

def main():
    checks = []
    for pid in sorted(CHECKS):
        text, note, tech, ref = CHECKS[pid]
        checks.append({"property_id": pid, "quick_cmd": "./check %s --tier quick" % pid,
                       "thorough_cmd": "./check %s --tier thorough" % pid,
                       "evidence_file": "/verif/evidence/%s.json" % pid,
                       "replay_cmd_template": "./check %s --replay {path}" % pid,
                       "engine": "coq-proof+correspondence",
                       "level_claimed": {"category": "proof", "text": text, "design_ref": ref},
                       "level_note": note, "technique": tech})
    m = {"version": 1, "setup_cmd": "./setup.sh",
         "hooks": {"guard": "--cfg sakuramml_verif",
                   "enable": "RUSTFLAGS=\"--cfg sakuramml_verif\" cargo build --offline (harness crate; no source hook exists: everything needed is pub)",
                   "baseline_off_cmd": "cd /repo && cargo test --workspace --no-fail-fast --offline",
                   "source_commits": [], "add_only": True},
         "engines": [{"name": "coq-proof+correspondence", "path": "/verif/check", "serves_properties": sorted(CHECKS),
                      "kind_free_text": "Coq 8.16.1 theorems over a Gallina model; model tied to /repo by a translator (tables, constants, messages regenerated every run) and by differential correspondence (extracted OCaml model vs Rust harness built from the working tree); extracted Coq specifications serve as oracles on the implementation"}],
         "checks": checks,
         "not_applicable": [{"property_id": "C%02d" % i, "reason": PENDING} for i in range(1, 21) if "C%02d" % i not in CHECKS],
         "notes": "Every check: regenerate tables, rebuild the property's Coq cone (Print Assumptions captured, forbidden-construct scan), rebuild harness from /repo working tree, run corpus + correspondence + oracle search; VIOLATION lines carry a replay file; known findings in known_findings.json."}
    json.dump(m, open(os.path.join(VERIF, "MANIFEST.json"), "w"), indent=1, ensure_ascii=False)

if __name__ == "__main__":
    main()
