#!/usr/bin/env python3
# usage: mkprompt.py <round> <pid>...   writes /tmp/mut<round>_prompt_<pid>.txt listing every earlier change for the property
import json,glob,os,sys
rnd=sys.argv[1]
base=open('/tmp/mut2_prompt_C04.txt').read()
i=base.index('A change of this kind has ALREADY'); j=base.index('Prefer a change that is NOT simply')
for pid in sys.argv[2:]:
    whats=[]
    for d in sorted(glob.glob('/verif/seeded/%s*/meta.json'%pid)):
        whats.append(json.load(open(d))['what'].replace('"',"'"))
    mid='Changes of this kind have ALREADY been tried for this property - do something different from all of them, in a different function or mechanism: '+' '.join('(%d) "%s"'%(k+1,w) for k,w in enumerate(whats))+'. '
    s=base[:i]+mid+base[j:]
    s=s.replace('C04',pid).replace('/tmp/m2_','/tmp/m%s_'%rnd)
    open('/tmp/mut%s_prompt_%s.txt'%(rnd,pid),'w').write(s)
    print(pid,len(whats))
