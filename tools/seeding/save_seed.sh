#!/bin/bash
# usage: MUTPRE=m3 SUF=3 save_seed.sh Cxx "<check>" "<verdict>"   (no backticks in the verdict)
P=$1; CHK=$2; V=$3; PRE=${MUTPRE:-m2}; SUF=${SUF:-2}
d=/verif/seeded/${P}-${SUF}; mkdir -p $d; cp /tmp/${PRE}_${P}_out/patch.diff /tmp/${PRE}_${P}_out/demo_main.rs $d/
P=$P CHK="$CHK" V="$V" PRE=$PRE SUF=$SUF python3 - <<'PY'
import json,os
p=os.environ['P']; pre=os.environ['PRE']; suf=os.environ['SUF']
m=json.load(open('/tmp/%s_%s_out/meta.json'%(pre,p))); m["round"]=int(suf)
m["confirmed_by_lead"]=["cargo test --workspace --offline in the scratch worktree with the change: 75 passed","demo exits non-zero with the change, 0 without","checks run with SAKURA_REPO=<scratch worktree>"]
m["caught_by"]={"check":os.environ['CHK'],"verdict":os.environ['V']}
json.dump(m,open('/verif/seeded/%s-%s/meta.json'%(p,suf),'w'),indent=1,ensure_ascii=False)
PY
find /verif/replay -name "${P}-*.json" -delete
git -C /repo worktree remove --force /tmp/${PRE}_$P; rm -rf /tmp/${PRE}_${P}_demo /tmp/${PRE}_${P}_out /tmp/${PRE}_$P.patch
cd /verif && python3 tools/seeded_table.py >/dev/null
