#!/bin/bash
# usage: MUTPRE=m5 revalidate.sh Cxx "<checks>" : fresh worktree at /repo HEAD + the saved patch, tests, demo both ways, checks
P=$1; shift; CHECKS="$@"; PRE=${MUTPRE:-m5}; W=/tmp/${PRE}_$P; O=/tmp/${PRE}_${P}_out; D=/tmp/${PRE}_${P}_demo
export CARGO_NET_OFFLINE=true
cd /repo && git worktree remove --force $W 2>/dev/null; git worktree add -q --detach $W HEAD && cp Cargo.lock $W/
cd $W && git apply $O/patch.diff || { echo "PATCH DOES NOT APPLY on HEAD"; exit 1; }
echo "== $P tests with change:"; cargo test --workspace --no-fail-fast --offline 2>&1 | grep -E "^test result" | head -2 | awk '{print $4,$5,$6,$7}'
(cd $D && cargo run --offline -q >/dev/null 2>&1; echo "demo with change exit=$?")
git apply -R $O/patch.diff; (cd $D && cargo run --offline -q >/dev/null 2>&1; echo "demo without change exit=$?"); git apply $O/patch.diff   # never git stash: the stash is shared by all worktrees
cd /verif
for c in $CHECKS; do SAKURA_REPO=$W ./check $c 2>&1 | grep -E "^(VIOLATION|OK|FAIL|CHECK-ERROR)" | head -3; done
python3 tools/gen_tables.py
