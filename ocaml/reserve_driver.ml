(* Driver body for the reservation model (C16). Case kinds mirror harness/src/ext/reserve.rs.
   lists of integers: comma separated, "-" = empty, "N" = None (no reservation). *)

let z = z_of_string
(* decimal printing beyond the 62-bit range of common.ml.inc's string_of_z (saturated 64-bit values) *)
let rec zs (v : z) : string =
  try string_of_int (int_of_z v) with Bad _ ->
    let neg = (match v with Zneg _ -> true | _ -> false) in
    let a = if neg then Z.opp v else v in
    let base = z_of_int 1000000000 in
    (if neg then "-" else "") ^ zs (Z.div a base) ^ Printf.sprintf "%09d" (int_of_z (Z.modulo a base))
let field_of_ints (t : z list) : string = if t = [] then "-" else String.concat "," (List.map zs t)
let opt_ints_of_field (f : string) : z list option = if f = "N" then None else Some (ints_of_field f)
let field_of_opt_ints (o : z list option) : string = match o with None -> "N" | Some l -> field_of_ints l

let onres0 = { r_list = None; r_index = Z0; r_cycle = false }
(* Track::new(timebase, ch) restricted to the modelled fields *)
let track0 (ch : z) : track =
  { tr_timepos = Z0; tr_channel = ch; tr_velocity = z "100"; tr_qlen = z "90"; tr_timing = Z0; tr_octave = z "5";
    tr_v_on_time_start = z "-1"; tr_v_on_time = None;
    tr_v = onres0; tr_q = onres0; tr_t = onres0; tr_o = onres0; tr_l = onres0;
    tr_freq = z "4"; tr_events = []; tr_cc_on_note = []; tr_cc_on_note_wave = [] }

let which_of_field = function
  | "v" -> WV | "q" -> WQ | "t" -> WT | "o" -> WO | "l" -> WL | s -> raise (Bad ("which:" ^ s))

let etype_code = function
  | NoteOn -> "N" | NoteOff -> "F" | ControllChange -> "C" | PitchBend -> "P" | PitchBendRange -> "R"
  | Voice -> "V" | Meta -> "M" | SysEx -> "S" | DirectSMF -> "D"
let field_of_events (evs : event list) : string =
  if evs = [] then "-" else
  String.concat ";" (List.map (fun e ->
    let d = match e.e_data with None -> "-" | Some [] -> "e" | Some b -> field_of_bytes b in
    Printf.sprintf "%s:%s:%s:%s:%s:%s:%s" (etype_code e.e_type) (zs e.e_time) (zs e.e_ch) (zs e.e_v1) (zs e.e_v2) (zs e.e_v3) d) evs)
let field_of_ccs (l : cc_res list) : string =
  if l = [] then "-" else
  String.concat "/" (List.map (fun c -> Printf.sprintf "%s:%s:%s" (zs c.cc_no) (zs c.cc_index) (field_of_ints c.cc_data)) l)

(* commands of the mini runner, joined by '/': N:w:cyc:ia | T:ia | P:w:v | R:w:r | ct:no:ia | cn:no:ia | cw:no:ia |
   F:f | pb:big:ia | cc:no:v | n:pc | nn:key | r *)
let rcmd_of_field (f : string) : rcmd =
  match String.split_on_char ':' f with
  | ["N"; w; cyc; ia] -> ROnNote (which_of_field w, bool_of_field cyc, ints_of_field ia)
  | ["T"; ia] -> RVOnTime (ints_of_field ia)
  | ["P"; w; v] -> RPlain (which_of_field w, z v)
  | ["R"; w; r] -> RRandom (which_of_field w, z r)
  | ["ct"; no; ia] -> RCCOnTime (z no, ints_of_field ia)
  | ["cn"; no; ia] -> RCCOnNote (z no, ints_of_field ia)
  | ["cw"; no; ia] -> RCCOnNoteWave (z no, ints_of_field ia)
  | ["F"; v] -> RFreq (z v)
  | ["pb"; big; ia] -> RPBOnTime (z big, ints_of_field ia)
  | ["cc"; no; v] -> RCC (z no, z v)
  | ["n"; pc] -> RNote (z pc)
  | ["nn"; key] -> RNoteN (z key)
  | ["r"] -> RRest
  | _ -> raise (Bad ("rcmd:" ^ f))

let dispatch (fields : string list) : string =
  match fields with
  | ["f32ops"; a; b; c; d] ->
      (* ((a as f32) * (b as f32 / c as f32) + d as f32): truncations of a, of the value, of value * 65536 *)
      let a = z a and b = z b and c = z c and d = z d in
      let x = f32_add (f32_mul (f32_of_Z a) (f32_div (f32_of_Z b) (f32_of_Z c))) (f32_of_Z d) in
      Printf.sprintf "%s\t%s\t%s" (zs (f32_to_Z (f32_of_Z a))) (zs (f32_to_Z x))
        (zs (f32_to_Z (f32_mul x (f32_of_Z (z "65536")))))
  | ["on_note"; w; values; cycle; index; stored; defs] ->
      let w = which_of_field w in
      let k = track0 Z0 in
      let k = set_res w k { r_list = opt_ints_of_field values; r_index = z index; r_cycle = bool_of_field cycle } in
      let k = set_stored w k (z stored) in
      let (rs, k') = run_calls (calc_on_note w) k (ints_of_field defs) in
      let r = get_res w k' in
      Printf.sprintf "%s\t%s\t%s\t%s\t%s,%s,%s,%s" (field_of_ints rs) (field_of_opt_ints r.r_list) (zs r.r_index)
        (if r.r_cycle then "1" else "0") (zs k'.tr_velocity) (zs k'.tr_qlen) (zs k'.tr_timing) (zs k'.tr_octave)
  | ["v_on_time"; start; ia; timeposes; def] ->
      let k = set_v_on_time (track0 Z0) (opt_ints_of_field ia) (z start) in
      let (rs, k') = List.fold_left (fun (acc, k) tp ->
          let (v, k1) = calc_v_on_time (set_timepos k tp) (z def) in (v :: acc, k1)) ([], k) (ints_of_field timeposes) in
      Printf.sprintf "%s\t%s\t%s" (field_of_ints (List.rev rs)) (field_of_opt_ints k'.tr_v_on_time) (zs k'.tr_v_on_time_start)
  | ["cc_on_time"; timepos; ch; freq; ccno; ia] ->
      let k = { (set_timepos (track0 (z ch)) (z timepos)) with tr_freq = z freq } in
      field_of_events (write_cc_on_time k (z ccno) (ints_of_field ia)).tr_events
  | ["pb_on_time"; timepos; ch; is_big; timebase; ia] ->
      let k = set_timepos (track0 (z ch)) (z timepos) in
      field_of_events (write_pb_on_time k (z is_big) (ints_of_field ia) (z timebase)).tr_events
  | ["cc_on_note"; ch; freq; ops] ->
      (* ops joined by '/': s:no:vals | w:no:vals | r:no | n:start | W:start:timepos *)
      let k = { (track0 (z ch)) with tr_freq = z freq } in
      let k = List.fold_left (fun k op ->
          match String.split_on_char ':' op with
          | ["s"; no; vals] -> set_cc_on_note k (z no) (ints_of_field vals)
          | ["w"; no; vals] -> set_cc_on_note_wave k (z no) (ints_of_field vals)
          | ["r"; no] -> remove_cc_on k (z no)
          | ["n"; start] -> write_cc_on_note k (z start)
          | ["W"; start; tp] -> write_cc_on_note_wave (set_timepos k (z tp)) (z start)
          | _ -> raise (Bad ("op:" ^ op))) k (split_on '/' ops) in
      Printf.sprintf "%s\t%s\t%s\t%s" (field_of_events k.tr_events) (field_of_ccs k.tr_cc_on_note)
        (field_of_ccs k.tr_cc_on_note_wave) (zs k.tr_timepos)
  | ["run"; ch; timebase; cmds] ->
      (* the events pushed on one track by a command sequence, from Track::new / Song::new *)
      let s = exec_cmds (rstate_new (z ch) (z timebase)) (List.map rcmd_of_field (split_on '/' cmds)) in
      Printf.sprintf "%s\t%s" (field_of_events s.rs_k.tr_events) (zs s.rs_k.tr_timepos)
  | ["rand"; seed; n] ->
      field_of_ints (rand_seq (z seed) (nat_of_int (int_of_string n)))
  | ["rand_value"; seed; v; width; n] ->
      field_of_ints (rand_values (z seed) (z v) (z width) (nat_of_int (int_of_string n)))
  | k :: _ -> "UNKNOWN-KIND:" ^ k
  | [] -> "EMPTY"
