(* Driver for the extracted sutoton model (C17) and the rewriting specification oracles.
   Text = comma separated code points, "-" = empty. *)

let string_of_res (f : 'a -> string) (r : 'a res) : string =
  match r with Ok a -> f a | Panic s -> "PANIC" | OutOfFuel -> "OUTOFFUEL" | Unsupported w -> "UNSUPPORTED:" ^ string_of_z w

(* pieces: ';' separated; "w:<name>:<value>" (texts) or "c:<code point>" *)
let piece_of_field (f : string) : piece =
  match String.split_on_char ':' f with
  | ["w"; n; v] -> PWord (text_of_field n, text_of_field v)
  | ["c"; c] -> PChar (z_of_string c)
  | _ -> raise (Bad ("piece:" ^ f))
let pieces_of_field (f : string) : piece list = if f = "-" then [] else List.map piece_of_field (split_on ';' f)

(* definitions: ';' separated "<name>:<value>" *)
let defs_of_field (f : string) : (z list * z list) list =
  if f = "-" then [] else
  List.map (fun d -> match String.split_on_char ':' d with
                     | [n; v] -> (text_of_field n, text_of_field v)
                     | _ -> raise (Bad ("def:" ^ d))) (split_on ';' f)

let dispatch (fields : string list) : string =
  match fields with
  | ["convert"; s] -> string_of_res field_of_text (convert (text_of_field s))
  | ["zen2han"; c] -> string_of_z (zen2han (z_of_string c))
  | ["longest"; s] ->
      (* spec oracle: the longest vocabulary word that is a prefix of the text *)
      (match longest_match sutoton_table (text_of_field s) with
       | None -> "NONE"
       | Some (n, v) -> field_of_text n ^ "\t" ^ field_of_text v)
  | ["translit"; ps] ->
      (* spec oracle: is the reading unambiguous, its text, its transliteration (trailing white space removed, and raw) *)
      let ps = pieces_of_field ps in
      (if segmented sutoton_table ps [] then "SEG" else "AMBIG") ^ "\t" ^ field_of_text (src_of ps)
      ^ "\t" ^ field_of_text (strip_right (translit ps)) ^ "\t" ^ field_of_text (translit ps)
  | ["rewrite"; defs; s] ->
      (* spec oracle: reference rewriting of a text without strings/comments/definitions, under the
         vocabulary extended by the definitions *)
      let t = List.fold_left (fun t (n, v) -> define n v t) sutoton_table (defs_of_field defs) in
      let s = text_of_field s in
      if List.exists is_special s then "SPECIAL" else
      field_of_text (strip_right (rewrite (nat_of_int (List.length s + 1)) t s))
  | "chain" :: segs ->
      (* spec oracle for a text made of segments: b:<text> rewritten under the current vocabulary,
         d:<name>:<value>:<text> a definition written as <text> (adds to the vocabulary; the text is removed, its
         line breaks stay: definition_residue), m:<text> the text a malformed definition reads over (removed, its line
         breaks stay, the vocabulary is unchanged), v:<text> a closed string or comment (verbatim).
         Result: the stripped concatenation. *)
      let step (t, acc) seg =
        match String.split_on_char ':' seg with
        | ["b"; s] ->
            let s = text_of_field s in
            if List.exists is_special s then raise (Bad "SPECIAL") else
            (t, acc @ rewrite (nat_of_int (List.length s + 1)) t s)
        | ["d"; n; v; txt] -> (define (text_of_field n) (text_of_field v) t, acc @ definition_residue (text_of_field txt))
        | ["m"; txt] -> (t, acc @ definition_residue (text_of_field txt))
        | ["v"; s] -> (t, acc @ text_of_field s)
        | _ -> raise (Bad ("seg:" ^ seg)) in
      let (_, out) = List.fold_left step (sutoton_table, []) segs in
      field_of_text (strip_right out)
  | ["width_map"; c] -> string_of_z (width_map (z_of_string c))
  | ["residue"; s] -> field_of_text (definition_residue (text_of_field s))   (* what a removed definition leaves *)
  | ["strip"; s] -> field_of_text (strip_right (text_of_field s))   (* what convert does to its result: trim_end *)
  | k :: _ -> "UNKNOWN-KIND:" ^ k
  | [] -> "EMPTY"
