(* Driver for the C15 area (commands -> MIDI messages): the command model, the prescription
   (CmdSpec over GmSpec + DocTable) and the generated tables. *)

let string_of_name (n : z list) : string =
  String.concat "" (List.map (fun c -> let i = int_of_z c in
                                       if i >= 32 && i < 127 then String.make 1 (Char.chr i) else Printf.sprintf "\\u%04x" i) n)

let code_of_etype = function
  | NoteOn -> "N" | NoteOff -> "F" | ControllChange -> "C" | PitchBend -> "P" | PitchBendRange -> "R"
  | Voice -> "V" | Meta -> "M" | SysEx -> "S" | DirectSMF -> "D"
let field_of_event (e : event) : string =
  let d = match e.e_data with None -> "-" | Some [] -> "e" | Some b -> field_of_bytes b in
  Printf.sprintf "%s:%s:%s:%s:%s:%s:%s" (code_of_etype e.e_type) (string_of_z e.e_time) (string_of_z e.e_ch)
    (string_of_z e.e_v1) (string_of_z e.e_v2) (string_of_z e.e_v3) d
let field_of_events (l : event list) : string = if l = [] then "-" else String.concat ";" (List.map field_of_event l)

(* same rendering as core_driver.ml *)
let string_of_msg (m : msg) : string =
  let z = string_of_z in
  match m with
  | MNoteOff (c, k, v) -> Printf.sprintf "NoteOff(%s,%s,%s)" (z c) (z k) (z v)
  | MNoteOn (c, k, v) -> Printf.sprintf "NoteOn(%s,%s,%s)" (z c) (z k) (z v)
  | MPolyAT (c, k, v) -> Printf.sprintf "PolyAT(%s,%s,%s)" (z c) (z k) (z v)
  | MCC (c, k, v) -> Printf.sprintf "CC(%s,%s,%s)" (z c) (z k) (z v)
  | MProgram (c, p) -> Printf.sprintf "Program(%s,%s)" (z c) (z p)
  | MChanAT (c, p) -> Printf.sprintf "ChanAT(%s,%s)" (z c) (z p)
  | MBend (c, l, h) -> Printf.sprintf "Bend(%s,%s,%s)" (z c) (z l) (z h)
  | MMeta (t, p) -> Printf.sprintf "Meta(%s,%s)" (z t) (field_of_bytes p)
  | MSysEx p -> Printf.sprintf "SysEx(%s)" (field_of_bytes p)
  | MEscape p -> Printf.sprintf "Escape(%s)" (field_of_bytes p)
let string_of_items (l : (z * msg) list) : string =
  if l = [] then "-" else String.concat " " (List.map (fun (d, m) -> string_of_z d ^ ":" ^ string_of_msg m) l)
let string_of_res (f : 'a -> string) (r : 'a res) : string =
  match r with Ok a -> f a | Panic s -> "PANIC" | OutOfFuel -> "OUTOFFUEL" | Unsupported w -> "UNSUPPORTED:" ^ string_of_z w

let pairs (l : (z list * z) list) : string =
  String.concat ";" (List.map (fun (n, v) -> string_of_name n ^ "," ^ string_of_z v) l)
let sorted_pairs l = pairs (List.sort (fun (a, _) (b, _) -> compare (string_of_name a) (string_of_name b)) l)

let dispatch (fields : string list) : string =
  match fields with
  | ["cmd"; name; time; ch; dev; args; txt] ->
      (* the model's events for one command: name, track time/channel, device number, evaluated arguments, text *)
      let st = { c_time = z_of_string time; c_ch = z_of_string ch; c_dev = z_of_string dev } in
      string_of_res field_of_events (run_any (text_of_field name) st (ints_of_field args) (text_of_field txt))
  | ["cmd_wire"; name; time; ch; dev; args; txt] ->
      (* what the model's events denote on the wire (TrackSpec.wire) *)
      let st = { c_time = z_of_string time; c_ch = z_of_string ch; c_dev = z_of_string dev } in
      string_of_res (fun evs -> string_of_items (wire Z0 evs))
        (run_any (text_of_field name) st (ints_of_field args) (text_of_field txt))
  | ["sysex"; time; checksum; args] ->
      field_of_events (cmd_sysex (z_of_string time) (ints_of_field args) (bool_of_field checksum))
  | ["spec"; name; time; ch; dev; args; txt] ->
      (* the prescription: decoded (delta, message) items the standard and the command list demand *)
      (match prescription_of (text_of_field name) with
       | None -> "NOSPEC"
       | Some p ->
           (match spec_msgs p (z_of_string ch) (z_of_string dev) (ints_of_field args) (text_of_field txt) with
            | None -> "NODOMAIN"
            | Some ms -> string_of_items (spec_items (z_of_string time) ms)))
  | ["presc"; name] ->
      (* which prescription (CmdSpec) a spelling falls under *)
      let z = string_of_z in
      (match prescription_of (text_of_field name) with
       | None -> "NONE"
       | Some p ->
           (match p with
            | PController n -> "Controller," ^ z n
            | PControlChange -> "ControlChange"
            | PProgram -> "Program"
            | PTempo -> "Tempo" | PTimeSig -> "TimeSig" | PText t -> "Text," ^ z t | PPort -> "Port"
            | PBend -> "Bend" | PBendSmall -> "BendSmall"
            | PRpn (m, l) -> "Rpn," ^ z m ^ "," ^ z l | PNrpn (m, l) -> "Nrpn," ^ z m ^ "," ^ z l
            | PRpnDirect -> "RpnDirect" | PNrpnDirect -> "NrpnDirect"
            | PFixedSysEx pl -> "FixedSysEx," ^ field_of_bytes pl
            | PMasterVolume -> "MasterVolume" | PMasterBalance -> "MasterBalance"
            | PGsEffect a -> "GsEffect," ^ z a | PGsEffectDirect -> "GsEffectDirect"
            | PGsRhythm -> "GsRhythm" | PGsScaleTuning -> "GsScaleTuning"))
  | ["roland_ok"; bytes] -> if roland_ok (bytes_of_field bytes) then "1" else "0"
  | ["sysfunc_table"] ->
      let rows = List.map (fun r -> (string_of_name r.sf_name,
                                     Printf.sprintf "%s,%s,%s,%s,%s" (string_of_name r.sf_name) (string_of_name (ttype_name r.sf_type))
                                       (string_of_z r.sf_arg) (string_of_z r.sf_tag1) (string_of_z r.sf_tag2))) sysfuncs in
      let rows = List.sort (fun (a, _) (b, _) -> compare a b) rows in
      string_of_z sysfunc_count ^ "\t" ^ String.concat ";" (List.map snd rows)
  | ["voice_table"] -> sorted_pairs voices
  | ["doc"; what] ->
      (match what with
       | "commands" -> String.concat ";" (List.map string_of_name doc_command_names)
       | "aliases" -> String.concat ";" (List.map (fun g -> String.concat "," (List.map string_of_name g)) doc_alias_groups)
       | "cc" -> pairs doc_cc
       | "values" -> pairs doc_values
       | "voices" -> pairs doc_voices
       | "drumsets" -> pairs doc_drumsets
       | "drumnotes" -> pairs doc_drumnotes
       | "rhythm" -> String.concat ";" (List.map (fun (c, t) -> string_of_z c ^ "," ^ field_of_text t) doc_rhythm)
       | "gm_programs" -> pairs gm_programs
       | "gm_percussion" -> pairs gm_percussion
       | "default_device" -> string_of_z dEFAULT_DEVICE
       | _ -> "BAD:doc")
  | ["utf8"; txt] ->
      let s = text_of_field txt in
      let m = utf8_encode s and sp = utf8 s in
      field_of_bytes m ^ "\t" ^ field_of_bytes sp ^ "\t" ^
      (match utf8_decode m with None -> "NODECODE" | Some l -> field_of_text l)
  | k :: _ -> "UNKNOWN-KIND:" ^ k
  | [] -> "EMPTY"
