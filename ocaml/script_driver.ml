(* Driver of area `script` (C11): the extracted script-layer model.
   compile_script <src>  ->  <hex bytes> TAB <log text>   (same format as compile_core of the core driver)
   compile_script_ja <src>  ->  the same with the message language ja *)
let dispatch (fields : string list) : string =
  match fields with
  | ["compile_script"; src] ->
      (match compile_script (text_of_field src) with
       | Ok (bytes, log) -> field_of_bytes bytes ^ "\t" ^ field_of_text log
       | Panic s -> "PANIC:" ^ string_of_z s | OutOfFuel -> "OUTOFFUEL" | Unsupported w -> "UNSUPPORTED:" ^ string_of_z w)
  | ["compile_script_ja"; src] ->
      (* the same pipeline with the message language ja: Script.compile_script_lang true *)
      (match compile_script_lang true (text_of_field src) with
       | Ok (bytes, log) -> field_of_bytes bytes ^ "\t" ^ field_of_text log
       | Panic s -> "PANIC:" ^ string_of_z s | OutOfFuel -> "OUTOFFUEL" | Unsupported w -> "UNSUPPORTED:" ^ string_of_z w)
  | k :: _ -> "UNKNOWN-KIND:" ^ k
  | [] -> "EMPTY"
