(* Driver for the extracted model: reads one case per line (tab separated), prints one result
   per line. Integers cross the boundary in decimal, text as comma separated code points,
   bytes as hex; "-" is the empty text / byte string. *)


(* ---- C04: length expressions. atom = step:neg:digits:dots ; parts prefixed by ^ or + ---- *)
let atom_of_field (f : string) : atom =
  match String.split_on_char ':' f with
  | [s; n; ds; k] ->
      let digits = if ds = "_" then [] else List.init (String.length ds) (fun i -> z_of_int (Char.code ds.[i] - 48)) in
      { a_step = bool_of_field s; a_neg = bool_of_field n; a_num = digits; a_dots = nat_of_int (int_of_string k) }
  | _ -> raise (Bad ("atom:" ^ f))
let expr_of_fields (head : string) (parts : string) : expr =
  let ps = if parts = "-" then [] else
    List.map (fun p -> ((p.[0] = '^'), atom_of_field (String.sub p 1 (String.length p - 1)))) (split_on ';' parts) in
  (atom_of_field head, ps)

(* ---- events: T:time:ch:v1:v2:v3:data joined by ';', tracks joined by '/' ---- *)
let etype_of_code = function
  | "N" -> NoteOn | "F" -> NoteOff | "C" -> ControllChange | "P" -> PitchBend | "R" -> PitchBendRange
  | "V" -> Voice | "M" -> Meta | "S" -> SysEx | _ -> DirectSMF
let event_of_field (f : string) : event =
  match String.split_on_char ':' f with
  | [t; time; ch; v1; v2; v3; d] ->
      let data = if d = "-" then None else if d = "e" then Some [] else Some (bytes_of_field d) in
      { e_type = etype_of_code t; e_time = z_of_string time; e_ch = z_of_string ch; e_v1 = z_of_string v1;
        e_v2 = z_of_string v2; e_v3 = z_of_string v3; e_data = data }
  | _ -> raise (Bad ("event:" ^ f))
let events_of_field (f : string) : event list = if f = "-" then [] else List.map event_of_field (split_on ';' f)
let tracks_of_field (f : string) : event list list = List.map events_of_field (String.split_on_char '/' f)

let string_of_msg (m : msg) : string =
  let z = string_of_z in
  match m with
  | MNoteOff (c, k, v) -> Printf.sprintf "NoteOff(%s,%s,%s)" (z c) (z k) (z v)
  | MNoteOn (c, k, v) -> Printf.sprintf "NoteOn(%s,%s,%s)" (z c) (z k) (z v)
  | MPolyAT (c, k, v) -> Printf.sprintf "PolyAT(%s,%s,%s)" (z c) (z k) (z v)
  | MCC (c, k, v) -> Printf.sprintf "CC(%s,%s,%s)" (z c) (z k) (z v)
  | MProgram (c, p) -> Printf.sprintf "Program(%s,%s)" (z c) (z p)
  | MChanAT (c, p) -> Printf.sprintf "ChanAT(%s,%s)" (z c) (z p)
  | MBend (c, l, h) -> Printf.sprintf "Bend(%s,%s,%s)" (z c) (z l) (z h)
  | MMeta (t, p) -> Printf.sprintf "Meta(%s,%s)" (z t) (field_of_bytes p)
  | MSysEx p -> Printf.sprintf "SysEx(%s)" (field_of_bytes p)
  | MEscape p -> Printf.sprintf "Escape(%s)" (field_of_bytes p)
let string_of_items (l : (z * msg) list) : string =
  String.concat " " (List.map (fun (d, m) -> string_of_z d ^ ":" ^ string_of_msg m) l)
let string_of_res (f : 'a -> string) (r : 'a res) : string =
  match r with Ok a -> f a | Panic s -> "PANIC" | OutOfFuel -> "OUTOFFUEL" | Unsupported w -> "UNSUPPORTED:" ^ string_of_z w

(* ---- C03: programs of the core note language as a token stream (see tools/astgen.py) ---- *)
let oint (f : string) : z option = if f = "-" then None else Some (z_of_string f)
let olen_of (f : string) : expr option =
  if f = "-" then None else
  match String.split_on_char '|' f with
  | [h; ps] -> Some (expr_of_fields h ps)
  | _ -> raise (Bad ("len:" ^ f))
let rec parse_cmds (toks : string list) (stop : string list) : cmd list * string list =
  match toks with
  | [] -> ([], [])
  | t :: _ when List.mem t stop -> ([], toks)
  | _ -> let (c, rest) = parse_cmd toks in let (cs, rest') = parse_cmds rest stop in (c :: cs, rest')
and parse_cmd (toks : string list) : cmd * string list =
  match toks with
  | "N" :: b :: a :: n :: l :: g :: v :: t :: o :: r ->
      (CNote (z_of_string b, z_of_string a, n = "1", olen_of l, oint g, oint v, oint t, oint o), r)
  | "M" :: no :: l :: g :: v :: t :: r -> (CNoteN (z_of_string no, olen_of l, oint g, oint v, oint t), r)
  | "R" :: l :: r -> (CRest (olen_of l), r)
  | "L" :: l :: r -> (CLen (olen_of l), r)
  | "O" :: v :: r -> (COct (z_of_string v), r)
  | "V" :: v :: r -> (CVel (z_of_string v), r)
  | "Q" :: v :: r -> (CGate (z_of_string v), r)
  | "T" :: v :: r -> (CTiming (z_of_string v), r)
  | ">" :: r -> (COctUp, r) | "<" :: r -> (COctDown, r) | ")" :: r -> (CVelUp, r) | "(" :: r -> (CVelDown, r)
  | "[" :: n :: r ->
      let (body, r1) = parse_cmds r [":"; "]"] in
      (match r1 with
       | ":" :: r2 -> let (b, r3) = parse_cmds r2 ["]"] in
           (match r3 with "]" :: r4 -> (CLoop (oint n, body, Some b), r4) | _ -> raise (Bad "loop"))
       | "]" :: r2 -> (CLoop (oint n, body, None), r2)
       | _ -> raise (Bad "loop"))
  | "H{" :: r ->
      let (items, r1) = parse_cmds r ["}H"] in
      (match r1 with "}H" :: l :: g :: v :: r2 -> (CChord (items, olen_of l, oint g, oint v), r2) | _ -> raise (Bad "chord"))
  | "D{" :: r ->
      let (items, r1) = parse_cmds r ["}D"] in
      (match r1 with "}D" :: l :: r2 -> (CTuplet (items, olen_of l), r2) | _ -> raise (Bad "tuplet"))
  | "S{" :: r ->
      let (items, r1) = parse_cmds r ["}S"] in
      (match r1 with "}S" :: r2 -> (CSub items, r2) | _ -> raise (Bad "sub"))
  | "TR" :: n :: r -> (CTrack (z_of_string n), r)
  | "CH" :: n :: r -> (CChannel (z_of_string n), r)
  | "@" :: n :: r -> (CVoice (z_of_string n), r)
  | "KF" :: sg :: ls :: r -> (CKeyFlag (sg = "+", ints_of_field ls), r)
  | "KS" :: k :: r -> (CKeyShift (z_of_string k), r)
  | "TK" :: k :: r -> (CTrackKey (z_of_string k), r)
  | "U" :: ms :: "N" :: b :: a :: n :: l :: g :: v :: t :: o :: r ->
      (* octave-once marks (1 = back-quote, -1 = double quote) in front of a lettered note *)
      (COnce (ints_of_field ms, z_of_string b, z_of_string a, n = "1", olen_of l, oint g, oint v, oint t, oint o), r)
  | t :: _ -> raise (Bad ("cmd:" ^ t))
  | [] -> raise (Bad "cmd:eof")
let string_of_notes (p : perf) : string =
  String.concat "/" (List.map (fun t ->
    if t.t_notes = [] then "-" else
    String.concat "," (List.map (fun n -> Printf.sprintf "%s:%s:%s:%s:%s" (string_of_z n.n_ch) (string_of_z n.n_key)
      (string_of_z n.n_start) (string_of_z n.n_dur) (string_of_z n.n_vel)) t.t_notes)) p.p_tracks)

let dispatch (fields : string list) : string =
  match fields with
  | ["calc_length"; s; tb; d] ->
      string_of_z (calc_length (text_of_field s) (z_of_string tb) (z_of_string d))
  | ["len_spec"; head; parts; tb; d] ->
      let e = expr_of_fields head parts in
      if not (expr_wf e) then "NOTWF" else
      field_of_text (print e) ^ "\t" ^ string_of_z (denote (z_of_string tb) (z_of_string d) e)
  | ["get_int"; s; def] ->
      let (v, r) = get_int (z_of_string def) (text_of_field s) in
      string_of_z v ^ "\t" ^ string_of_int (List.length r)
  | ["get_note_length"; s] ->
      let ((t, r), ln) = get_note_length (text_of_field s) Z0 in
      field_of_text t ^ "\t" ^ string_of_int (List.length r) ^ "\t" ^ string_of_z ln
  | ["note_spec"; ast] ->
      let (prog, rest) = parse_cmds (List.filter (fun x -> x <> "") (String.split_on_char ' ' ast)) [] in
      if rest <> [] then "BAD:trailing" else
      field_of_text (pprog prog) ^ "\t" ^ string_of_notes (denote_prog prog)
  | ["compile_core"; src] ->
      (match compile (text_of_field src) with
       | Ok (bytes, log) -> field_of_bytes bytes ^ "\t" ^ field_of_text log
       | Panic _ -> "PANIC" | OutOfFuel -> "OUTOFFUEL" | Unsupported w -> "UNSUPPORTED:" ^ string_of_z w)
  | ["compile_core_ja"; src] ->
      (* the same pipeline with the message language ja (SakuraCompiler::set_language("ja")): Compile.compile_lang true *)
      (match compile_lang true (text_of_field src) with
       | Ok (bytes, log) -> field_of_bytes bytes ^ "\t" ^ field_of_text log
       | Panic _ -> "PANIC" | OutOfFuel -> "OUTOFFUEL" | Unsupported w -> "UNSUPPORTED:" ^ string_of_z w)
  | ["generate"; tb; tracks] ->
      string_of_res field_of_bytes (generate (z_of_string tb) (tracks_of_field tracks))
  | ["container"; bytes] ->
      (* spec oracle: strict container parse; prints format, ntrks, division, number of chunks *)
      let bs = bytes_of_field bytes in
      (match parse_file bs with
       | None -> "NOPARSE"
       | Some (h, chunks) ->
           Printf.sprintf "%s\t%s\t%s\t%s\t%d\t%s" (if container_ok bs then "OK" else "BAD")
             (string_of_z h.h_format) (string_of_z h.h_ntrks) (string_of_z h.h_division) (List.length chunks)
             (String.concat "/" (List.map field_of_bytes chunks)))
  | ["track_oracle"; events; body] ->
      (* spec oracle for one track: decode the body and compare with what the event list denotes *)
      let evs = normalize_and_sort (events_of_field events) in
      if not (List.for_all event_ok evs) then "EXCLUDED" else
      let want = app (wire Z0 evs) [eOTmsg] in
      if not (deltas_ok want) then "EXCLUDED-DELTA" else
      (match decode_track (bytes_of_field body) with
       | None -> "DECODE-FAIL\t" ^ string_of_items want
       | Some got -> if got = want then "OK\t" ^ string_of_int (List.length got)
                     else "MISMATCH\t" ^ string_of_items want ^ "\t" ^ string_of_items got)
  | ["decode_track"; body] ->
      (match decode_track (bytes_of_field body) with
       | None -> "DECODE-FAIL"
       | Some got -> string_of_items got ^ "\t" ^ String.concat "," (List.map string_of_z (abs_ticks Z0 got)))
  | ["lex_vs_tokens"; ast] ->
      (* C03 model-internal consistency: the model lexer on the printed tree vs NoteSimDefs.tokens_of
         (TLineNo 0 first, as every lex call). SKIP = outside wf_prog / lexable_prog. *)
      let (prog, rest) = parse_cmds (List.filter (fun x -> x <> "") (String.split_on_char ' ' ast)) [] in
      if rest <> [] then "BAD:trailing" else
      if not (wf_prog prog) then "SKIP:wf" else
      if not (lexable_prog prog) then "SKIP:lexable" else
      let z = string_of_z in
      let zl l = String.concat "." (List.map z l) in
      let rec pt (t : tok) : string =
        match t with
        | TLineNo n -> "Ln" ^ z n
        | TNote (b, f, n, l, q, v, tm, o, s) -> Printf.sprintf "N(%s,%s,%s,[%s],%s,%s,%s,%s,%s)" (z b) (z f) (z n) (zl l) (z q) (z v) (z tm) (z o) (z s)
        | TNoteN (no, l, q, v, tm, s) -> Printf.sprintf "M(%s,[%s],%s,%s,%s,%s)" (z no) (zl l) (z q) (z v) (z tm) (z s)
        | TRest (d, l) -> Printf.sprintf "R(%s,[%s])" (z d) (zl l)
        | TLength l -> Printf.sprintf "L[%s]" (zl l)
        | TOctave v -> "O" ^ z v | TOctaveRel v -> "Or" ^ z v | TOctaveOnce v -> "Oo" ^ z v
        | TVelocity (v, i) -> Printf.sprintf "V(%s,%s)" (z v) (z i) | TVelocityRel v -> "Vr" ^ z v
        | TQLen v -> "Q" ^ z v | TTiming v -> "T" ^ z v
        | TLoopBegin n -> "[" ^ z n | TLoopBreak -> ":" | TLoopEnd -> "]"
        | THarmonyBegin -> "H{"
        | THarmonyEnd (l, q, v) -> Printf.sprintf "}H([%s],%s,%s)" (zl l) (z q) (match v with Some x -> z x | None -> "-")
        | TDiv (c, l, ch) -> Printf.sprintf "D(%s,[%s]){%s}" (z c) (zl l) (String.concat " " (List.map pt ch))
        | TSub ch -> Printf.sprintf "S{%s}" (String.concat " " (List.map pt ch))
        | TTrack v -> "TR" ^ z v | TChannel v -> "CH" ^ z v | TVoice a -> "@" ^ zl a
        | TKeyFlag a -> "KF" ^ zl a | TKeyShift v -> "KS" ^ z v | TTrackKey v -> "TK" ^ z v
        | _ -> "?" in
      let pts l = String.concat " " (List.map pt l) in
      (match lex_of_prog prog with
       | Ok toks -> if toks = top_tokens prog then "OK\t" ^ string_of_int (List.length toks)
                    else "MISMATCH\t" ^ pts toks ^ "\t" ^ pts (top_tokens prog)
       | Panic _ -> "PANIC" | OutOfFuel -> "OUTOFFUEL" | Unsupported w -> "UNSUPPORTED:" ^ string_of_z w)
  | k :: _ -> "UNKNOWN-KIND:" ^ k
  | [] -> "EMPTY"

