(* Driver for the extracted dump model (C20).
   dump <hexbytes>        -> text of dump_midi(bytes, false) as code points, or PANIC
   read_delta <hexbytes>  -> value \t bytes consumed (array_readl_delta_time from position 0) *)
let string_of_res (f : 'a -> string) (r : 'a res) : string =
  match r with Ok a -> f a | Panic s -> "PANIC" | OutOfFuel -> "OUTOFFUEL" | Unsupported w -> "UNSUPPORTED:" ^ string_of_z w

(* decimal of a non-negative z of any size (read_delta can return values up to 2^64-1) *)
let rec big_string_of_z (v : z) : string =
  let ten = z_of_int 10 in
  if Z.ltb v ten then string_of_z v else big_string_of_z (Z.div v ten) ^ string_of_z (Z.modulo v ten)

(* text field of a long code point list without deep recursion *)
let field_of_long_text (t : z list) : string =
  if t = [] then "-" else begin
    let b = Buffer.create 65536 in
    List.iteri (fun i c -> if i > 0 then Buffer.add_char b ','; Buffer.add_string b (string_of_z c)) t;
    Buffer.contents b
  end

let dispatch (fields : string list) : string =
  match fields with
  | ["dump"; bytes] -> string_of_res field_of_long_text (dump_text (bytes_of_field bytes))
  | ["read_delta"; bytes] ->
      let bs = bytes_of_field bytes in
      let (v, r) = read_delta bs in
      big_string_of_z v ^ "\t" ^ string_of_int (List.length bs - List.length r)
  | k :: _ -> "UNKNOWN-KIND:" ^ k
  | [] -> "EMPTY"

