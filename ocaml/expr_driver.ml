(* Driver of area `expr` (C10): the extracted specification (printer, denotation, built-ins) and
   the extracted model (read_calc + evaluation).
   tree  = prefix encoding, items separated by blanks:
           d<digits> | h$<hexdigits> | hx<hexdigits> | o<octal digits> | s<code points joined by '.'> (s- = empty)
           | v<name> | n <tree> | b<op> <tree> <tree>    with op in mul div mod add sub eq eq2 ne ne2 lt le gt ge and or
   env   = entries joined by ';' ('-' = empty):  NAME:i:<int> | NAME:s:<code points joined by '.'> | NAME:a:<ints joined by '.'>
   choices = natural numbers joined by ',' ('-' = the canonical printer) *)

let chars_of_string (s : string) : z list = List.init (String.length s) (fun i -> z_of_int (Char.code s.[i]))
let dotted (f : string) : z list = if f = "-" || f = "" then [] else List.map z_of_string (String.split_on_char '.' f)

let hex_digit (c : char) : z * bool =
  match c with
  | '0' .. '9' -> (z_of_int (Char.code c - 48), false)
  | 'a' .. 'f' -> (z_of_int (Char.code c - 87), false)
  | 'A' .. 'F' -> (z_of_int (Char.code c - 55), true)
  | _ -> raise (Bad "hexdigit")
let digits (s : string) : z list = List.init (String.length s) (fun i -> z_of_int (Char.code s.[i] - 48))
let rest (s : string) (k : int) : string = String.sub s k (String.length s - k)

let op_of_string = function
  | "mul" -> OMul | "div" -> ODiv | "mod" -> OMod | "add" -> OAdd | "sub" -> OSub
  | "eq" -> OEq | "eq2" -> OEq2 | "ne" -> ONe | "ne2" -> ONe2 | "lt" -> OLt | "le" -> OLe
  | "gt" -> OGt | "ge" -> OGe | "and" -> OAnd | "or" -> OOr
  | s -> raise (Bad ("op:" ^ s))

let rec parse_tree (items : string list) : expr * string list =
  match items with
  | [] -> raise (Bad "tree:empty")
  | it :: r ->
      if it = "" then raise (Bad "tree:item") else
      (match it.[0] with
       | 'd' -> (Lit (Dec (digits (rest it 1))), r)
       | 'o' -> (Lit (Oct (digits (rest it 1))), r)
       | 'h' ->
           let body = rest it 2 in
           (Lit (Hex (it.[1] = '$', List.init (String.length body) (fun i -> hex_digit body.[i]))), r)
       | 's' -> (Str (dotted (rest it 1)), r)
       | 'v' -> (Var (chars_of_string (rest it 1)), r)
       | 'n' -> let (e, r1) = parse_tree r in (Neg0 e, r1)
       | 'b' ->
           let o = op_of_string (rest it 1) in
           let (a, r1) = parse_tree r in
           let (b, r2) = parse_tree r1 in
           (Bin (o, a, b), r2)
       | _ -> raise (Bad ("tree:" ^ it)))
let tree_of_field (f : string) : expr =
  match parse_tree (List.filter (fun s -> s <> "") (String.split_on_char ' ' f)) with
  | (e, []) -> e
  | _ -> raise (Bad "tree:trailing")

type entry = EI of z | ES of z list | EA of z list
let env_entries (f : string) : (z list * entry) list =
  if f = "-" then [] else
  List.map (fun e ->
    match String.split_on_char ':' e with
    | [n; "i"; v] -> (chars_of_string n, EI (z_of_string v))
    | [n; "s"; v] -> (chars_of_string n, ES (dotted v))
    | [n; "a"; v] -> (chars_of_string n, EA (dotted v))
    | _ -> raise (Bad ("env:" ^ e))) (split_on ';' f)
let spec_env (f : string) : env =
  List.filter_map (fun (n, e) -> match e with EI v -> Some (n, VI v) | ES s -> Some (n, VS s) | EA _ -> None) (env_entries f)
let model_env (f : string) : venv =
  List.map (fun (n, e) -> match e with
    | EI v -> (n, SInt v) | ES s -> (n, SStr s) | EA l -> (n, SArr (List.map (fun v -> SInt v) l))) (env_entries f)

let string_of_res (f : 'a -> string) (r : 'a res) : string =
  match r with Ok a -> f a | Panic s -> "PANIC" | OutOfFuel -> "OUTOFFUEL" | Unsupported w -> "UNSUPPORTED:" ^ string_of_z w

let dispatch (fields : string list) : string =
  match fields with
  | ["expr_spec"; tree; env; choices] ->
      (* printed text TAB shown value  (NOTOK: not a well-formed tree, ILLTYPED: no denotation) *)
      let e = tree_of_field tree in
      if not (expr_ok e) then "NOTOK" else
      let txt = if choices = "-" then print e
                else fst (print_lay (nat_of_int 4) e (List.map (fun c -> nat_of_int (int_of_string c)) (split_on ',' choices))) in
      (match denote (spec_env env) e with
       | None -> field_of_text txt ^ "\tILLTYPED"
       | Some v -> field_of_text txt ^ "\t" ^ field_of_text (show v) ^ "\t" ^ (if no_str e then "int" else "str"))
  | ["expr_model"; text; env; tb] ->
      (* the text PRINT shows for the expression at the start of <text> *)
      let en = model_env env in
      string_of_res (fun v -> "OK\t" ^ field_of_text (to_s v))
        (eval_text (z_of_string tb) (List.map fst en) en (text_of_field text))
  | ["mid_spec"; s; i; n] -> field_of_text (mid (text_of_field s) (z_of_string i) (z_of_string n))
  | ["sizeof_spec"; s] -> string_of_z (size_of (text_of_field s))
  | ["replace_spec"; s; a; b] -> field_of_text (replace_all (text_of_field s) (text_of_field a) (text_of_field b))
  | ["chr_spec"; n] -> if is_scalar (z_of_string n) then field_of_text (chr (z_of_string n)) else "NOTSCALAR"
  | ["index_spec"; l; i] ->
      (match array_get (ints_of_field l) (z_of_string i) with Some v -> string_of_z v | None -> "NONE")
  | ["get_int"; s; def] ->
      let (v, r) = get_int (z_of_string def) (text_of_field s) in
      string_of_z v ^ "\t" ^ string_of_int (List.length r)
  | k :: _ -> "UNKNOWN-KIND:" ^ k
  | [] -> "EMPTY"
