
(* ------------------------------------------------------------------------------------------ *)
(* 8. the arms of the runner                                                                    *)
(* ------------------------------------------------------------------------------------------ *)
(* the setters applied: two explicit records (no conversion between unreduced setter chains is left to the kernel) *)
Ltac song_norm :=
  cbv beta iota delta
      [s_tracks s_cur s_timebase s_key_flag s_key_shift s_use_key_shift s_v_add s_q_add s_harmony_flag s_harmony_time
       s_harmony_events s_octave_once s_break_flag s_tempo s_timesig_frac s_timesig_deno s_measure_shift s_play_from s_lineno
       s_logs s_vars s_rhythm s_rand_seed s_device s_ja
       s_set_tracks s_set_cur s_set_timebase s_set_key_flag s_set_key_shift s_set_use_key_shift s_set_v_add s_set_q_add
       s_set_harmony_flag s_set_harmony_time s_set_harmony_events s_set_octave_once s_set_break_flag s_set_tempo
       s_set_timesig_frac s_set_timesig_deno s_set_measure_shift s_set_play_from s_set_lineno s_set_logs s_set_vars
       s_set_rhythm s_set_rand_seed s_set_device s_set_ja s_set_harmony s_set_time s_set_adds
       lx_timebase lx_logs lx_vars lx_rhythm lx_ja].
Ltac run_unfold :=
  unfold exec_note, exec_note_n, emit_note, note_number, key_flag_at, exec_rest, exec_voice, exec_harmony_end,
         exec_get_time, exec_tempo_change, exec_time_signature, exec_sysex, exec_gs_effect, exec_rpn_direct, runtime_error,
         add_events, tempo_change, change_cur_track, settle_octave_once, track_sync, upd_cur, cur_track, ls_of_song, song_with_ls.
Ltac sgR_solve ::= first [ assumption | song_norm; apply sgR_mk; logR_solve ].
Ltac run_leaf :=
  cbv beta iota zeta delta [bind fst snd];
  lazymatch goal with
  | |- resR _ (Panic _) (Panic _) => reflexivity
  | |- resR _ OutOfFuel OutOfFuel => exact I
  | |- resR _ (Unsupported _) (Unsupported _) => reflexivity
  | |- resR _ (Ok _) (Ok _) => cbn [resR outR fst snd]; first [ sgR_solve | split; [reflexivity | sgR_solve] ]
  end.
(* a case analysis inside the value both runs answer with *)
Ltac sync_in_ok :=
  lazymatch goal with
  | |- resR _ (Ok ?A) (Ok ?B) =>
      lazymatch A with
      | match _ with _ => _ end =>
          let x := hs A in let y := hs B in
          constr_eq x y; (tryif is_var x then destruct x else destruct x eqn:?); cbv beta iota zeta delta [bind fst snd]
      end
  end.
(* a condition inside a scrutinee (a field of a song chosen by an `if`) *)
Ltac inner_if :=
  lazymatch goal with
  | |- resR _ ?A ?B =>
      match A with
      | context [if ?c then _ else _] => lazymatch B with context [c] => destruct c eqn:? end
      end
  end.
Ltac run_step := first [sync_step | sync_in_ok | inner_if]; song_norm.
Ltac run_tac := run_unfold; rewrite ?add_log_eq; song_norm; repeat run_step; run_leaf.

Lemma tempo_change_R a b v : sgR a b -> sgR (tempo_change a v) (tempo_change b v).
Proof. intros H. sg_split H. run_unfold. song_norm. sgR_solve. Qed.
Lemma tempo_ramp_loop_R x w st n idx : forall a b, sgR a b -> sgR (tempo_ramp_loop a x w st n idx) (tempo_ramp_loop b x w st n idx).
Proof.
  induction idx as [|i r IH]; intros a b H; [exact H|]. cbn [tempo_ramp_loop]. apply IH.
  pose proof (tempo_change_R a b (tempo_ramp_value x w i n) H) as K. sg_split K. unfold upd_cur. song_norm. sgR_solve.
Qed.
Lemma tempo_change_a_to_b_R a b x y len : sgR a b -> resR sgR (tempo_change_a_to_b a x y len) (tempo_change_a_to_b b x y len).
Proof.
  intros H. unfold tempo_change_a_to_b.
  assert (E1 : s_timebase a = s_timebase b) by (sg_split H; reflexivity).
  assert (E2 : tr_timepos (cur_track a) = tr_timepos (cur_track b)) by (sg_split H; reflexivity).
  rewrite E1, E2. destruct (_ =? 0); [reflexivity|]. destruct (RAMP_MAX <? len); [reflexivity|]. cbn [resR].
  pose proof (tempo_ramp_loop_R x (y - x) (Z.quot (s_timebase b * 4) 16) (Z.quot len (Z.quot (s_timebase b * 4) 16))
                (Reserve.zrange (Z.quot len (Z.quot (s_timebase b * 4) 16))) a b H) as K.
  set (p := tr_timepos (cur_track b)) in *. clearbody p.
  match type of K with sgR ?u ?v => set (u1 := u) in *; set (v1 := v) in *; clearbody u1 v1 end.
  assert (K2 : sgR (upd_cur u1 (fun t => tr_set_timepos t (p + len))) (upd_cur v1 (fun t => tr_set_timepos t (p + len))))
    by (sg_split K; unfold upd_cur; song_norm; sgR_solve).
  apply (tempo_change_R _ _ y) in K2. sg_split K2. unfold upd_cur. song_norm. sgR_solve.
Qed.

Section StepLang.
  Variable ec : list tok -> res song -> res song.
  Hypothesis ec_R : forall toks r1 r2, resR sgR r1 r2 -> resR sgR (ec toks r1) (ec toks r2).

  (* the scrutinee is a nested exec() or a run-time lex() on the two songs *)
  Ltac run_pair :=
    cbv beta iota zeta delta [bind fst snd];
    lazymatch goal with
    | |- resR _ ?A ?B =>
        lazymatch A with
        | match _ with _ => _ end =>
            let x := hs A in let y := hs B in
            let P := fresh "P" in
            first [ assert (P : resR sgR x y) by (apply ec_R; cbn [resR]; sgR_solve);
                    destruct x as [?| | |], y as [?| | |]; cbn [resR] in P; try contradiction; [sg_split P | subst | | subst]
                  | assert (P : outR x y) by (apply lex_R; lsR_solve);
                    destruct x as [[? ?]| | |], y as [[? ?]| | |]; cbn [outR resR fst snd] in P; try contradiction;
                    [ let E := fresh "E" in destruct P as [E P]; subst; ls_split P | subst | | subst ] ]
        end
    end.
  Ltac run_step2 := first [sync_step | sync_in_ok | inner_if | run_pair]; song_norm.

  Definition ppR (x y : song * Z) : Prop := sgR (fst x) (fst y) /\ snd x = snd y.
  Lemma play_parts_R ln sp args : forall idx a b last, sgR a b ->
    resR ppR (play_parts ec ln sp args idx a last) (play_parts ec ln sp args idx b last).
  Proof.
    induction args as [|x r IH]; intros idx a b last H; cbn [play_parts]; [split; [exact H|reflexivity]|].
    sg_split H. run_unfold. song_norm. repeat run_step2.
    all: first [ run_leaf | apply IH; sgR_solve ].
  Time Qed.
  Lemma exec_play_R a b args ln : sgR a b -> resR sgR (exec_play ec a args ln) (exec_play ec b args ln).
  Proof.
    intros H. unfold exec_play.
    assert (E1 : s_cur a = s_cur b) by (sg_split H; reflexivity).
    assert (E2 : tr_timepos (cur_track a) = tr_timepos (cur_track b)) by (sg_split H; reflexivity).
    rewrite E1, E2. destruct (_ || _); [reflexivity|].
    pose proof (play_parts_R ln (tr_timepos (cur_track b)) args 1 a b (tr_timepos (cur_track b)) H) as K.
    destruct (play_parts ec ln _ args 1 a _) as [[s4 l4]| | |], (play_parts ec ln _ args 1 b _) as [[s5 l5]| | |];
      cbn [resR] in K; cbn [bind]; try contradiction; try exact K.
    destruct K as [K E]. cbn [fst snd] in K, E. subst l5. sg_split K. run_unfold. song_norm. repeat run_step2. run_leaf.
  Time Qed.

End StepLang.
