
(* ------------------------------------------------------------------------------------------ *)
(* 9. exec(), the pipeline                                                                      *)
(* ------------------------------------------------------------------------------------------ *)
Lemma halted_R r1 r2 : resR sgR r1 r2 -> halted r1 = halted r2.
Proof.
  destruct r1 as [a| | |], r2 as [b| | |]; cbn [resR halted]; intros H; try contradiction; try reflexivity.
  sg_split H. reflexivity.
Qed.
Theorem exec_f_R steps : forall d toks r1 r2, resR sgR r1 r2 -> resR sgR (exec_f d steps toks r1) (exec_f d steps toks r2).
Proof.
  induction d as [|d IH]; intros toks r1 r2 H; [exact I|]. cbn [exec_f].
  pose proof (run_R tok (res song) (step_tok (exec_f d steps)) halted count_of (resR sgR)) as K.
  specialize (K (fun t x y Hxy => resR_bind sgR sgR x y _ _ Hxy (step_song_R (exec_f d steps) IH t)) halted_R
                (fun n x y _ => eq_refl) steps (map to_ltok toks) r1 r2 H).
  destruct (run tok (res song) _ halted count_of steps (map to_ltok toks) r1),
           (run tok (res song) _ halted count_of steps (map to_ltok toks) r2); cbn [optR] in K; try contradiction; [exact K|exact I].
Qed.

Lemma song_new_lang_R j1 j2 : sgR (song_new_lang j1) (song_new_lang j2).
Proof. unfold song_new_lang, song_new. sgR_solve. Qed.
Lemma song_after_lex_R l1 l2 : lsR l1 l2 -> sgR (song_after_lex l1) (song_after_lex l2).
Proof. intros H. unfold song_after_lex. apply song_with_ls_R; [apply song_new_lang_R|exact H]. Qed.

(* the song after lex and exec: the same in every field but the log and the flag, in either language *)
Theorem run_source_lang_R j1 j2 src : resR sgR (run_source_lang j1 src) (run_source_lang j2 src).
Proof.
  unfold run_source_lang.
  pose proof (lex_R (mkLex 96 [] init_vars rhythm_rows j1) (mkLex 96 [] init_vars rhythm_rows j2) src 0
                (lsR_mk _ _ _ _ _ _ _ (logR_refl []))) as L.
  destruct (lex (mkLex 96 [] init_vars rhythm_rows j1) src 0) as [[toks l1]| | |],
           (lex (mkLex 96 [] init_vars rhythm_rows j2) src 0) as [[toks2 l2]| | |];
    cbn [outR resR fst snd] in L; cbn [bind]; try contradiction; try exact L.
  destruct L as [<- L]. apply exec_f_R. cbn [resR]. apply song_after_lex_R, L.
Qed.
Lemma writer_input_R a b : sgR a b -> s_timebase a = s_timebase b /\ tracks_for_writer a = tracks_for_writer b.
Proof. intros H. sg_split H. split; reflexivity. Qed.
(* the bytes: the same outcome, and the same file *)
Theorem compile_lang_R j1 j2 src : resR (fun x y => fst x = fst y) (compile_lang j1 src) (compile_lang j2 src).
Proof.
  unfold compile_lang. pose proof (run_source_lang_R j1 j2 src) as R.
  destruct (run_source_lang j1 src) as [a| | |], (run_source_lang j2 src) as [b| | |]; cbn [resR] in R; cbn [bind];
    try contradiction; try exact R.
  destruct (writer_input_R a b R) as [-> ->].
  destruct (generate (s_timebase b) (tracks_for_writer b)); cbn [bind resR fst]; reflexivity.
Qed.
