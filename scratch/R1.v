From Coq Require Import String Ascii.
From Sakura.Model Require Import Base Cursor Length Event Writer Song Token LoopMachine LexCore RunCore Tie Compile RunRsv Msg.
From Sakura.Gen Require Import Consts Messages VarRows.
From Sakura.Proofs Require Import LayoutP LangP.
From Coq Require Import Lia.
Open Scope list_scope.
Open Scope Z_scope.

(* ------------------------------------------------------------------------------------------ *)
(* 7. the loop machine keeps a relation its step keeps                                          *)
(* ------------------------------------------------------------------------------------------ *)
Section MachineR.
  Variables (D St : Type) (step : D -> St -> St) (halted : St -> bool) (cnt : Z -> St -> nat) (R : St -> St -> Prop).
  Hypothesis step_R : forall d a b, R a b -> R (step d a) (step d b).
  Hypothesis halted_R : forall a b, R a b -> halted a = halted b.
  Hypothesis cnt_R : forall n a b, R a b -> cnt n a = cnt n b.

  Definition cfgR (c1 c2 : config St) : Prop := pos St c1 = pos St c2 /\ stack St c1 = stack St c2 /\ R (st St c1) (st St c2).
  Definition optR {A} (Q : A -> A -> Prop) (x y : option A) : Prop :=
    match x, y with Some a, Some b => Q a b | None, None => True | _, _ => False end.

  Lemma mstep_R toks c1 c2 : cfgR c1 c2 -> optR cfgR (mstep D St step halted cnt toks c1) (mstep D St step halted cnt toks c2).
  Proof.
    intros (P & S & T). destruct c1 as [p1 k1 s1], c2 as [p2 k2 s2]. cbn [pos stack st] in P, S, T. subst p2 k2.
    unfold mstep. cbn [pos stack st]. destruct (nth_error toks p1) as [t|]; [|exact I].
    rewrite (halted_R _ _ T). destruct (halted s2); [exact I|].
    destruct t as [n| | |d].
    - rewrite (cnt_R n _ _ T). repeat split; exact T.
    - destruct k1 as [|it rest]; [repeat split; exact T|].
      destruct (Nat.leb _ _); [|repeat split; exact T]. destruct (Nat.ltb _ _); repeat split; exact T.
    - destruct k1 as [|it rest]; [repeat split; exact T|]. destruct (Nat.ltb _ _); repeat split; exact T.
    - repeat split. cbn [st]. apply step_R, T.
  Qed.
  Lemma mrun_R toks : forall fuel c1 c2, cfgR c1 c2 ->
    optR cfgR (mrun D St step halted cnt fuel toks c1) (mrun D St step halted cnt fuel toks c2).
  Proof.
    induction fuel as [|f IH]; intros c1 c2 H; [exact I|]. cbn [mrun].
    pose proof (mstep_R toks c1 c2 H) as M.
    destruct (mstep D St step halted cnt toks c1), (mstep D St step halted cnt toks c2); cbn [optR] in M; try contradiction.
    - apply IH, M.
    - exact H.
  Qed.
  Lemma run_R fuel toks a b : R a b -> optR R (run D St step halted cnt fuel toks a) (run D St step halted cnt fuel toks b).
  Proof.
    intros H. unfold run. assert (C : cfgR (mkCfg St 0 [] a) (mkCfg St 0 [] b)) by (repeat split; exact H).
    pose proof (mrun_R toks fuel _ _ C) as M.
    destruct (mrun D St step halted cnt fuel toks (mkCfg St 0 [] a)), (mrun D St step halted cnt fuel toks (mkCfg St 0 [] b));
      cbn [optR] in M |- *; try contradiction; [exact (proj2 (proj2 M))|exact I].
  Qed.
End MachineR.
