From Coq Require Import String Ascii.
From Sakura.Model Require Import Base Cursor Length Event Writer Song Token LoopMachine LexCore RunCore Tie Compile RunRsv Msg.
From Sakura.Gen Require Import Consts Messages VarRows.
From Sakura.Proofs Require Import LayoutP LangP.
From Coq Require Import Lia.
Open Scope list_scope.
Open Scope Z_scope.

(* ------------------------------------------------------------------------------------------ *)
(* 7. the loop machine keeps a relation its step keeps                                          *)
(* ------------------------------------------------------------------------------------------ *)
Section MachineR.
  Variables (D St : Type) (step : D -> St -> St) (halted : St -> bool) (cnt : Z -> St -> nat) (R : St -> St -> Prop).
  Hypothesis step_R : forall d a b, R a b -> R (step d a) (step d b).
  Hypothesis halted_R : forall a b, R a b -> halted a = halted b.
  Hypothesis cnt_R : forall n a b, R a b -> cnt n a = cnt n b.

  Definition cfgR (c1 c2 : config St) : Prop := pos St c1 = pos St c2 /\ stack St c1 = stack St c2 /\ R (st St c1) (st St c2).
  Definition optR {A} (Q : A -> A -> Prop) (x y : option A) : Prop :=
    match x, y with Some a, Some b => Q a b | None, None => True | _, _ => False end.

  Lemma mstep_R toks c1 c2 : cfgR c1 c2 -> optR cfgR (mstep D St step halted cnt toks c1) (mstep D St step halted cnt toks c2).
  Proof.
    intros (P & S & T). destruct c1 as [p1 k1 s1], c2 as [p2 k2 s2]. cbn [pos stack st] in P, S, T. subst p2 k2.
    unfold mstep. cbn [pos stack st]. destruct (nth_error toks p1) as [t|]; [|exact I].
    rewrite (halted_R _ _ T). destruct (halted s2); [exact I|].
    destruct t as [n| | |d].
    - rewrite (cnt_R n _ _ T). repeat split; exact T.
    - destruct k1 as [|it rest]; [repeat split; exact T|].
      destruct (Nat.leb _ _); [|repeat split; exact T]. destruct (Nat.ltb _ _); repeat split; exact T.
    - destruct k1 as [|it rest]; [repeat split; exact T|]. destruct (Nat.ltb _ _); repeat split; exact T.
    - repeat split. cbn [st]. apply step_R, T.
  Qed.
  Lemma mrun_R toks : forall fuel c1 c2, cfgR c1 c2 ->
    optR cfgR (mrun D St step halted cnt fuel toks c1) (mrun D St step halted cnt fuel toks c2).
  Proof.
    induction fuel as [|f IH]; intros c1 c2 H; [exact I|]. cbn [mrun].
    pose proof (mstep_R toks c1 c2 H) as M.
    destruct (mstep D St step halted cnt toks c1), (mstep D St step halted cnt toks c2); cbn [optR] in M; try contradiction.
    - apply IH, M.
    - exact H.
  Qed.
  Lemma run_R fuel toks a b : R a b -> optR R (run D St step halted cnt fuel toks a) (run D St step halted cnt fuel toks b).
  Proof.
    intros H. unfold run. assert (C : cfgR (mkCfg St 0 [] a) (mkCfg St 0 [] b)) by (repeat split; exact H).
    pose proof (mrun_R toks fuel _ _ C) as M.
    destruct (mrun D St step halted cnt fuel toks (mkCfg St 0 [] a)), (mrun D St step halted cnt fuel toks (mkCfg St 0 [] b));
      cbn [optR] in M |- *; try contradiction; [exact (proj2 (proj2 M))|exact I].
  Qed.
End MachineR.

(* ------------------------------------------------------------------------------------------ *)
(* 8. the arms of the runner                                                                    *)
(* ------------------------------------------------------------------------------------------ *)
(* the setters applied: two explicit records (no conversion between unreduced setter chains is left to the kernel) *)
Ltac song_norm :=
  cbv beta iota delta
      [s_tracks s_cur s_timebase s_key_flag s_key_shift s_use_key_shift s_v_add s_q_add s_harmony_flag s_harmony_time
       s_harmony_events s_octave_once s_break_flag s_tempo s_timesig_frac s_timesig_deno s_measure_shift s_play_from s_lineno
       s_logs s_vars s_rhythm s_rand_seed s_device s_ja
       s_set_tracks s_set_cur s_set_timebase s_set_key_flag s_set_key_shift s_set_use_key_shift s_set_v_add s_set_q_add
       s_set_harmony_flag s_set_harmony_time s_set_harmony_events s_set_octave_once s_set_break_flag s_set_tempo
       s_set_timesig_frac s_set_timesig_deno s_set_measure_shift s_set_play_from s_set_lineno s_set_logs s_set_vars
       s_set_rhythm s_set_rand_seed s_set_device s_set_ja s_set_harmony s_set_time s_set_adds
       lx_timebase lx_logs lx_vars lx_rhythm lx_ja].
Ltac run_unfold :=
  unfold exec_note, exec_note_n, emit_note, note_number, key_flag_at, exec_rest, exec_voice, exec_harmony_end,
         exec_get_time, exec_tempo_change, exec_time_signature, exec_sysex, exec_gs_effect, exec_rpn_direct, runtime_error,
         add_events, tempo_change, change_cur_track, settle_octave_once, track_sync, upd_cur, cur_track, ls_of_song, song_with_ls.
Ltac sgR_solve ::= first [ assumption | song_norm; apply sgR_mk; logR_solve ].
Ltac run_leaf :=
  cbv beta iota zeta delta [bind fst snd];
  lazymatch goal with
  | |- resR _ (Panic _) (Panic _) => reflexivity
  | |- resR _ OutOfFuel OutOfFuel => exact I
  | |- resR _ (Unsupported _) (Unsupported _) => reflexivity
  | |- resR _ (Ok _) (Ok _) => cbn [resR outR fst snd]; first [ sgR_solve | split; [reflexivity | sgR_solve] ]
  end.
(* a case analysis inside the value both runs answer with *)
Ltac sync_in_ok :=
  lazymatch goal with
  | |- resR _ (Ok ?A) (Ok ?B) =>
      lazymatch A with
      | match _ with _ => _ end =>
          let x := hs A in let y := hs B in
          constr_eq x y; (tryif is_var x then destruct x else destruct x eqn:?); cbv beta iota zeta delta [bind fst snd]
      end
  end.
(* a condition inside a scrutinee (a field of a song chosen by an `if`) *)
Ltac inner_if :=
  lazymatch goal with
  | |- resR _ ?A ?B =>
      match A with
      | context [if ?c then _ else _] => lazymatch B with context [c] => destruct c eqn:? end
      end
  end.
Ltac run_step := first [sync_step | sync_in_ok | inner_if]; song_norm.
Ltac run_tac := run_unfold; rewrite ?add_log_eq; song_norm; repeat run_step; run_leaf.

Lemma tempo_change_R a b v : sgR a b -> sgR (tempo_change a v) (tempo_change b v).
Proof. intros H. sg_split H. run_unfold. song_norm. sgR_solve. Qed.
Lemma tempo_ramp_loop_R x w st n idx : forall a b, sgR a b -> sgR (tempo_ramp_loop a x w st n idx) (tempo_ramp_loop b x w st n idx).
Proof.
  induction idx as [|i r IH]; intros a b H; [exact H|]. cbn [tempo_ramp_loop]. apply IH.
  pose proof (tempo_change_R a b (tempo_ramp_value x w i n) H) as K. sg_split K. unfold upd_cur. song_norm. sgR_solve.
Qed.
Lemma tempo_change_a_to_b_R a b x y len : sgR a b -> resR sgR (tempo_change_a_to_b a x y len) (tempo_change_a_to_b b x y len).
Proof.
  intros H. unfold tempo_change_a_to_b.
  assert (E1 : s_timebase a = s_timebase b) by (sg_split H; reflexivity).
  assert (E2 : tr_timepos (cur_track a) = tr_timepos (cur_track b)) by (sg_split H; reflexivity).
  rewrite E1, E2. destruct (_ =? 0); [reflexivity|]. destruct (RAMP_MAX <? len); [reflexivity|]. cbn [resR].
  pose proof (tempo_ramp_loop_R x (y - x) (Z.quot (s_timebase b * 4) 16) (Z.quot len (Z.quot (s_timebase b * 4) 16))
                (Reserve.zrange (Z.quot len (Z.quot (s_timebase b * 4) 16))) a b H) as K.
  set (p := tr_timepos (cur_track b)) in *. clearbody p.
  match type of K with sgR ?u ?v => set (u1 := u) in *; set (v1 := v) in *; clearbody u1 v1 end.
  assert (K2 : sgR (upd_cur u1 (fun t => tr_set_timepos t (p + len))) (upd_cur v1 (fun t => tr_set_timepos t (p + len))))
    by (sg_split K; unfold upd_cur; song_norm; sgR_solve).
  apply (tempo_change_R _ _ y) in K2. sg_split K2. unfold upd_cur. song_norm. sgR_solve.
Qed.

Section StepLang.
  Variable ec : list tok -> res song -> res song.
  Hypothesis ec_R : forall toks r1 r2, resR sgR r1 r2 -> resR sgR (ec toks r1) (ec toks r2).

  (* the scrutinee is a nested exec() or a run-time lex() on the two songs *)
  Ltac run_pair :=
    cbv beta iota zeta delta [bind fst snd];
    lazymatch goal with
    | |- resR _ ?A ?B =>
        lazymatch A with
        | match _ with _ => _ end =>
            let x := hs A in let y := hs B in
            let P := fresh "P" in
            first [ assert (P : resR sgR x y) by (apply ec_R; cbn [resR]; sgR_solve);
                    destruct x as [?| | |], y as [?| | |]; cbn [resR] in P; try contradiction; [sg_split P | subst | | subst]
                  | assert (P : outR x y) by (apply lex_R; lsR_solve);
                    destruct x as [[? ?]| | |], y as [[? ?]| | |]; cbn [outR resR fst snd] in P; try contradiction;
                    [ let E := fresh "E" in destruct P as [E P]; subst; ls_split P | subst | | subst ] ]
        end
    end.
  Ltac run_step2 := first [sync_step | sync_in_ok | inner_if | run_pair]; song_norm.

  Definition ppR (x y : song * Z) : Prop := sgR (fst x) (fst y) /\ snd x = snd y.
  Lemma play_parts_R ln sp args : forall idx a b last, sgR a b ->
    resR ppR (play_parts ec ln sp args idx a last) (play_parts ec ln sp args idx b last).
  Proof.
    induction args as [|x r IH]; intros idx a b last H; cbn [play_parts]; [split; [exact H|reflexivity]|].
    sg_split H. run_unfold. song_norm. repeat run_step2.
    all: first [ run_leaf | apply IH; sgR_solve ].
  Time Qed.
  Lemma exec_play_R a b args ln : sgR a b -> resR sgR (exec_play ec a args ln) (exec_play ec b args ln).
  Proof.
    intros H. unfold exec_play.
    assert (E1 : s_cur a = s_cur b) by (sg_split H; reflexivity).
    assert (E2 : tr_timepos (cur_track a) = tr_timepos (cur_track b)) by (sg_split H; reflexivity).
    rewrite E1, E2. destruct (_ || _); [reflexivity|].
    pose proof (play_parts_R ln (tr_timepos (cur_track b)) args 1 a b (tr_timepos (cur_track b)) H) as K.
    destruct (play_parts ec ln _ args 1 a _) as [[s4 l4]| | |], (play_parts ec ln _ args 1 b _) as [[s5 l5]| | |];
      cbn [resR] in K; cbn [bind]; try contradiction; try exact K.
    destruct K as [K E]. cbn [fst snd] in K, E. subst l5. sg_split K. run_unfold. song_norm. repeat run_step2. all: run_leaf.
  Time Qed.

  Lemma step_song_R t a b : sgR a b -> resR sgR (step_song ec t a) (step_song ec t b).
  Proof.
    intros H. destruct t; cbn [step_song]; sg_split H.
    all: try (solve [run_tac]).
    all: run_unfold; rewrite ?add_log_eq; song_norm; repeat run_step2.
    all: try (solve [run_leaf]).
    all: try (solve [apply ec_R; cbn [resR]; sgR_solve]).
    all: try (solve [apply exec_play_R; sgR_solve]).
    all: try (solve [apply tempo_change_a_to_b_R; sgR_solve]).
  Time Qed.
End StepLang.

(* ------------------------------------------------------------------------------------------ *)
(* 9. exec(), the pipeline                                                                      *)
(* ------------------------------------------------------------------------------------------ *)
Lemma halted_R r1 r2 : resR sgR r1 r2 -> halted r1 = halted r2.
Proof.
  destruct r1 as [a| | |], r2 as [b| | |]; cbn [resR halted]; intros H; try contradiction; try reflexivity.
  sg_split H. reflexivity.
Qed.
Theorem exec_f_R steps : forall d toks r1 r2, resR sgR r1 r2 -> resR sgR (exec_f d steps toks r1) (exec_f d steps toks r2).
Proof.
  induction d as [|d IH]; intros toks r1 r2 H; [exact I|]. cbn [exec_f].
  pose proof (run_R tok (res song) (step_tok (exec_f d steps)) halted count_of (resR sgR)) as K.
  specialize (K (fun t x y Hxy => resR_bind sgR sgR x y _ _ Hxy (step_song_R (exec_f d steps) IH t)) halted_R
                (fun n x y _ => eq_refl) steps (map to_ltok toks) r1 r2 H).
  destruct (run tok (res song) _ halted count_of steps (map to_ltok toks) r1),
           (run tok (res song) _ halted count_of steps (map to_ltok toks) r2); cbn [optR] in K; try contradiction; [exact K|exact I].
Qed.

Lemma song_new_lang_R j1 j2 : sgR (song_new_lang j1) (song_new_lang j2).
Proof. unfold song_new_lang, song_new. sgR_solve. Qed.
Lemma song_after_lex_R l1 l2 : lsR l1 l2 -> sgR (song_after_lex l1) (song_after_lex l2).
Proof. intros H. unfold song_after_lex. apply song_with_ls_R; [apply song_new_lang_R|exact H]. Qed.

(* the song after lex and exec: the same in every field but the log and the flag, in either language *)
Theorem run_source_lang_R j1 j2 src : resR sgR (run_source_lang j1 src) (run_source_lang j2 src).
Proof.
  unfold run_source_lang.
  pose proof (lex_R (mkLex 96 [] init_vars rhythm_rows j1) (mkLex 96 [] init_vars rhythm_rows j2) src 0
                (lsR_mk _ _ _ _ _ _ _ (logR_refl []))) as L.
  destruct (lex (mkLex 96 [] init_vars rhythm_rows j1) src 0) as [[toks l1]| | |],
           (lex (mkLex 96 [] init_vars rhythm_rows j2) src 0) as [[toks2 l2]| | |];
    cbn [outR resR fst snd] in L; cbn [bind]; try contradiction; try exact L.
  destruct L as [<- L]. apply exec_f_R. cbn [resR]. apply song_after_lex_R, L.
Qed.
Lemma writer_input_R a b : sgR a b -> s_timebase a = s_timebase b /\ tracks_for_writer a = tracks_for_writer b.
Proof. intros H. sg_split H. split; reflexivity. Qed.
(* the bytes: the same outcome, and the same file *)
Theorem compile_lang_R j1 j2 src : resR (fun x y => fst x = fst y) (compile_lang j1 src) (compile_lang j2 src).
Proof.
  unfold compile_lang. pose proof (run_source_lang_R j1 j2 src) as R.
  destruct (run_source_lang j1 src) as [a| | |], (run_source_lang j2 src) as [b| | |]; cbn [resR] in R; cbn [bind];
    try contradiction; try exact R.
  destruct (writer_input_R a b R) as [-> ->].
  destruct (generate (s_timebase b) (tracks_for_writer b)); cbn [bind resR fst]; reflexivity.
Qed.
