
(* ------------------------------------------------------------------------------------------ *)
(* 6. songs                                                                                     *)
(* ------------------------------------------------------------------------------------------ *)
(* the song without its log and its language *)
Definition sg_erase (s : song) : song := s_set_ja (s_set_logs s []) false.
Definition sgR (a b : song) : Prop := sg_erase a = sg_erase b /\ logR (s_logs a) (s_logs b).

(* add_log as a setter: the log is pushed unless it is full *)
Definition log_push (lg : list (list Z)) (m : list Z) : list (list Z) :=
  if SAKURA_MAX_LOGS <=? zlen lg then lg else lg ++ [m].
Lemma add_log_eq s m : add_log s m = s_set_logs s (log_push (s_logs s) m).
Proof. unfold add_log, log_push. destruct (SAKURA_MAX_LOGS <=? zlen (s_logs s)); [destruct s|]; reflexivity. Qed.
Lemma log_push_R a b x y : logR a b -> txtR x y -> logR (log_push a x) (log_push b y).
Proof.
  intros H T. unfold log_push. rewrite (logR_zlen _ _ H). destruct (SAKURA_MAX_LOGS <=? zlen b); [exact H|apply logR_snoc; assumption].
Qed.
Ltac logR_solve :=
  first [ assumption | apply logR_refl | apply log_push_R; [logR_solve | txt_solve] ].
Ltac lsR_solve ::=
  first [ assumption
        | apply lsR_mk; logR_solve
        | apply lx_add_log_R; [lsR_solve | txt_solve]
        | apply lex_error_R; lsR_solve
        | apply read_error_cmd_R; lsR_solve
        | apply cc_warn_R; lsR_solve
        | apply vars_insert_R; lsR_solve ].

Ltac song_cbn :=
  cbn [s_tracks s_cur s_timebase s_key_flag s_key_shift s_use_key_shift s_v_add s_q_add s_harmony_flag s_harmony_time
       s_harmony_events s_octave_once s_break_flag s_tempo s_timesig_frac s_timesig_deno s_measure_shift s_play_from s_lineno
       s_logs s_vars s_rhythm s_rand_seed s_device s_ja
       s_set_tracks s_set_cur s_set_timebase s_set_key_flag s_set_key_shift s_set_use_key_shift s_set_v_add s_set_q_add
       s_set_harmony_flag s_set_harmony_time s_set_harmony_events s_set_octave_once s_set_break_flag s_set_tempo
       s_set_timesig_frac s_set_timesig_deno s_set_measure_shift s_set_play_from s_set_lineno s_set_logs s_set_vars
       s_set_rhythm s_set_rand_seed s_set_device s_set_ja s_set_harmony s_set_time s_set_adds
       lx_timebase lx_logs lx_vars lx_rhythm lx_ja].
Ltac song_cbn_in H :=
  cbn [s_tracks s_cur s_timebase s_key_flag s_key_shift s_use_key_shift s_v_add s_q_add s_harmony_flag s_harmony_time
       s_harmony_events s_octave_once s_break_flag s_tempo s_timesig_frac s_timesig_deno s_measure_shift s_play_from s_lineno
       s_logs s_vars s_rhythm s_rand_seed s_device s_ja
       s_set_tracks s_set_cur s_set_timebase s_set_key_flag s_set_key_shift s_set_use_key_shift s_set_v_add s_set_q_add
       s_set_harmony_flag s_set_harmony_time s_set_harmony_events s_set_octave_once s_set_break_flag s_set_tempo
       s_set_timesig_frac s_set_timesig_deno s_set_measure_shift s_set_play_from s_set_lineno s_set_logs s_set_vars
       s_set_rhythm s_set_rand_seed s_set_device s_set_ja s_set_harmony s_set_time s_set_adds
       lx_timebase lx_logs lx_vars lx_rhythm lx_ja] in H.
(* two related songs: shared fields, two logs, two flags *)
Ltac sg_split H :=
  lazymatch type of H with
  | sgR ?a ?b =>
      let E := fresh "E" in let D := fresh "HL" in
      let lg1 := fresh "lg" in let j1 := fresh "ja" in let lg2 := fresh "lg" in let j2 := fresh "ja" in
      destruct a as [? ? ? ? ? ? ? ? ? ? ? ? ? ? ? ? ? ? ? lg1 ? ? ? ? j1], b as [? ? ? ? ? ? ? ? ? ? ? ? ? ? ? ? ? ? ? lg2 ? ? ? ? j2];
      destruct H as [E D]; unfold sg_erase in E; song_cbn_in E; song_cbn_in D; injection E as -> -> -> -> -> -> -> -> -> -> -> -> -> -> -> -> -> -> -> -> -> -> ->
  end.
Lemma sgR_mk a b c d e f g h i j k l m n o p q r s lg1 lg2 t u v w j1 j2 : logR lg1 lg2 ->
  sgR (mkSong a b c d e f g h i j k l m n o p q r s lg1 t u v w j1) (mkSong a b c d e f g h i j k l m n o p q r s lg2 t u v w j2).
Proof. intros H. split; [reflexivity|exact H]. Qed.
Ltac sgR_solve := first [ assumption | apply sgR_mk; logR_solve ].

Lemma sgR_refl s : sgR s s.
Proof. split; [reflexivity|apply logR_refl]. Qed.
Lemma ls_of_song_R a b : sgR a b -> lsR (ls_of_song a) (ls_of_song b).
Proof. intros H. sg_split H. unfold ls_of_song. song_cbn. lsR_solve. Qed.
Lemma song_with_ls_R a b l1 l2 : sgR a b -> lsR l1 l2 -> sgR (song_with_ls a l1) (song_with_ls b l2).
Proof. intros H K. sg_split H. ls_split K. unfold song_with_ls. song_cbn. sgR_solve. Qed.
