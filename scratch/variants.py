import subprocess, sys
t = open("/tmp/vf_c08/scratch/R2.v").read()
i = t.index("  Lemma exec_play_R")
base = t[:i]
base = base.replace("  Hypothesis ec_R :", "  Hypothesis cheat : forall P : Prop, P.\n  Hypothesis ec_R :")
old = """    sg_split H. run_unfold. song_norm. repeat run_step2.
    all: first [ run_leaf | apply IH; sgR_solve ].
  Qed."""
assert old in base
for k in sys.argv[1:]:
    v = "    sg_split H. run_unfold. song_norm. do %s (try run_step2). all: apply cheat.\n  Time Qed." % k
    t2 = base.replace(old, v) + "End StepLang.\n"
    open("/tmp/vf_c08/scratch/R.v", "w").write(open("/tmp/vf_c08/scratch/R1.v").read() + t2)
    r = subprocess.run("timeout 60 coqc -Q model Sakura.Model -Q spec Sakura.Spec -Q proofs Sakura.Proofs -Q props Sakura.Props -Q gen Sakura.Gen /tmp/vf_c08/scratch/R.v", shell=True, cwd="/tmp/vf_c08/coq", capture_output=True, text=True)
    print(k, r.returncode, (r.stdout + r.stderr)[-300:].replace("\n", " | "))
