import sys, subprocess
# usage: dbg.py <lemma name> : compiles LangP.v up to that lemma, replacing its proof's final `leaf` by a Show of remaining goals
name = sys.argv[1]
t = open("/tmp/vf_c08/coq/proofs/LangP.v").read()
i = t.index("Lemma " + name)
j = t.index("Qed.", i)
body = t[i:j]
body = body.replace("reader_tac H.", "unfold outR; ls_split H; cbn [lx_timebase lx_vars lx_rhythm lx_logs]; repeat sync_step; try (solve [leaf]).")
open("/tmp/vf_c08/scratch/T1.v", "w").write(t[:i] + body + "\nShow.\n")
r = subprocess.run("timeout 900 coqc -Q model Sakura.Model -Q spec Sakura.Spec -Q proofs Sakura.Proofs -Q props Sakura.Props -Q gen Sakura.Gen /tmp/vf_c08/scratch/T1.v", shell=True, cwd="/tmp/vf_c08/coq", capture_output=True, text=True)
print((r.stdout + r.stderr)[:int(sys.argv[2]) if len(sys.argv) > 2 else 6000])
