#!/bin/bash
# Offline build of the whole framework from files on disk: tables, Coq development (full .vo),
# extracted OCaml driver, Rust harness against /repo's working tree.
set -e
cd "$(dirname "$0")"
python3 tools/gen_tables.py
( cd coq && python3 -c "import sys; sys.path.insert(0,'../tools'); import vlib; rc,out=vlib.ensure_makefile(); print(out) if rc else None; sys.exit(rc)" && ( timeout 3000 make -k -j16 || echo "setup: some Coq files did not build (each check rebuilds and reports its own cone)" ) )
python3 - <<'PY'
import sys, os
sys.path.insert(0, "tools")
import vlib
with vlib.Lock():
    import glob
    for f in sorted(glob.glob(os.path.join(vlib.OCAML, "*_driver.ml"))):
        name = os.path.basename(f)[:-len("_driver.ml")]
        if name.startswith("_"): continue
        rc, out = vlib.build_driver(name)
        if rc: print(out); sys.exit(1)
    rc, out = vlib.build_harness()
    if rc: print(out); sys.exit(1)
print("setup ok")
PY
