//! C16: reservations (.onNote/.onCycle/.onTime) and .Random, driven at unit level through the public
//! Track / Song methods. Case kinds and output formats mirror ocaml/reserve_driver.ml.
use crate::cases::{enc_events, enc_ints, int, ints};
use sakuramml::song::{ControlChangeOnNoteWave, Song, Track};

fn opt_ints(f: &str) -> Option<Vec<isize>> { if f == "N" { None } else { Some(ints(f)) } }
fn enc_opt_ints(o: &Option<Vec<isize>>) -> String { match o { None => "N".to_string(), Some(v) => enc_ints(v) } }
fn enc_ccs(l: &[ControlChangeOnNoteWave]) -> String {
    if l.is_empty() { return "-".to_string(); }
    l.iter().map(|c| format!("{}:{}:{}", c.no, c.index, enc_ints(&c.data))).collect::<Vec<_>>().join("/")
}

pub fn run_case(f: &[String]) -> Option<String> {
    Some(match f[0].as_str() {
        "f32ops" => {
            let (a, b, c, d) = (int(&f[1]), int(&f[2]), int(&f[3]), int(&f[4]));
            let x = a as f32 * (b as f32 / c as f32) + d as f32;
            format!("{}\t{}\t{}", (a as f32) as isize, x as isize, (x * (65536 as f32)) as isize)
        }
        "on_note" => {
            // on_note <which> <values|N> <cycle> <index> <stored> <defaults>
            let mut k = Track::new(96, 0);
            let (vals, cyc, idx, stored) = (opt_ints(&f[2]), f[3] == "1", int(&f[4]), int(&f[5]));
            match f[1].as_str() {
                "v" => { k.v_on_note = vals; k.v_on_note_is_cycle = cyc; k.v_on_note_index = idx; k.velocity = stored; }
                "q" => { k.q_on_note = vals; k.q_on_note_is_cycle = cyc; k.q_on_note_index = idx; k.qlen = stored; }
                "t" => { k.t_on_note = vals; k.t_on_note_is_cycle = cyc; k.t_on_note_index = idx; k.timing = stored; }
                "o" => { k.o_on_note = vals; k.o_on_note_is_cycle = cyc; k.o_on_note_index = idx; k.octave = stored; }
                _ => { k.l_on_note = vals; k.l_on_note_is_cycle = cyc; k.l_on_note_index = idx; }
            }
            let mut rs = vec![];
            for d in ints(&f[6]) {
                rs.push(match f[1].as_str() {
                    "v" => k.calc_v_on_note(d), "q" => k.calc_qlen_on_note(d), "t" => k.calc_t_on_note(d),
                    "o" => k.calc_o_on_note(d), _ => k.calc_l_on_note(d),
                });
            }
            let (l, i, c) = match f[1].as_str() {
                "v" => (&k.v_on_note, k.v_on_note_index, k.v_on_note_is_cycle),
                "q" => (&k.q_on_note, k.q_on_note_index, k.q_on_note_is_cycle),
                "t" => (&k.t_on_note, k.t_on_note_index, k.t_on_note_is_cycle),
                "o" => (&k.o_on_note, k.o_on_note_index, k.o_on_note_is_cycle),
                _ => (&k.l_on_note, k.l_on_note_index, k.l_on_note_is_cycle),
            };
            format!("{}\t{}\t{}\t{}\t{},{},{},{}", enc_ints(&rs), enc_opt_ints(l), i, if c { 1 } else { 0 },
                    k.velocity, k.qlen, k.timing, k.octave)
        }
        "v_on_time" => {
            // v_on_time <start> <ia|N> <timepos list> <def>
            let mut k = Track::new(96, 0);
            k.v_on_time_start = int(&f[1]);
            k.v_on_time = opt_ints(&f[2]);
            let def = int(&f[4]);
            let mut rs = vec![];
            for tp in ints(&f[3]) {
                k.timepos = tp;
                rs.push(k.calc_v_on_time(def));
            }
            format!("{}\t{}\t{}", enc_ints(&rs), enc_opt_ints(&k.v_on_time), k.v_on_time_start)
        }
        "cc_on_time" => {
            // cc_on_time <timepos> <ch> <freq> <ccno> <ia>
            let mut k = Track::new(96, int(&f[2]));
            k.channel = int(&f[2]);
            k.timepos = int(&f[1]);
            k.cc_on_time_freq = int(&f[3]);
            k.write_cc_on_time(int(&f[4]), ints(&f[5]));
            enc_events(&k.events)
        }
        "pb_on_time" => {
            // pb_on_time <timepos> <ch> <is_big> <timebase> <ia>
            let mut k = Track::new(96, int(&f[2]));
            k.channel = int(&f[2]);
            k.timepos = int(&f[1]);
            k.write_pb_on_time(int(&f[3]), ints(&f[5]), int(&f[4]));
            enc_events(&k.events)
        }
        "cc_on_note" => {
            // cc_on_note <ch> <freq> <ops '/'-joined: s:no:vals | w:no:vals | r:no | n:start | W:start:timepos>
            let mut k = Track::new(96, int(&f[1]));
            k.channel = int(&f[1]);
            k.cc_on_time_freq = int(&f[2]);
            if f[3] != "" {
                for op in f[3].split('/') {
                    let p: Vec<&str> = op.split(':').collect();
                    match p[0] {
                        "s" => k.set_cc_on_note(int(p[1]), ints(p[2])),
                        "w" => k.set_cc_on_note_wave(int(p[1]), ints(p[2])),
                        "r" => k.remove_cc_on(int(p[1])),
                        "n" => k.write_cc_on_note(int(p[1])),
                        "W" => { k.timepos = int(p[2]); k.write_cc_on_note_wave(int(p[1])); }
                        _ => return Some(format!("BAD:op:{}", op)),
                    }
                }
            }
            format!("{}\t{}\t{}\t{}", enc_events(&k.events), enc_ccs(&k.cc_on_note), enc_ccs(&k.cc_on_note_wave), k.timepos)
        }
        "rand" => {
            let mut song = Song::new();
            song.rand_seed = int(&f[1]) as u32;
            let n = int(&f[2]);
            let rs: Vec<isize> = (0..n).map(|_| song.rand() as isize).collect();
            enc_ints(&rs)
        }
        "rand_value" => {
            let mut song = Song::new();
            song.rand_seed = int(&f[1]) as u32;
            let (v, w, n) = (int(&f[2]), int(&f[3]), int(&f[4]));
            let rs: Vec<isize> = (0..n).map(|_| song.calc_rand_value(v, w)).collect();
            enc_ints(&rs)
        }
        _ => return None,
    })
}
