//! C08: the three library entry points, repeated compilation in one process, compilation after an
//! unrelated earlier compilation. Every result is `<hex bytes> TAB <log text>` (several results joined by TAB).
//! With debug >= 1 the library prints to stdout; results go to the out file, so that is harmless here.
use crate::cases::{enc_text, hex, text};
use sakuramml::SakuraCompiler;
use sakuramml::{lexer, midi, runner, song::Song};
use std::panic;

fn res(bin: &[u8], log: &str) -> String {
    format!("{}\t{}", hex(bin), enc_text(log))
}
fn debug_of(f: &str) -> u32 {
    f.parse::<u32>().unwrap()
}
fn by_compile(src: &str, debug: u32) -> String {
    let r = sakuramml::compile(src, debug);
    res(&r.bin, &r.log)
}
fn by_object(src: &str, debug: u32, lang: &str) -> String {
    let mut c = SakuraCompiler::new();
    c.set_language(lang);
    c.set_debug_level(debug);
    let bin = c.compile(src);
    res(&bin, &c.get_log())
}

pub fn run_case(f: &[String]) -> Option<String> {
    match f[0].as_str() {
        // entry_compile <src> <debug>  ->  bytes, log of sakuramml::compile
        "entry_compile" => Some(by_compile(&text(&f[1]), debug_of(&f[2]))),
        // entry_to_midi <src> <debug>  ->  bytes of sakuramml::compile_to_midi, log "-" (this entry point has none)
        "entry_to_midi" => {
            let bin = sakuramml::compile_to_midi(&text(&f[1]), debug_of(&f[2]));
            Some(format!("{}\t-", hex(&bin)))
        }
        // entry_object <src> <debug> <lang>  ->  bytes, get_log() of a fresh SakuraCompiler
        "entry_object" => Some(by_object(&text(&f[1]), debug_of(&f[2]), &text(&f[3]))),
        // entry_twice <src> <debug>  ->  compile(), compile(), fresh object, fresh object: four results joined
        "entry_twice" => {
            let src = text(&f[1]);
            let d = debug_of(&f[2]);
            let a = by_compile(&src, d);
            let b = by_compile(&src, d);
            let c = by_object(&src, d, "en");
            let e = by_object(&src, d, "en");
            Some(format!("{}\t{}\t{}\t{}", a, b, c, e))
        }
        // entry_after <other_src> <src>  ->  result of compile(src) after compile(other_src) and a fresh object
        // run on other_src in this process (a panic of the earlier compilation is swallowed: only its traces matter)
        "entry_after" => {
            let other = text(&f[1]);
            let o2 = other.clone();
            let _ = panic::catch_unwind(move || { let _ = sakuramml::compile(&other, 0); });
            let _ = panic::catch_unwind(move || {
                let mut c = SakuraCompiler::new();
                c.set_language("ja");
                let _ = c.compile(&o2);
            });
            Some(by_compile(&text(&f[2]), 0))
        }
        // entry_object_twice <src>  ->  ONE SakuraCompiler, compile(src) twice: bytes1, log after 1, bytes2, log after 2
        // (not part of the oracle: demonstrates the candidate finding "the object keeps its Song")
        "entry_object_twice" => {
            let src = text(&f[1]);
            let mut c = SakuraCompiler::new();
            let b1 = c.compile(&src);
            let l1 = c.get_log();
            let b2 = c.compile(&src);
            let l2 = c.get_log();
            Some(format!("{}\t{}", res(&b1, &l1), res(&b2, &l2)))
        }
        // compile_lex_ja <src>  ->  bytes, log of the stages of `compile_lex` (lexer::lex + runner::exec + midi::generate, no
        // sutoton::convert) on a song whose message language was set to ja before lexing, as SakuraCompiler::compile does
        "compile_lex_ja" => {
            let mut song = Song::new();
            song.set_language("ja");
            let tokens = lexer::lex(&mut song, &text(&f[1]), 0);
            runner::exec(&mut song, &tokens);
            let bin = midi::generate(&mut song);
            Some(res(&bin, &song.get_logs_str()))
        }
        _ => None,
    }
}
