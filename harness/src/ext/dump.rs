//! C20: the MIDI dump. `dump <hexbytes>` -> text of midi::dump_midi(bytes, false);
//! `read_delta <hexbytes>` -> value \t bytes consumed by midi::array_readl_delta_time from position 0.
use crate::cases::{enc_text, unhex};
use sakuramml::midi;

pub fn run_case(f: &[String]) -> Option<String> {
    match f[0].as_str() {
        "dump" => {
            let bin = unhex(&f[1]);
            Some(enc_text(&midi::dump_midi(&bin, false)))
        }
        "read_delta" => {
            let bin = unhex(&f[1]);
            let mut pos: usize = 0;
            let v = midi::array_readl_delta_time(&bin, &mut pos);
            Some(format!("{}\t{}", v, pos))
        }
        _ => None,
    }
}
