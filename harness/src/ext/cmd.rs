//! C15 (commands -> MIDI messages): dumps of the implementation's own tables through the public API,
//! used to validate the translator (tools/gen_tables.py) against what the code really registers.
use sakuramml::mml_def;
use sakuramml::svalue::SValue;

pub fn run_case(f: &[String]) -> Option<String> {
    match f[0].as_str() {
        "sysfunc_table" => {
            // <count> \t name,TokenType,argchar,tag1,tag2;...  sorted by name
            let sf = mml_def::init_system_functions();
            let mut rows: Vec<(String, String)> = sf.iter().map(|(k, v)| {
                (k.clone(), format!("{},{:?},{},{},{}", k, v.token_type, v.arg_type as u32, v.tag1, v.tag2))
            }).collect();
            rows.sort();
            Some(format!("{}\t{}", rows.len(), rows.into_iter().map(|r| r.1).collect::<Vec<_>>().join(";")))
        }
        "var_table" => {
            // integer variables of init_variables(): name,value;... sorted by name
            let vars = mml_def::init_variables();
            let mut rows: Vec<(String, isize)> = vars.iter().filter_map(|(k, v)| match v {
                SValue::Int(i) => Some((k.clone(), *i)),
                _ => None,
            }).collect();
            rows.sort();
            Some(rows.into_iter().map(|(k, v)| format!("{},{}", k, v)).collect::<Vec<_>>().join(";"))
        }
        "rhythm_table" => {
            // code,text;... of the non-empty rhythm macros
            let t = mml_def::init_rhythm_macro();
            Some(t.iter().enumerate().filter(|(_, s)| !s.is_empty())
                .map(|(i, s)| format!("{},{}", i + 0x40, crate::cases::enc_text(s).replace(',', " "))).collect::<Vec<_>>().join(";"))
        }
        _ => None,
    }
}
