//! C17: sutoton::convert (public).
use crate::cases::{enc_text, text};
use sakuramml::sutoton;

pub fn run_case(f: &[String]) -> Option<String> {
    match f[0].as_str() {
        // convert <text> -> text
        "convert" => Some(enc_text(&sutoton::convert(&text(&f[1])))),
        _ => None,
    }
}
