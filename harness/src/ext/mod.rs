//! One module per property area. Each `run_case` returns None when the case kind is not its own.
//! To add an area: create harness/src/ext/<area>.rs, add `pub mod <area>;` and one line below.
pub mod cmd;
pub mod dump;
pub mod reserve;
pub mod sutoton;
pub mod entry;

pub fn run_case(f: &[String]) -> String {
    // if let Some(r) = area::run_case(f) { return r; }
    if let Some(r) = dump::run_case(f) { return r; }
    if let Some(r) = reserve::run_case(f) { return r; }
    if let Some(r) = sutoton::run_case(f) { return r; }
    if let Some(r) = cmd::run_case(f) { return r; }
    if let Some(r) = entry::run_case(f) { return r; }
    format!("UNKNOWN-KIND:{}", f[0])
}
