use sakuramml::*;

pub fn text(f: &str) -> String {
    if f == "-" { return String::new(); }
    f.split(',').map(|c| char::from_u32(c.parse::<u32>().unwrap()).unwrap_or('\u{FFFD}')).collect()
}
pub fn enc_text(s: &str) -> String {
    if s.is_empty() { return "-".to_string(); }
    s.chars().map(|c| (c as u32).to_string()).collect::<Vec<_>>().join(",")
}
pub fn hex(b: &[u8]) -> String {
    if b.is_empty() { return "-".to_string(); }
    b.iter().map(|x| format!("{:02x}", x)).collect::<Vec<_>>().join("")
}
pub fn unhex(f: &str) -> Vec<u8> {
    if f == "-" { return vec![]; }
    (0..f.len() / 2).map(|i| u8::from_str_radix(&f[2 * i..2 * i + 2], 16).unwrap()).collect()
}
pub fn int(f: &str) -> isize { f.parse::<isize>().unwrap() }
pub fn ints(f: &str) -> Vec<isize> {
    if f == "-" { return vec![]; }
    f.split(',').map(|c| c.parse::<isize>().unwrap()).collect()
}
pub fn enc_ints(v: &[isize]) -> String {
    if v.is_empty() { return "-".to_string(); }
    v.iter().map(|x| x.to_string()).collect::<Vec<_>>().join(",")
}

use sakuramml::song::{Event, EventType, Song, Track};

pub fn etype_code(t: &EventType) -> char {
    match t {
        EventType::NoteOn => 'N', EventType::NoteOff => 'F', EventType::ControllChange => 'C',
        EventType::PitchBend => 'P', EventType::PitchBendRange => 'R', EventType::Voice => 'V',
        EventType::Meta => 'M', EventType::SysEx => 'S', EventType::DirectSMF => 'D',
    }
}
pub fn etype_of(c: &str) -> EventType {
    match c {
        "N" => EventType::NoteOn, "F" => EventType::NoteOff, "C" => EventType::ControllChange,
        "P" => EventType::PitchBend, "R" => EventType::PitchBendRange, "V" => EventType::Voice,
        "M" => EventType::Meta, "S" => EventType::SysEx, _ => EventType::DirectSMF,
    }
}
/// events of one track: T:time:ch:v1:v2:v3:data  joined by ';'  (data: '-' None, 'e' empty, hex)
pub fn enc_events(evs: &[Event]) -> String {
    if evs.is_empty() { return "-".to_string(); }
    evs.iter().map(|e| {
        let d = match &e.data { None => "-".to_string(), Some(d) => if d.is_empty() { "e".to_string() } else { hex(d) } };
        format!("{}:{}:{}:{}:{}:{}:{}", etype_code(&e.etype), e.time, e.channel, e.v1, e.v2, e.v3, d)
    }).collect::<Vec<_>>().join(";")
}
pub fn dec_events(f: &str) -> Vec<Event> {
    if f == "-" { return vec![]; }
    f.split(';').map(|s| {
        let p: Vec<&str> = s.split(':').collect();
        let data = match p[6] { "-" => None, "e" => Some(vec![]), h => Some(unhex(h)) };
        Event { etype: etype_of(p[0]), time: int(p[1]), channel: int(p[2]), v1: int(p[3]), v2: int(p[4]), v3: int(p[5]), data }
    }).collect()
}
pub fn enc_tracks(song: &Song) -> String {
    song.tracks.iter().map(|t| enc_events(&t.events)).collect::<Vec<_>>().join("/")
}

pub fn run_case(f: &[String]) -> String {
    match f[0].as_str() {
        "calc_length" => {
            format!("{}", runner::calc_length(&text(&f[1]), int(&f[2]), int(&f[3])))
        }
        "compile" => {
            // compile <src> <debug>  ->  <hex bytes> \t <log>
            let r = compile(&text(&f[1]), f[2].parse::<u32>().unwrap());
            format!("{}\t{}", hex(&r.bin), enc_text(&r.log))
        }
        "compile_lex" => {
            // compile_lex <src>: the pipeline of lib.rs compile() WITHOUT sutoton::convert -> <hex bytes> \t <log>
            let mut song = Song::new();
            let tokens = lexer::lex(&mut song, &text(&f[1]), 0);
            runner::exec(&mut song, &tokens);
            let bin = midi::generate(&mut song);
            format!("{}\t{}", hex(&bin), enc_text(&song.get_logs_str()))
        }
        "generate" => {
            // generate <timebase> <tracks: events '/' events ...>  ->  hex of midi::generate
            let mut song = Song::new();
            song.timebase = int(&f[1]);
            song.tracks.clear();
            for (i, t) in f[2].split('/').enumerate() {
                let mut trk = Track::new(song.timebase, i as isize);
                trk.events = dec_events(t);
                song.tracks.push(trk);
            }
            hex(&midi::generate(&mut song))
        }
        "compile_ev" => {
            // compile_ev <src>  ->  <hex bytes of compile()> \t <timebase> \t <events per track as handed to the writer> \t <log of compile()>
            let mut song = Song::new();
            let src = sutoton::convert(&text(&f[1]));
            let tokens = lexer::lex(&mut song, &src, 0);
            runner::exec(&mut song, &tokens);
            runner::flush_tie_notes(&mut song);
            song.play_from_all_track();
            song.play_from = -1;
            let evs = enc_tracks(&song);
            // bytes and log are those of the PUBLIC entry point (the staged run above only shows the events and the time base)
            let r = compile(&text(&f[1]), 0);
            format!("{}\t{}\t{}\t{}", hex(&r.bin), song.timebase, evs, enc_text(&r.log))
        }
        _ => crate::ext::run_case(f),
    }
}
