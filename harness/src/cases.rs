use sakuramml::*;

pub fn text(f: &str) -> String {
    if f == "-" { return String::new(); }
    f.split(',').map(|c| char::from_u32(c.parse::<u32>().unwrap()).unwrap_or('\u{FFFD}')).collect()
}
pub fn enc_text(s: &str) -> String {
    if s.is_empty() { return "-".to_string(); }
    s.chars().map(|c| (c as u32).to_string()).collect::<Vec<_>>().join(",")
}
pub fn hex(b: &[u8]) -> String {
    if b.is_empty() { return "-".to_string(); }
    b.iter().map(|x| format!("{:02x}", x)).collect::<Vec<_>>().join("")
}
pub fn unhex(f: &str) -> Vec<u8> {
    if f == "-" { return vec![]; }
    (0..f.len() / 2).map(|i| u8::from_str_radix(&f[2 * i..2 * i + 2], 16).unwrap()).collect()
}
pub fn int(f: &str) -> isize { f.parse::<isize>().unwrap() }
pub fn ints(f: &str) -> Vec<isize> {
    if f == "-" { return vec![]; }
    f.split(',').map(|c| c.parse::<isize>().unwrap()).collect()
}
pub fn enc_ints(v: &[isize]) -> String {
    if v.is_empty() { return "-".to_string(); }
    v.iter().map(|x| x.to_string()).collect::<Vec<_>>().join(",")
}

pub fn run_case(f: &[String]) -> String {
    match f[0].as_str() {
        "calc_length" => {
            format!("{}", runner::calc_length(&text(&f[1]), int(&f[2]), int(&f[3])))
        }
        "compile" => {
            // compile <src> <debug>  ->  <hex bytes> \t <log>
            let r = compile(&text(&f[1]), f[2].parse::<u32>().unwrap());
            format!("{}\t{}", hex(&r.bin), enc_text(&r.log))
        }
        k => format!("UNKNOWN-KIND:{}", k),
    }
}
