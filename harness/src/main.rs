//! Correspondence harness: runs the implementation (/repo, built from the working tree) on the
//! case file and writes one canonical result line per case to the output file.
//! usage: sakura_harness <cases> <out> [skip]
//! Results go to a file (not stdout) so that anything the library prints can be observed
//! separately. A panic is reported as PANIC; hangs are handled by the caller (watchdog).
use std::io::Write;
use std::panic;

mod cases;
mod ext;

fn main() {
    let args: Vec<String> = std::env::args().collect();
    let cases = std::fs::read_to_string(&args[1]).expect("cases");
    let skip: usize = if args.len() > 3 { args[3].parse().unwrap() } else { 0 };
    let mut out = std::fs::OpenOptions::new().create(true).append(true).open(&args[2]).expect("out");
    panic::set_hook(Box::new(|_| {}));
    for (i, line) in cases.lines().enumerate() {
        if i < skip { continue; }
        let fields: Vec<String> = line.split('\t').map(|s| s.to_string()).collect();
        let r = panic::catch_unwind(move || cases::run_case(&fields));
        let s = match r { Ok(s) => s, Err(_) => "PANIC".to_string() };
        writeln!(out, "{}", s).unwrap();
        out.flush().unwrap();
    }
}
